// bgx - fact extractor for the BaseGraph static checks.
//
// Usage: bgx --out=<facts.json> --roots=<dir>[,<dir>...] <tu.cpp> -- <compiler flags>
//
// Emits, for every *instantiated* (non-dependent) function definition whose
// spelling location lies under one of the roots (including lambda call
// operators and lambdas in default arguments):
//   * the resolved AST of the body as a flat node table,
//   * the clang CFG (setAllAlwaysAdd, no EH edges, no implicit dtors) as blocks
//     of node ids with ordered successors,
// and declaration-level facts: records (bases, fields, methods, using
// declarations, friends, special members), namespace-scope / static variables,
// per-header include-guard status, const-dropping casts.
//
// The extractor contains no rule logic.

#include "clang/AST/ASTConsumer.h"
#include "clang/AST/ASTContext.h"
#include "clang/AST/DeclCXX.h"
#include "clang/AST/DeclFriend.h"
#include "clang/AST/DeclTemplate.h"
#include "clang/AST/ExprCXX.h"
#include "clang/AST/RecursiveASTVisitor.h"
#include "clang/AST/StmtCXX.h"
#include "clang/Analysis/CFG.h"
#include "clang/Frontend/CompilerInstance.h"
#include "clang/Frontend/FrontendAction.h"
#include "clang/Lex/HeaderSearch.h"
#include "clang/Lex/Lexer.h"
#include "clang/Lex/Preprocessor.h"
#include "clang/Tooling/CompilationDatabase.h"
#include "clang/Tooling/Tooling.h"
#include "llvm/Support/raw_ostream.h"

#include <fstream>
#include <map>
#include <set>
#include <sstream>
#include <string>
#include <vector>

using namespace clang;

static std::vector<std::string> gRoots;
static std::string gOut;

// ---------------------------------------------------------------- JSON writer
static std::string jesc(const std::string &s) {
    std::string o;
    o.reserve(s.size() + 2);
    for (unsigned char c : s) {
        switch (c) {
        case '"': o += "\\\""; break;
        case '\\': o += "\\\\"; break;
        case '\n': o += "\\n"; break;
        case '\r': o += "\\r"; break;
        case '\t': o += "\\t"; break;
        default:
            if (c < 0x20) {
                char b[8];
                snprintf(b, sizeof b, "\\u%04x", c);
                o += b;
            } else
                o += (char)c;
        }
    }
    return o;
}
static std::string jstr(const std::string &s) { return "\"" + jesc(s) + "\""; }

struct Obj {
    std::string s;
    bool first = true;
    Obj() { s = "{"; }
    void key(const std::string &k) {
        if (!first) s += ",";
        first = false;
        s += "\"" + k + "\":";
    }
    Obj &str(const std::string &k, const std::string &v) { key(k); s += jstr(v); return *this; }
    Obj &num(const std::string &k, long long v) { key(k); s += std::to_string(v); return *this; }
    Obj &boolean(const std::string &k, bool v) { key(k); s += v ? "true" : "false"; return *this; }
    Obj &raw(const std::string &k, const std::string &v) { key(k); s += v; return *this; }
    std::string done() { return s + "}"; }
};
static std::string jarr(const std::vector<std::string> &v) {
    std::string s = "[";
    for (size_t i = 0; i < v.size(); ++i) { if (i) s += ","; s += v[i]; }
    return s + "]";
}
static std::string jints(const std::vector<long long> &v) {
    std::string s = "[";
    for (size_t i = 0; i < v.size(); ++i) { if (i) s += ","; s += std::to_string(v[i]); }
    return s + "]";
}

// ---------------------------------------------------------------- extractor
class Extractor {
  public:
    ASTContext &Ctx;
    SourceManager &SM;
    Preprocessor &PP;
    PrintingPolicy Pol;

    std::map<const Decl *, int> declIds;
    std::vector<std::string> declJson;
    std::map<std::string, int> fileIds;
    std::vector<std::string> files;

    std::set<const FunctionDecl *> emitted;
    std::vector<const FunctionDecl *> pendingLambdas;
    std::vector<std::string> funcJson;
    std::vector<std::string> recordJson;
    std::vector<std::string> varJson;
    std::set<const CXXRecordDecl *> recordsDone;

    Extractor(ASTContext &C, Preprocessor &P)
        : Ctx(C), SM(C.getSourceManager()), PP(P), Pol(C.getLangOpts()) {
        Pol.SuppressTagKeyword = true;
        Pol.Bool = true;
        Pol.FullyQualifiedName = true;
    }

    // -- locations
    std::string fileOf(SourceLocation L) {
        if (L.isInvalid()) return "";
        SourceLocation S = SM.getSpellingLoc(L);
        if (L.isMacroID()) S = SM.getExpansionLoc(L);
        PresumedLoc P = SM.getPresumedLoc(S);
        if (P.isInvalid()) return "";
        return P.getFilename();
    }
    bool underRoots(const std::string &f) {
        if (f.empty()) return false;
        llvm::SmallString<256> real(f);
        std::string rf = f;
        if (auto fe = SM.getFileManager().getFile(f)) {
            llvm::StringRef rp = (*fe)->tryGetRealPathName();
            if (!rp.empty()) rf = rp.str();
        }
        for (auto &r : gRoots)
            if (rf.compare(0, r.size(), r) == 0) return true;
        return false;
    }
    bool declUnderRoots(const Decl *D) { return underRoots(fileOf(D->getLocation())); }
    int fileId(const std::string &f) {
        std::string rf = f;
        if (!f.empty())
            if (auto fe = SM.getFileManager().getFile(f)) {
                llvm::StringRef rp = (*fe)->tryGetRealPathName();
                if (!rp.empty()) rf = rp.str();
            }
        auto it = fileIds.find(rf);
        if (it != fileIds.end()) return it->second;
        int id = files.size();
        files.push_back(rf);
        fileIds[rf] = id;
        return id;
    }
    std::string locJson(SourceLocation L) {
        if (L.isInvalid()) return "[-1,0,0]";
        SourceLocation S = L.isMacroID() ? SM.getExpansionLoc(L) : SM.getSpellingLoc(L);
        PresumedLoc P = SM.getPresumedLoc(S);
        if (P.isInvalid()) return "[-1,0,0]";
        return "[" + std::to_string(fileId(P.getFilename())) + "," + std::to_string(P.getLine()) + "," +
               std::to_string(P.getColumn()) + "]";
    }

    // -- names
    std::string tname(const DeclContext *DC) {
        std::vector<std::string> parts;
        while (DC && !DC->isTranslationUnit()) {
            if (auto *ND = dyn_cast<NamespaceDecl>(DC)) {
                if (!ND->isAnonymousNamespace() && !ND->isInline()) parts.push_back(ND->getNameAsString());
                else if (ND->isAnonymousNamespace()) parts.push_back("(anon)");
            } else if (auto *RD = dyn_cast<CXXRecordDecl>(DC)) {
                if (RD->isLambda()) parts.push_back("(lambda)");
                else parts.push_back(RD->getNameAsString());
            } else if (auto *FD = dyn_cast<FunctionDecl>(DC)) {
                parts.push_back(FD->getNameAsString());
            }
            DC = DC->getParent();
        }
        std::string s;
        for (auto it = parts.rbegin(); it != parts.rend(); ++it) {
            if (!s.empty()) s += "::";
            s += *it;
        }
        return s;
    }
    std::string tnameOf(const NamedDecl *D) {
        std::string ctx = tname(D->getDeclContext());
        std::string n = D->getNameAsString();
        if (auto *RD = dyn_cast<CXXRecordDecl>(D))
            if (RD->isLambda()) n = "(lambda)";
        return ctx.empty() ? n : ctx + "::" + n;
    }
    std::string typeStr(QualType T) { return T.getAsString(Pol); }
    std::string canonStr(QualType T) { return T.getCanonicalType().getAsString(Pol); }

    std::string templateArgsOfRecord(const CXXRecordDecl *RD) {
        if (auto *S = dyn_cast_or_null<ClassTemplateSpecializationDecl>(RD)) {
            std::string s;
            llvm::raw_string_ostream os(s);
            auto &args = S->getTemplateArgs();
            for (unsigned i = 0; i < args.size(); ++i) {
                if (i) os << ", ";
                args[i].print(Pol, os, true);
            }
            return os.str();
        }
        return "";
    }

    // -- declarations table
    int declId(const Decl *D) {
        if (!D) return -1;
        const Decl *K = D;
        auto it = declIds.find(K);
        if (it != declIds.end()) return it->second;
        int id = declJson.size();
        declIds[K] = id;
        declJson.push_back("");
        Obj o;
        o.num("id", id);
        o.str("dk", D->getDeclKindName());
        if (auto *ND = dyn_cast<NamedDecl>(D)) {
            o.str("name", ND->getNameAsString());
            o.str("tname", tnameOf(ND));
            o.str("qname", ND->getQualifiedNameAsString());
        }
        o.raw("loc", locJson(D->getLocation()));
        o.boolean("inroots", declUnderRoots(D));
        if (auto *VD = dyn_cast<ValueDecl>(D)) {
            o.str("type", typeStr(VD->getType()));
            o.str("ctype", canonStr(VD->getType()));
        }
        if (auto *FD = dyn_cast<FieldDecl>(D)) {
            o.str("record", tnameOf(FD->getParent()));
            o.boolean("mutable", FD->isMutable());
        }
        if (auto *V = dyn_cast<VarDecl>(D)) {
            o.boolean("local", V->isLocalVarDeclOrParm());
            o.boolean("staticlocal", V->isStaticLocal());
            o.boolean("global", V->hasGlobalStorage());
            if (auto *P = dyn_cast<ParmVarDecl>(V)) {
                o.num("pindex", P->getFunctionScopeIndex());
            }
            o.boolean("constq", V->getType().isConstQualified());
            o.boolean("isref", V->getType()->isReferenceType());
        }
        if (auto *F = dyn_cast<FunctionDecl>(D)) {
            o.str("rtype", typeStr(F->getReturnType()));
            o.str("crtype", canonStr(F->getReturnType()));
            std::vector<std::string> ps, cps, pns;
            for (auto *P : F->parameters()) {
                ps.push_back(jstr(typeStr(P->getType())));
                cps.push_back(jstr(canonStr(P->getType())));
                pns.push_back(jstr(P->getNameAsString()));
            }
            o.raw("ptypes", jarr(ps));
            o.raw("cptypes", jarr(cps));
            o.raw("pnames", jarr(pns));
            o.boolean("hasbody", F->hasBody());
            if (auto *TA = F->getTemplateSpecializationArgs()) {
                std::string ts;
                llvm::raw_string_ostream os(ts);
                for (unsigned i = 0; i < TA->size(); ++i) {
                    if (i) os << ", ";
                    TA->get(i).print(Pol, os, true);
                }
                o.str("targs", os.str());
            }
            if (auto *M = dyn_cast<CXXMethodDecl>(F)) {
                o.str("record", tnameOf(M->getParent()));
                o.str("recordargs", templateArgsOfRecord(M->getParent()));
                o.boolean("const", M->isConst());
                o.boolean("static", M->isStatic());
                o.str("access", accessStr(M->getAccess()));
                o.boolean("lambda", M->getParent()->isLambda());
            }
            if (isa<CXXConstructorDecl>(F)) o.boolean("ctor", true);
            if (auto *CC = dyn_cast<CXXConstructorDecl>(F)) {
                if (CC->isCopyConstructor()) o.str("special", "copy-ctor");
                else if (CC->isMoveConstructor()) o.str("special", "move-ctor");
            }
            if (auto *MM = dyn_cast<CXXMethodDecl>(F)) {
                if (MM->isCopyAssignmentOperator()) o.str("special", "copy-assign");
                else if (MM->isMoveAssignmentOperator()) o.str("special", "move-assign");
                if (MM->isDefaulted() || MM->isDeleted()) o.boolean("defaulted", true);
            }
            if (auto *FPT = F->getType()->getAs<FunctionProtoType>()) {
                // a non-throwing exception specification written by the author (or implied for a destructor)
                if (!isUnresolvedExceptionSpec(FPT->getExceptionSpecType()) && FPT->isNothrow())
                    o.boolean("nothrow", true);
                if (FPT->getExceptionSpecType() == EST_BasicNoexcept || FPT->getExceptionSpecType() == EST_NoexceptTrue ||
                    FPT->getExceptionSpecType() == EST_DynamicNone)
                    o.boolean("nothrow_written", true);
            }
            if (F->isOverloadedOperator()) o.str("op", getOperatorSpelling(F->getOverloadedOperator()));
            // definition id (the decl that carries the body, if any)
            const FunctionDecl *Def = nullptr;
            if (F->hasBody(Def) && Def) {
                // avoid recursion trouble: only the pointer-stable id
                if (Def != F) o.num("def", declId(Def));
            }
        }
        declJson[id] = o.done();
        return id;
    }
    static std::string accessStr(AccessSpecifier A) {
        switch (A) {
        case AS_public: return "public";
        case AS_protected: return "protected";
        case AS_private: return "private";
        default: return "none";
        }
    }

    // -- statement tree
    struct FnCtx {
        std::map<const Stmt *, int> ids;
        std::vector<std::string> nodes;
    };

    static bool dropsConst(QualType From, QualType To) {
        From = From.getCanonicalType();
        To = To.getCanonicalType();
        QualType fp, tp;
        if (From->isPointerType() && To->isPointerType()) {
            fp = From->getPointeeType();
            tp = To->getPointeeType();
        } else if (To->isReferenceType()) {
            tp = To->getPointeeType();
            fp = From->isReferenceType() ? From->getPointeeType() : From;
        } else
            return false;
        return fp.isConstQualified() && !tp.isConstQualified();
    }

    int node(FnCtx &F, const Stmt *S) {
        if (!S) return -1;
        auto it = F.ids.find(S);
        if (it != F.ids.end()) return it->second;
        int id = F.nodes.size();
        F.ids[S] = id;
        F.nodes.push_back("");
        Obj o;
        o.num("i", id);
        o.str("k", S->getStmtClassName());
        o.raw("l", locJson(S->getBeginLoc()));
        std::vector<long long> kids;
        bool kidsDone = false;
        if (auto *E = dyn_cast<Expr>(S)) {
            o.str("t", canonStr(E->getType()));
            if (E->isLValue()) o.boolean("lv", true);
        }
        if (auto *DR = dyn_cast<DeclRefExpr>(S)) {
            o.num("d", declId(DR->getDecl()));
        } else if (auto *ME = dyn_cast<MemberExpr>(S)) {
            o.num("d", declId(ME->getMemberDecl()));
            o.boolean("arrow", ME->isArrow());
        } else if (auto *BO = dyn_cast<BinaryOperator>(S)) {
            o.str("op", BO->getOpcodeStr().str());
        } else if (auto *UO = dyn_cast<UnaryOperator>(S)) {
            o.str("op", UnaryOperator::getOpcodeStr(UO->getOpcode()).str());
            o.boolean("postfix", UO->isPostfix());
        } else if (auto *IL = dyn_cast<IntegerLiteral>(S)) {
            o.str("v", llvm::toString(IL->getValue(), 10, false));
        } else if (auto *BL = dyn_cast<CXXBoolLiteralExpr>(S)) {
            o.str("v", BL->getValue() ? "true" : "false");
        } else if (auto *FL = dyn_cast<FloatingLiteral>(S)) {
            o.str("v", std::to_string(FL->getValueAsApproximateDouble()));
        } else if (auto *SL = dyn_cast<clang::StringLiteral>(S)) {
            if (SL->isAscii()) o.str("v", SL->getString().str());
        } else if (auto *CL = dyn_cast<CharacterLiteral>(S)) {
            o.num("v", CL->getValue());
        } else if (auto *CE = dyn_cast<CastExpr>(S)) {
            o.str("ck", CE->getCastKindName());
            if (auto *EC = dyn_cast<ExplicitCastExpr>(CE)) {
                o.str("towritten", typeStr(EC->getTypeAsWritten()));
                o.boolean("dropsconst", dropsConst(EC->getSubExpr()->getType(), EC->getTypeAsWritten()));
            }
        } else if (auto *TE = dyn_cast<CXXThrowExpr>(S)) {
            if (TE->getSubExpr()) {
                QualType T = TE->getSubExpr()->getType();
                o.str("thrown", canonStr(T));
                std::vector<std::string> bases;
                if (auto *RD = T->getAsCXXRecordDecl()) {
                    std::vector<const CXXRecordDecl *> work{RD};
                    std::set<const CXXRecordDecl *> seen;
                    while (!work.empty()) {
                        auto *R = work.back();
                        work.pop_back();
                        if (!R->hasDefinition() || !seen.insert(R).second) continue;
                        bases.push_back(jstr(R->getQualifiedNameAsString()));
                        // only publicly inherited bases: a handler for a base class matches through an accessible
                        // (public) unambiguous base only
                        for (auto &B : R->bases())
                            if (B.getAccessSpecifier() == AS_public)
                                if (auto *BR = B.getType()->getAsCXXRecordDecl()) work.push_back(BR);
                    }
                }
                o.raw("thrownbases", jarr(bases));
            } else
                o.boolean("rethrow", true);
        } else if (auto *DS = dyn_cast<DeclStmt>(S)) {
            std::vector<long long> ds;
            for (auto *D : DS->decls()) {
                ds.push_back(declId(D));
                if (auto *VD = dyn_cast<VarDecl>(D)) {
                    if (VD->hasInit()) kids.push_back(node(F, VD->getInit()));
                    else kids.push_back(-1);
                }
            }
            o.raw("decls", jints(ds));
            kidsDone = true;
        } else if (auto *FR = dyn_cast<CXXForRangeStmt>(S)) {
            o.num("loopvar", declId(FR->getLoopVariable()));
            o.num("rangeinit", node(F, FR->getRangeInit()));
            o.num("body", node(F, FR->getBody()));
            o.num("rangestmt", node(F, FR->getRangeStmt()));
            o.num("beginstmt", node(F, FR->getBeginStmt()));
            o.num("endstmt", node(F, FR->getEndStmt()));
            o.num("cond", node(F, FR->getCond()));
            o.num("inc", node(F, FR->getInc()));
            o.num("loopvarstmt", node(F, FR->getLoopVarStmt()));
        } else if (auto *LE = dyn_cast<LambdaExpr>(S)) {
            const CXXMethodDecl *Op = LE->getCallOperator();
            o.num("callop", declId(Op));
            pendingLambdas.push_back(Op);
            std::vector<std::string> caps;
            for (auto &C : LE->captures()) {
                Obj c;
                if (C.capturesVariable()) c.num("d", declId(C.getCapturedVar()));
                c.boolean("byref", C.getCaptureKind() == LCK_ByRef);
                c.boolean("this", C.capturesThis());
                caps.push_back(c.done());
            }
            o.raw("captures", jarr(caps));
            // children: capture initialisers only (body belongs to the call operator)
            for (auto *I : LE->capture_inits()) kids.push_back(node(F, I));
            kidsDone = true;
        } else if (auto *DA = dyn_cast<CXXDefaultArgExpr>(S)) {
            kids.push_back(node(F, DA->getExpr()));
            o.boolean("defaultarg", true);
            kidsDone = true;
        } else if (auto *DI = dyn_cast<CXXDefaultInitExpr>(S)) {
            kids.push_back(node(F, DI->getExpr()));
            kidsDone = true;
        } else if (auto *IS = dyn_cast<IfStmt>(S)) {
            o.num("cond", node(F, IS->getCond()));
            o.num("then", node(F, IS->getThen()));
            o.num("else", node(F, IS->getElse()));
        } else if (auto *WS = dyn_cast<WhileStmt>(S)) {
            o.num("cond", node(F, WS->getCond()));
            o.num("body", node(F, WS->getBody()));
        } else if (auto *DoS = dyn_cast<DoStmt>(S)) {
            o.num("cond", node(F, DoS->getCond()));
            o.num("body", node(F, DoS->getBody()));
        } else if (auto *FS = dyn_cast<ForStmt>(S)) {
            o.num("init", node(F, FS->getInit()));
            o.num("cond", node(F, FS->getCond()));
            o.num("inc", node(F, FS->getInc()));
            o.num("body", node(F, FS->getBody()));
        } else if (auto *CO = dyn_cast<ConditionalOperator>(S)) {
            o.num("cond", node(F, CO->getCond()));
            o.num("then", node(F, CO->getTrueExpr()));
            o.num("else", node(F, CO->getFalseExpr()));
        } else if (auto *TS = dyn_cast<CXXTryStmt>(S)) {
            o.num("try", node(F, TS->getTryBlock()));
            std::vector<long long> hs;
            for (unsigned i = 0; i < TS->getNumHandlers(); ++i) hs.push_back(node(F, TS->getHandler(i)));
            o.raw("handlers", jints(hs));
        } else if (auto *CS = dyn_cast<CXXCatchStmt>(S)) {
            if (CS->getExceptionDecl()) {
                o.num("exdecl", declId(CS->getExceptionDecl()));
                o.str("caught", canonStr(CS->getCaughtType()));
            }
        } else if (auto *IL2 = dyn_cast<InitListExpr>(S)) {
            (void)IL2;
        } else if (auto *SO = dyn_cast<UnaryExprOrTypeTraitExpr>(S)) {
            if (SO->getKind() == UETT_SizeOf) {
                o.str("op", "sizeof");
                QualType T = SO->isArgumentType() ? SO->getArgumentType() : SO->getArgumentExpr()->getType();
                o.str("argtype", canonStr(T));
                if (!T->isDependentType() && !T->isIncompleteType())
                    o.num("v", Ctx.getTypeSizeInChars(T).getQuantity());
            }
        }
        // calls
        const FunctionDecl *Callee = nullptr;
        if (auto *CE = dyn_cast<CallExpr>(S)) {
            Callee = CE->getDirectCallee();
            if (auto *MC = dyn_cast<CXXMemberCallExpr>(S)) {
                o.num("obj", node(F, MC->getImplicitObjectArgument()));
            }
            std::vector<long long> as;
            for (auto *A : CE->arguments()) as.push_back(node(F, A));
            o.raw("args", jints(as));
            o.num("calleeexpr", node(F, CE->getCallee()));
        } else if (auto *CC = dyn_cast<CXXConstructExpr>(S)) {
            Callee = CC->getConstructor();
            std::vector<long long> as;
            for (auto *A : CC->arguments()) as.push_back(node(F, A));
            o.raw("args", jints(as));
            o.boolean("listinit", CC->isListInitialization());
            o.boolean("elidable", CC->isElidable());
        }
        if (Callee) {
            o.num("callee", declId(Callee));
        }
        if (!kidsDone)
            for (const Stmt *C : S->children()) kids.push_back(node(F, C));
        o.raw("c", jints(kids));
        F.nodes[id] = o.done();
        return id;
    }

    // -- functions
    void emitFunction(const FunctionDecl *FD) {
        if (!FD || !FD->doesThisDeclarationHaveABody()) return;
        if (FD->isDependentContext()) return;
        if (!emitted.insert(FD).second) return;
        if (!declUnderRoots(FD)) return;
        const Stmt *Body = FD->getBody();
        if (!Body) return;

        FnCtx F;
        Obj o;
        o.num("decl", declId(FD));
        o.str("name", FD->getNameAsString());
        o.str("tname", tnameOf(FD));
        o.str("qname", FD->getQualifiedNameAsString());
        o.raw("loc", locJson(FD->getLocation()));
        // template arguments of the function itself
        if (auto *TA = FD->getTemplateSpecializationArgs()) {
            std::string s;
            llvm::raw_string_ostream os(s);
            for (unsigned i = 0; i < TA->size(); ++i) {
                if (i) os << ", ";
                TA->get(i).print(Pol, os, true);
            }
            o.str("targs", os.str());
        }
        o.boolean("templ", FD->isTemplateInstantiation() || FD->getDescribedFunctionTemplate() != nullptr ||
                               FD->getTemplateSpecializationKind() != TSK_Undeclared);
        o.boolean("inlinespec", FD->isInlineSpecified());
        o.boolean("inlined", FD->isInlined());
        o.boolean("constexpr", FD->isConstexpr());
        o.boolean("externc", FD->isExternC());
        o.boolean("external", FD->isExternallyVisible());
        o.boolean("nsscope", !isa<CXXMethodDecl>(FD));
        std::vector<long long> params;
        for (auto *P : FD->parameters()) params.push_back(declId(P));
        o.raw("params", jints(params));
        if (auto *M = dyn_cast<CXXMethodDecl>(FD)) {
            const CXXRecordDecl *RD = M->getParent();
            o.str("record", tnameOf(RD));
            o.str("recordq", RD->getQualifiedNameAsString());
            o.str("recordargs", templateArgsOfRecord(RD));
            o.boolean("const", M->isConst());
            o.boolean("static", M->isStatic());
            o.str("access", accessStr(M->getAccess()));
            o.boolean("lambda", RD->isLambda());
            if (RD->isLambda()) {
                // enclosing function of the lambda
                const DeclContext *DC = RD->getDeclContext();
                while (DC && !isa<FunctionDecl>(DC)) DC = DC->getParent();
                if (DC) o.num("enclosing", declId(cast<FunctionDecl>(DC)));
            }
        }
        if (auto *C = dyn_cast<CXXConstructorDecl>(FD)) {
            o.boolean("ctor", true);
            std::vector<std::string> inits;
            for (auto *I : C->inits()) {
                Obj io;
                if (I->isAnyMemberInitializer()) io.num("field", declId(I->getAnyMember()));
                if (I->isBaseInitializer()) io.str("base", canonStr(QualType(I->getBaseClass(), 0)));
                if (I->isDelegatingInitializer()) io.boolean("delegating", true);
                io.boolean("written", I->isWritten());
                io.num("init", node(F, I->getInit()));
                inits.push_back(io.done());
            }
            o.raw("inits", jarr(inits));
        }
        int bodyId = node(F, Body);
        o.num("body", bodyId);

        // CFG
        CFG::BuildOptions BO;
        BO.setAllAlwaysAdd();
        BO.AddEHEdges = false;
        BO.AddImplicitDtors = false;
        BO.AddTemporaryDtors = false;
        BO.AddInitializers = true;
        BO.AddCXXDefaultInitExprInCtors = false;
        BO.PruneTriviallyFalseEdges = false;
        std::unique_ptr<CFG> G = CFG::buildCFG(FD, const_cast<Stmt *>(Body), &Ctx, BO);
        if (G) {
            std::vector<std::string> blocks;
            for (const CFGBlock *B : *G) {
                Obj b;
                b.num("id", B->getBlockID());
                std::vector<long long> els;
                for (const CFGElement &E : *B) {
                    if (auto SE = E.getAs<CFGStmt>()) {
                        els.push_back(node(F, SE->getStmt()));
                    } else if (auto IE = E.getAs<CFGInitializer>()) {
                        const CXXCtorInitializer *I = IE->getInitializer();
                        // encoded as negative marker: -(100+index) unused; use init expr id
                        els.push_back(node(F, I->getInit()));
                    }
                }
                b.raw("e", jints(els));
                if (const Stmt *T = B->getTerminatorStmt()) {
                    b.num("term", node(F, T));
                    b.num("cond", node(F, B->getTerminatorCondition(false)));
                    b.num("condstripped", node(F, B->getTerminatorCondition(true)));
                }
                if (const Stmt *L = B->getLoopTarget()) b.num("looptarget", node(F, L));
                std::vector<long long> succ, usucc;
                for (auto I = B->succ_begin(); I != B->succ_end(); ++I) {
                    const CFGBlock *R = I->getReachableBlock();
                    const CFGBlock *U = I->getPossiblyUnreachableBlock();
                    succ.push_back(R ? (long long)R->getBlockID() : (U ? (long long)U->getBlockID() : -1));
                    usucc.push_back(R ? 0 : 1);
                }
                b.raw("s", jints(succ));
                b.raw("su", jints(usucc));
                blocks.push_back(b.done());
            }
            o.raw("blocks", jarr(blocks));
            o.num("entry", G->getEntry().getBlockID());
            o.num("exit", G->getExit().getBlockID());
        } else {
            o.boolean("nocfg", true);
        }
        o.raw("nodes", jarr(F.nodes));
        funcJson.push_back(o.done());
    }

    void drainLambdas() {
        while (!pendingLambdas.empty()) {
            const FunctionDecl *L = pendingLambdas.back();
            pendingLambdas.pop_back();
            emitFunction(L);
        }
    }

    // -- records
    void emitRecord(const CXXRecordDecl *RD) {
        if (!RD || !RD->isCompleteDefinition()) return;
        if (RD->isDependentContext()) {
            // still interesting for declaration-level rules (pattern of a template)
        }
        if (!recordsDone.insert(RD).second) return;
        if (!declUnderRoots(RD)) return;
        Obj o;
        o.str("tname", tnameOf(RD));
        o.str("qname", RD->getQualifiedNameAsString());
        o.str("args", templateArgsOfRecord(RD));
        o.boolean("dependent", RD->isDependentContext());
        o.boolean("lambda", RD->isLambda());
        o.boolean("union", RD->isUnion());
        o.raw("loc", locJson(RD->getLocation()));
        std::vector<std::string> bases;
        for (auto &B : RD->bases()) {
            Obj b;
            b.str("type", canonStr(B.getType()));
            b.str("written", typeStr(B.getType()));
            b.str("access", accessStr(B.getAccessSpecifier()));
            if (auto *BR = B.getType()->getAsCXXRecordDecl()) b.str("tname", tnameOf(BR));
            bases.push_back(b.done());
        }
        o.raw("bases", jarr(bases));
        std::vector<std::string> fields;
        for (auto *F : RD->fields()) {
            Obj f;
            f.num("d", declId(F));
            f.str("name", F->getNameAsString());
            f.str("type", typeStr(F->getType()));
            f.str("ctype", canonStr(F->getType()));
            f.boolean("mutable", F->isMutable());
            f.str("access", accessStr(F->getAccess()));
            QualType T = F->getType();
            f.boolean("isptr", T->isPointerType() || T->isMemberPointerType());
            f.boolean("isref", T->isReferenceType());
            if (T->isPointerType() || T->isReferenceType())
                f.boolean("pointeeconst", T->getPointeeType().isConstQualified());
            f.boolean("constq", T.isConstQualified());
            f.raw("loc", locJson(F->getLocation()));
            fields.push_back(f.done());
        }
        o.raw("fields", jarr(fields));
        std::vector<std::string> methods, usings, friends, statics;
        for (auto *D : RD->decls()) {
            if (auto *M = dyn_cast<CXXMethodDecl>(D)) {
                if (M->isImplicit()) continue;
                Obj m;
                m.num("d", declId(M));
                m.str("name", M->getNameAsString());
                m.str("access", accessStr(M->getAccess()));
                m.boolean("const", M->isConst());
                m.boolean("static", M->isStatic());
                m.boolean("virtual", M->isVirtual());
                m.boolean("userprovided", M->isUserProvided());
                std::string kind = "method";
                if (auto *C = dyn_cast<CXXConstructorDecl>(M)) {
                    kind = C->isCopyConstructor() ? "copyctor" : C->isMoveConstructor() ? "movector" : "ctor";
                } else if (isa<CXXDestructorDecl>(M))
                    kind = "dtor";
                else if (M->isCopyAssignmentOperator())
                    kind = "copyassign";
                else if (M->isMoveAssignmentOperator())
                    kind = "moveassign";
                m.str("kind", kind);
                m.str("rtype", typeStr(M->getReturnType()));
                m.str("crtype", canonStr(M->getReturnType()));
                m.raw("loc", locJson(M->getLocation()));
                methods.push_back(m.done());
            } else if (auto *FT = dyn_cast<FunctionTemplateDecl>(D)) {
                Obj m;
                auto *M = dyn_cast<CXXMethodDecl>(FT->getTemplatedDecl());
                m.str("name", FT->getNameAsString());
                m.str("access", accessStr(FT->getAccess()));
                m.boolean("template", true);
                if (M) {
                    m.boolean("const", M->isConst());
                    m.boolean("static", M->isStatic());
                    std::string kind = isa<CXXConstructorDecl>(M) ? "ctor" : "method";
                    m.str("kind", kind);
                    m.str("rtype", typeStr(M->getReturnType()));
                    std::vector<std::string> ps;
                    for (auto *P : M->parameters()) ps.push_back(jstr(typeStr(P->getType())));
                    m.raw("ptypes", jarr(ps));
                }
                m.raw("loc", locJson(FT->getLocation()));
                methods.push_back(m.done());
            } else if (auto *U = dyn_cast<UsingDecl>(D)) {
                Obj u;
                u.str("name", U->getNameAsString());
                u.str("access", accessStr(U->getAccess()));
                u.raw("loc", locJson(U->getLocation()));
                std::vector<std::string> ts;
                for (auto *Sh : U->shadows()) {
                    Obj t;
                    NamedDecl *T = Sh->getTargetDecl();
                    t.str("tname", tnameOf(T));
                    t.str("dk", T->getDeclKindName());
                    const CXXMethodDecl *M = dyn_cast<CXXMethodDecl>(T);
                    if (auto *FT = dyn_cast<FunctionTemplateDecl>(T)) M = dyn_cast<CXXMethodDecl>(FT->getTemplatedDecl());
                    if (M) {
                        t.boolean("const", M->isConst());
                        t.boolean("static", M->isStatic());
                        t.str("rtype", typeStr(M->getReturnType()));
                        t.str("crtype", canonStr(M->getReturnType()));
                    }
                    ts.push_back(t.done());
                }
                u.raw("targets", jarr(ts));
                usings.push_back(u.done());
            } else if (auto *Fr = dyn_cast<FriendDecl>(D)) {
                Obj f;
                if (auto *ND = Fr->getFriendDecl()) {
                    f.str("name", ND->getNameAsString());
                    f.num("d", declId(ND));
                    if (auto *FD = dyn_cast<FunctionDecl>(ND)) {
                        if (FD->doesThisDeclarationHaveABody() && !FD->isDependentContext()) emitFunction(FD);
                    }
                } else if (auto *TS = Fr->getFriendType())
                    f.str("type", typeStr(TS->getType()));
                f.raw("loc", locJson(Fr->getLocation()));
                friends.push_back(f.done());
            } else if (auto *V = dyn_cast<VarDecl>(D)) {
                // static data member
                emitVar(V);
            }
        }
        o.raw("methods", jarr(methods));
        o.raw("usings", jarr(usings));
        o.raw("friends", jarr(friends));
        o.boolean("userdtor", RD->hasUserDeclaredDestructor());
        o.boolean("usercopyctor", RD->hasUserDeclaredCopyConstructor());
        o.boolean("usercopyassign", RD->hasUserDeclaredCopyAssignment());
        o.boolean("usermovector", RD->hasUserDeclaredMoveConstructor());
        o.boolean("usermoveassign", RD->hasUserDeclaredMoveAssignment());
        {
            // special members with a body written by the author (not `= default` / `= delete` on the first declaration)
            std::vector<std::string> provided;
            for (auto *M : RD->methods()) {
                if (!M->isUserProvided()) continue;
                std::string kind;
                if (isa<CXXDestructorDecl>(M)) kind = "dtor";
                else if (auto *C = dyn_cast<CXXConstructorDecl>(M)) {
                    if (C->isCopyConstructor()) kind = "copy-ctor";
                    else if (C->isMoveConstructor()) kind = "move-ctor";
                } else if (M->isCopyAssignmentOperator()) kind = "copy-assign";
                else if (M->isMoveAssignmentOperator()) kind = "move-assign";
                if (!kind.empty()) provided.push_back(jstr(kind));
            }
            o.raw("provided", jarr(provided));
        }
        recordJson.push_back(o.done());
    }

    std::set<const VarDecl *> varsDone;
    void emitVar(const VarDecl *V) {
        if (!V || !varsDone.insert(V->getCanonicalDecl()).second) return;
        if (!declUnderRoots(V)) return;
        if (!V->hasGlobalStorage()) return;
        Obj o;
        o.num("d", declId(V));
        o.str("name", V->getNameAsString());
        o.str("tname", tnameOf(V));
        o.str("type", typeStr(V->getType()));
        o.str("ctype", canonStr(V->getType()));
        o.boolean("constq", V->getType().isConstQualified());
        o.boolean("constexpr", V->isConstexpr());
        o.boolean("staticlocal", V->isStaticLocal());
        o.boolean("staticmember", V->isStaticDataMember());
        o.boolean("threadlocal", V->getTLSKind() != VarDecl::TLS_None);
        o.boolean("inline", V->isInline());
        o.boolean("external", V->isExternallyVisible());
        o.boolean("isptr", V->getType()->isPointerType());
        o.boolean("isref", V->getType()->isReferenceType());
        o.boolean("dependent", V->getDeclContext()->isDependentContext());
        o.raw("loc", locJson(V->getLocation()));
        // initialiser that is (a conversion of) a direct call: name of the callee
        if (const Expr *I = V->getAnyInitializer()) {
            const Expr *E = I->IgnoreParenImpCasts();
            if (auto *EWC = dyn_cast<ExprWithCleanups>(E)) E = EWC->getSubExpr()->IgnoreParenImpCasts();
            if (auto *CE = dyn_cast<CallExpr>(E))
                if (const FunctionDecl *Callee = CE->getDirectCallee()) o.str("initcallee", tnameOf(Callee));
        }
        varJson.push_back(o.done());
    }

    // -- headers
    std::string headersJson() {
        std::vector<std::string> hs;
        HeaderSearch &HS = PP.getHeaderSearchInfo();
        for (auto it = SM.fileinfo_begin(); it != SM.fileinfo_end(); ++it) {
            const FileEntry *FE = it->first;
            if (!FE) continue;
            std::string name = FE->tryGetRealPathName().str();
            if (name.empty()) name = FE->getName().str();
            bool in = false;
            for (auto &r : gRoots)
                if (name.compare(0, r.size(), r) == 0) in = true;
            if (!in) continue;
            Obj h;
            h.str("file", name);
            h.boolean("guarded", HS.isFileMultipleIncludeGuarded(FE));
            hs.push_back(h.done());
        }
        return jarr(hs);
    }
};

class Visitor : public RecursiveASTVisitor<Visitor> {
  public:
    Extractor &X;
    explicit Visitor(Extractor &X) : X(X) {}
    bool shouldVisitTemplateInstantiations() const { return true; }
    bool shouldVisitImplicitCode() const { return false; }
    bool VisitFunctionDecl(FunctionDecl *FD) {
        if (FD->doesThisDeclarationHaveABody() && !FD->isDependentContext()) {
            X.emitFunction(FD);
            X.drainLambdas();
        }
        // declaration-level view of *every* namespace-scope function definition
        return true;
    }
    bool VisitCXXRecordDecl(CXXRecordDecl *RD) {
        if (RD->isCompleteDefinition()) X.emitRecord(RD);
        return true;
    }
    bool VisitVarDecl(VarDecl *V) {
        if (V->hasGlobalStorage()) X.emitVar(V);
        return true;
    }
};

// declaration-level facts for templates that are *patterns* (dependent): namespace-scope
// function definitions, for D-ODR; static locals inside patterns, for D-PURE.
class PatternVisitor : public RecursiveASTVisitor<PatternVisitor> {
  public:
    Extractor &X;
    std::vector<std::string> fns;
    std::vector<std::string> casts;
    explicit PatternVisitor(Extractor &X) : X(X) {}
    bool shouldVisitTemplateInstantiations() const { return false; }
    bool VisitFunctionDecl(FunctionDecl *FD) {
        if (!FD->doesThisDeclarationHaveABody()) return true;
        if (!X.declUnderRoots(FD)) return true;
        Obj o;
        o.str("name", FD->getNameAsString());
        o.str("tname", X.tnameOf(FD));
        o.raw("loc", X.locJson(FD->getLocation()));
        if (FD->getBody()) o.raw("bodyloc", X.locJson(FD->getBody()->getBeginLoc()));
        o.boolean("implicit", FD->isImplicit());
        o.boolean("deleted", FD->isDeleted());
        o.boolean("defaulted", FD->isDefaulted());
        o.boolean("lambda", isa<CXXMethodDecl>(FD) && cast<CXXMethodDecl>(FD)->getParent()->isLambda());
        if (auto *M0 = dyn_cast<CXXMethodDecl>(FD)) {
            o.str("access", Extractor::accessStr(M0->getAccess()));
            o.str("record", X.tnameOf(M0->getParent()));
            o.boolean("const", M0->isConst());
        }
        o.boolean("method", isa<CXXMethodDecl>(FD));
        {
            // default arguments, as written, of this definition and of its earlier declarations
            std::vector<std::string> defs;
            for (unsigned pi = 0; pi < FD->getNumParams(); ++pi) {
                std::string txt;
                for (const FunctionDecl *R = FD; R; R = R->getPreviousDecl()) {
                    if (pi >= R->getNumParams()) break;
                    const ParmVarDecl *P = R->getParamDecl(pi);
                    if (P->hasDefaultArg() || P->hasUninstantiatedDefaultArg() || P->hasUnparsedDefaultArg()) {
                        SourceRange SR = P->getDefaultArgRange();
                        if (SR.isValid())
                            txt = Lexer::getSourceText(CharSourceRange::getTokenRange(SR), X.SM, X.Ctx.getLangOpts()).str();
                        if (!txt.empty()) break;
                    }
                }
                defs.push_back(jstr(txt));
            }
            o.raw("defaults", jarr(defs));
            if (FunctionTemplateDecl *FT = FD->getDescribedFunctionTemplate()) {
                // declarations of the template carry the defaults
                std::vector<std::string> defs2;
                for (unsigned pi = 0; pi < FD->getNumParams(); ++pi) {
                    std::string txt;
                    for (const FunctionTemplateDecl *R = FT; R; R = R->getPreviousDecl()) {
                        const FunctionDecl *RF = R->getTemplatedDecl();
                        if (pi >= RF->getNumParams()) break;
                        const ParmVarDecl *P = RF->getParamDecl(pi);
                        if (P->hasDefaultArg() || P->hasUninstantiatedDefaultArg() || P->hasUnparsedDefaultArg()) {
                            SourceRange SR = P->getDefaultArgRange();
                            if (SR.isValid())
                                txt = Lexer::getSourceText(CharSourceRange::getTokenRange(SR), X.SM, X.Ctx.getLangOpts()).str();
                            if (!txt.empty()) break;
                        }
                    }
                    defs2.push_back(jstr(txt));
                }
                o.raw("tdefaults", jarr(defs2));
            }
        }
        bool inClass = false;
        if (auto *M = dyn_cast<CXXMethodDecl>(FD)) {
            inClass = M->getLexicalDeclContext()->isRecord();
            o.boolean("classtemplate", M->getParent()->isDependentContext() ||
                                           isa<ClassTemplateSpecializationDecl>(M->getParent()));
        }
        o.boolean("inclass", inClass);
        o.boolean("friendinline", FD->getFriendObjectKind() != Decl::FOK_None);
        o.boolean("templ", FD->getDescribedFunctionTemplate() != nullptr ||
                               FD->getTemplateSpecializationKind() != TSK_Undeclared ||
                               FD->isDependentContext());
        o.boolean("inlinespec", FD->isInlineSpecified());
        o.boolean("inlined", FD->isInlined());
        o.boolean("constexpr", FD->isConstexpr());
        o.boolean("static", FD->getStorageClass() == SC_Static);
        o.boolean("anonns", FD->isInAnonymousNamespace());
        o.boolean("dependent", FD->isDependentContext());
        fns.push_back(o.done());
        return true;
    }
    bool VisitVarDecl(VarDecl *V) {
        if (V->hasGlobalStorage()) X.emitVar(V);
        return true;
    }
    bool VisitCXXRecordDecl(CXXRecordDecl *RD) {
        if (RD->isCompleteDefinition()) X.emitRecord(RD);
        return true;
    }
    bool VisitExplicitCastExpr(ExplicitCastExpr *E) {
        if (!X.underRoots(X.fileOf(E->getBeginLoc()))) return true;
        QualType To = E->getTypeAsWritten();
        QualType From = E->getSubExpr()->getType();
        Obj o;
        o.str("k", E->getStmtClassName());
        o.str("to", X.typeStr(To));
        o.str("from", X.typeStr(From));
        o.raw("loc", X.locJson(E->getBeginLoc()));
        bool dep = To->isDependentType() || From->isDependentType();
        o.boolean("dependent", dep);
        o.boolean("dropsconst", !dep && Extractor::dropsConst(From, To));
        o.boolean("constcast", isa<CXXConstCastExpr>(E));
        casts.push_back(o.done());
        return true;
    }
};

class Consumer : public ASTConsumer {
    CompilerInstance &CI;

  public:
    explicit Consumer(CompilerInstance &CI) : CI(CI) {}
    void HandleTranslationUnit(ASTContext &Ctx) override {
        if (CI.getDiagnostics().hasErrorOccurred()) {
            llvm::errs() << "bgx: translation unit has errors; no facts written\n";
            return;
        }
        Extractor X(Ctx, CI.getPreprocessor());
        Visitor V(X);
        V.TraverseDecl(Ctx.getTranslationUnitDecl());
        X.drainLambdas();
        PatternVisitor PV(X);
        PV.TraverseDecl(Ctx.getTranslationUnitDecl());
        std::ofstream out(gOut);
        out << "{\"version\":1,";
        out << "\"functions\":" << jarr(X.funcJson) << ",";
        out << "\"records\":" << jarr(X.recordJson) << ",";
        out << "\"vars\":" << jarr(X.varJson) << ",";
        out << "\"patternfns\":" << jarr(PV.fns) << ",";
        out << "\"casts\":" << jarr(PV.casts) << ",";
        out << "\"headers\":" << X.headersJson() << ",";
        std::vector<std::string> fs;
        for (auto &f : X.files) fs.push_back(jstr(f));
        out << "\"files\":" << jarr(fs) << ",";
        out << "\"decls\":" << jarr(X.declJson);
        out << "}\n";
    }
};

class Action : public ASTFrontendAction {
  public:
    std::unique_ptr<ASTConsumer> CreateASTConsumer(CompilerInstance &CI, StringRef) override {
        return std::make_unique<Consumer>(CI);
    }
};

int main(int argc, const char **argv) {
    std::vector<std::string> sources;
    int i = 1;
    for (; i < argc; ++i) {
        std::string a = argv[i];
        if (a == "--") break;
        if (a.rfind("--out=", 0) == 0) gOut = a.substr(6);
        else if (a.rfind("--roots=", 0) == 0) {
            std::stringstream ss(a.substr(8));
            std::string r;
            while (std::getline(ss, r, ','))
                if (!r.empty()) gRoots.push_back(r);
        } else
            sources.push_back(a);
    }
    if (gOut.empty() || sources.size() != 1 || gRoots.empty()) {
        llvm::errs() << "usage: bgx --out=F --roots=D[,D] tu.cpp -- flags\n";
        return 2;
    }
    std::string err;
    int n = argc - i;
    const char *const *rest = argv + i;
    auto DB = tooling::FixedCompilationDatabase::loadFromCommandLine(n, rest, err);
    if (!DB) {
        std::vector<std::string> none;
        DB.reset(new tooling::FixedCompilationDatabase(".", none));
    }
    tooling::ClangTool Tool(*DB, sources);
    int rc = Tool.run(tooling::newFrontendActionFactory<Action>().get());
    return rc;
}
