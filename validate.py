#!/usr/bin/env python3
"""Validate MANIFEST.json and evidence/*.json against the harness schemas (uses the tooling venv's jsonschema)."""
import glob, json, sys
import jsonschema
ms = json.load(open('/root/.vp/MANIFEST.schema.json'))
es = json.load(open('/root/.vp/EVIDENCE.schema.json'))
jsonschema.validate(json.load(open('/verif/MANIFEST.json')), ms)
n = 0
for f in sorted(glob.glob('/verif/evidence/*.json')):
    jsonschema.validate(json.load(open(f)), es)
    n += 1
print('MANIFEST valid; %d evidence files valid' % n)
