// Tiny positive / negative examples for rules whose expected number of findings on the library is zero.
// They are analysed on every run next to the library (never linked, never part of the library): a rule that
// stops reporting the `bad_*` function or starts reporting the `good_*` one is broken and says so (exit 2).
#include <algorithm>
#include "BaseGraph/directed_graph.hpp"
#include <cstdio>
#include <list>
#include <numeric>
#include <string>
#include <sstream>
#include <vector>

namespace BaseGraph {
namespace fixture {

// F-SORTED ---------------------------------------------------------------------------------------------------
inline bool bad_sorted_search(const std::vector<unsigned> &values, unsigned needle) {
    std::vector<unsigned> seen;
    for (unsigned v : values)
        seen.push_back(v);      // appended in arrival order: not sorted
    return std::binary_search(seen.begin(), seen.end(), needle);
}

inline bool good_sorted_search(const std::vector<unsigned> &values, unsigned needle) {
    std::vector<unsigned> seen;
    for (unsigned v : values)
        seen.push_back(v);
    std::sort(seen.begin(), seen.end());
    return std::binary_search(seen.begin(), seen.end(), needle);
}

// F-SOVF -----------------------------------------------------------------------------------------------------
inline long long bad_signed_arith(unsigned a, unsigned b) {
    return static_cast<int>(a) - static_cast<int>(b);
}

inline long long good_signed_arith(unsigned a, unsigned b) {
    return static_cast<long long>(a) - static_cast<long long>(b);
}

// F-CURSOR ---------------------------------------------------------------------------------------------------
inline unsigned bad_cursor(const std::list<unsigned> &values) {
    unsigned n = 0;
    auto it = values.begin();
    while (it != values.end()) {
        if (*it == 0)
            --it;               // steps back: from begin() this is undefined
        else
            ++it;
        ++n;
    }
    return n;
}

inline unsigned good_cursor(const std::list<unsigned> &values) {
    unsigned n = 0;
    for (auto it = values.begin(); it != values.end(); ++it)
        n += *it;
    return n;
}

// F-VAL.inv -------------------------------------------------------------------------------------------------
inline void bad_invented(const BaseGraph::DirectedGraph &graph, const std::vector<unsigned> &subset) {
    unsigned largest = 0;
    for (unsigned v : subset)
        largest = std::max(largest, v);
    graph.assertVertexInRange(largest);     // checks 0 when the subset is empty
}

inline void good_invented(const BaseGraph::DirectedGraph &graph, const std::vector<unsigned> &subset) {
    for (unsigned v : subset)
        graph.assertVertexInRange(v);
}

// D-NOEXCEPT -----------------------------------------------------------------------------------------------
inline std::string bad_noexcept(const std::string &line) noexcept {
    return line.substr(line.find(' ') + 1);      // substr throws out_of_range: terminate instead of an exception
}

inline std::size_t good_noexcept(const std::string &line) noexcept { return line.size(); }

// F-ACCW ---------------------------------------------------------------------------------------------------
inline std::size_t bad_accwidth(const std::list<unsigned> &values) {
    return std::accumulate(values.begin(), values.end(), 0u,
                           [](std::size_t sum, unsigned v) -> std::size_t { return sum + v; });   // accumulator is unsigned int
}

inline std::size_t good_accwidth(const std::list<unsigned> &values) {
    return std::accumulate(values.begin(), values.end(), std::size_t(0),
                           [](std::size_t sum, unsigned v) -> std::size_t { return sum + v; });
}

// F-RANGE2 --------------------------------------------------------------------------------------------------
inline bool bad_secondrange(const std::list<unsigned> &a, const std::list<unsigned> &b) {
    return std::is_permutation(a.begin(), a.end(), b.begin());
}

inline bool good_secondrange(const std::list<unsigned> &a, const std::list<unsigned> &b) {
    return a.size() == b.size() && std::is_permutation(a.begin(), a.end(), b.begin());
}

// D-SHIFT ---------------------------------------------------------------------------------------------------
inline unsigned long long bad_shiftwidth(unsigned v) {
    unsigned long long mask = 0;
    mask |= 1 << (v % 64);          // shifted as int
    return mask;
}

inline unsigned long long good_shiftwidth(unsigned v) {
    unsigned long long mask = 0;
    mask |= 1ULL << (v % 64);
    return mask;
}

// D-STRPLUS -------------------------------------------------------------------------------------------------
inline std::string bad_strplus(unsigned vertex) {
    return std::string("Vertex index out of range: " + vertex);      // pointer arithmetic on the literal
}

inline std::string good_strplus(unsigned vertex) {
    return "Vertex index out of range: " + std::to_string(vertex);
}

// F-IO.READ (look-ahead) ------------------------------------------------------------------------------------
inline bool bad_lookahead(std::istream &stream) {
    char next;
    return (next = stream.peek()) != EOF;       // 0xFF is taken for the end of the file
}

inline bool good_lookahead(std::istream &stream) {
    int next = stream.peek();
    return next != EOF;
}

} // namespace fixture
} // namespace BaseGraph

void bgcheck_fixture_use() {
    std::vector<unsigned> v{3, 1, 2};
    (void)BaseGraph::fixture::bad_sorted_search(v, 2);
    (void)BaseGraph::fixture::good_sorted_search(v, 2);
    (void)BaseGraph::fixture::bad_signed_arith(1u, 2u);
    (void)BaseGraph::fixture::good_signed_arith(1u, 2u);
    BaseGraph::DirectedGraph dg(3);
    BaseGraph::fixture::bad_invented(dg, v);
    BaseGraph::fixture::good_invented(dg, v);
    std::list<unsigned> l{1, 2};
    (void)BaseGraph::fixture::bad_cursor(l);
    (void)BaseGraph::fixture::good_cursor(l);
    (void)BaseGraph::fixture::bad_noexcept("a b");
    (void)BaseGraph::fixture::good_noexcept("a b");
    (void)BaseGraph::fixture::bad_accwidth(l);
    (void)BaseGraph::fixture::good_accwidth(l);
    (void)BaseGraph::fixture::bad_secondrange(l, l);
    (void)BaseGraph::fixture::good_secondrange(l, l);
    (void)BaseGraph::fixture::bad_shiftwidth(3);
    (void)BaseGraph::fixture::good_shiftwidth(3);
    (void)BaseGraph::fixture::bad_strplus(3);
    (void)BaseGraph::fixture::good_strplus(3);
    std::istringstream in("x");
    (void)BaseGraph::fixture::bad_lookahead(in);
    (void)BaseGraph::fixture::good_lookahead(in);
}
