"""BaseGraph-specific vocabulary resolved from the program itself: graph classes, state roles
(A adjacency, S size, N edge count, L label store, T totals), the range sanitizer, call graph."""
import re
from collections import defaultdict

from .ir import AnalysisBroken

NS = 'BaseGraph::'
LDG = NS + 'LabeledDirectedGraph'
LUG = NS + 'LabeledUndirectedGraph'
DMG = NS + 'DirectedMultigraph'
UMG = NS + 'UndirectedMultigraph'
DWG = NS + 'DirectedWeightedGraph'
UWG = NS + 'UndirectedWeightedGraph'
GRAPH_CLASSES = [LDG, LUG, DMG, UMG, DWG, UWG]
UNDIRECTED_FAMILY = {LUG, UMG, UWG}
DIRECTED_FAMILY = {LDG, DMG, DWG}
TOTAL_CLASSES = {DMG, UMG, DWG, UWG}
BASE_OF = {LUG: LDG, DMG: LDG, DWG: LDG, UMG: LUG, UWG: LUG}
TWINS = [(LDG, LUG), (DMG, UMG), (DWG, UWG)]


def short(t):
    return t.replace(NS, '')


def tkey(f):
    """identity of a function in the scope graph: template-free qualified name + canonical parameter types (so overloads
    and the instantiations for different label types stay apart)"""
    return '%s#%s' % (f.tname, ','.join(f.cptypes))


class Model:
    def __init__(self, program, std=None):
        self.p = program
        self.std = std or program.primary_std()
        # bodies the compiler writes for `= default` special members are not source: nothing in them can be edited
        self.fns = [f for f in program.functions(self.std) if not f.unit.decl(f.decl).get('defaulted')]
        self.by_tname = defaultdict(list)
        for f in self.fns:
            self.by_tname[f.tname].append(f)
        self.roles = {}          # field tname -> role letter
        self.role_field = {}     # role letter -> set of field tnames
        self._resolve_roles()
        self._callees = {}

    # ------------------------------------------------------------------ roles
    def _getter_field(self, tname):
        """The field a trivial getter returns (return <member>;)"""
        out = set()
        for f in self.by_tname.get(tname, []):
            for nid in f.all_nodes_of_kind('ReturnStmt'):
                cs = f.children(nid)
                if not cs:
                    continue
                e = f.strip(cs[0])
                n = f.nodes[e]
                if n['k'] == 'MemberExpr':
                    d = f.unit.decl(n['d'])
                    if d['dk'] == 'Field':
                        out.add(d['tname'])
                elif n['k'] == 'CXXOperatorCallExpr':
                    # adjacencyList[vertex]
                    a = n.get('args', [])
                    if a:
                        b = f.nodes[f.strip(a[0])]
                        if b['k'] == 'MemberExpr':
                            d = f.unit.decl(b['d'])
                            if d['dk'] == 'Field':
                                out.add(d['tname'])
        return out

    def _resolve_roles(self):
        spec = [('S', LDG + '::getSize'), ('N', LDG + '::getEdgeNumber'), ('A', LDG + '::getOutNeighbours'),
                ('T', DMG + '::getTotalEdgeNumber'), ('T', UMG + '::getTotalEdgeNumber'),
                ('T', DWG + '::getTotalWeight'), ('T', UWG + '::getTotalWeight')]
        for role, getter in spec:
            fs = self._getter_field(getter)
            if len(fs) != 1:
                raise AnalysisBroken('anchor vanished: getter %s does not return exactly one field (found %s)'
                                     % (getter, sorted(fs)))
            fld = fs.pop()
            self.roles[fld] = role
            self.role_field.setdefault(role, set()).add(fld)
        # L: the unordered_map field of the storage class keyed by Edge
        cands = set()
        for u in self.p.units:
            if u.std != self.std:
                continue
            for r in u.records:
                if r['tname'] == LDG:
                    for fl in r['fields']:
                        if re.match(r'std::unordered_map<std::pair<(unsigned )?(int|long|long long|short|char), (unsigned )?(int|long|long long|short|char)>', fl['ctype']):
                            cands.add(u.decl(fl['d'])['tname'])
        if len(cands) != 1:
            raise AnalysisBroken('anchor vanished: label store (unordered_map<Edge,...> field of %s) not unique: %s'
                                 % (LDG, sorted(cands)))
        fld = cands.pop()
        self.roles[fld] = 'L'
        self.role_field['L'] = {fld}
        # sanitizer
        self.sanitizer = LDG + '::assertVertexInRange'
        if not self.by_tname.get(self.sanitizer):
            raise AnalysisBroken('anchor vanished: %s' % self.sanitizer)

    def role_of_field(self, tname):
        return self.roles.get(tname)

    # ------------------------------------------------------------------ the canonicaliser of undirected pairs
    def ordered_edge(self):
        """qualified name of the non-public static helper of the undirected storage class that maps two vertices to the
        canonical key (pair of vertices): found by signature, so that a rename is followed"""
        if not hasattr(self, '_ordered_edge'):
            name = LUG + '::orderedEdge'
            for f in self.fns:
                if f.record == LUG and f.is_static and f.access != 'public' and len(f.params) == 2 and \
                        all(c.replace('const ', '').strip() == 'unsigned int' for c in f.cptypes) and \
                        'std::pair<unsigned int, unsigned int>' in self.p_decl(f).get('crtype', ''):
                    name = f.tname
            self._ordered_edge = name
        return self._ordered_edge

    def p_decl(self, f):
        return f.unit.decls[f.decl]

    # ------------------------------------------------------------------ throwing helpers
    def thrower_type(self, g):
        """exception type when g is a function that does nothing but throw (the out-of-line failure path of a check):
        no return statement, no branching, one throw expression as its last statement; else None"""
        if g is None or g.is_lambda:
            return None
        throws = [n for n in g.nodes if n['k'] == 'CXXThrowExpr' and not n.get('rethrow')]
        if len(throws) != 1:
            return None
        if any(n['k'] in ('ReturnStmt', 'IfStmt', 'ForStmt', 'WhileStmt', 'DoStmt', 'CXXForRangeStmt', 'SwitchStmt', 'CXXTryStmt',
                          'ConditionalOperator') for n in g.nodes):
            return None
        return throws[0].get('thrown')

    def throw_sites(self, f):
        """[(node, exception type, bases)] throw expressions of f and calls of pure throwing helpers"""
        out = []
        for n in f.nodes:
            if n['k'] == 'CXXThrowExpr' and not n.get('rethrow'):
                out.append((n['i'], n.get('thrown'), n.get('thrownbases', [])))
            elif n['k'] in ('CallExpr', 'CXXMemberCallExpr') and 'callee' in n:
                g = f.unit.function_for_decl(n['callee'])
                t = self.thrower_type(g) if g is not None and g.tname.startswith(NS) else None
                if t:
                    th = [x for x in g.nodes if x['k'] == 'CXXThrowExpr'][0]
                    out.append((n['i'], t, th.get('thrownbases', [])))
        return out

    # ------------------------------------------------------------------ label helpers, found by what they do
    def label_helpers(self):
        """(setter, getter, undirected setter) qualified names of the non-public helpers of the storage classes:
        setter(Edge key, label): its only state effect is  store[key] = label;
        getter(Edge key, bool): reads the store with the checked accessor on its key;
        undirected setter(i, j, label): forwards to the setter.  Resolved from the bodies, so a rename is followed."""
        if hasattr(self, '_label_helpers'):
            return self._label_helpers
        from .events import events_of
        setter = getter = usetter = None
        for f in self.fns:
            if f.record != LDG or f.access == 'public' or f.is_lambda or f.is_ctor:
                continue
            if f.recordargs == 'BaseGraph::NoLabel' and (setter and getter):
                continue
            ev = events_of(self, f)
            kinds = [e.kind for e in ev.state_writes()]
            if len(f.params) == 2 and kinds == ['L.set'] and not f.is_const:
                e = ev.state_writes()[0]
                if e.args[0] == ('var', f.params[0]) and e.args[1] == ('var', f.params[1]):
                    setter = f.tname
            if len(f.params) == 2 and f.is_const and f.cptypes[1] == 'bool' and not kinds and \
                    any(e.kind == 'L.read' and e.args[0] == ('var', f.params[0]) for e in ev.events):
                getter = f.tname
        setter = setter or LDG + '::_setLabel'
        getter = getter or LDG + '::_getLabel'
        for f in self.fns:
            if f.record != LUG or f.access == 'public' or f.is_lambda or len(f.params) != 3:
                continue
            if any(self.callee_decl(f, n['i'])['tname'] == setter for n in f.nodes if 'callee' in n):
                usetter = f.tname
        usetter = usetter or LUG + '::setLabel'
        self._label_helpers = (setter, getter, usetter)
        return self._label_helpers

    def total_field_of(self, cls):
        for f in self.role_field.get('T', ()):
            if f.startswith(cls + '::'):
                return f
        return None

    # ------------------------------------------------------------------ classes / functions
    def class_of(self, fn):
        """Graph class that defines the function (None for free functions / helpers)."""
        r = fn.record
        if r in GRAPH_CLASSES:
            return r
        return None

    def functions_of_class(self, cls):
        return [f for f in self.fns if f.record == cls]

    def callee_fn(self, fn, nid):
        n = fn.nodes[nid]
        c = n.get('callee')
        if c is None:
            return None
        return fn.unit.function_for_decl(c)

    def callee_decl(self, fn, nid):
        n = fn.nodes[nid]
        c = n.get('callee')
        if c is None:
            return None
        return fn.unit.decl(c)

    def callees(self, fn):
        """[(node id, callee Function)] for calls to functions with bodies under the roots."""
        k = id(fn)
        if k not in self._callees:
            out = []
            for n in fn.nodes:
                if 'callee' in n:
                    g = fn.unit.function_for_decl(n['callee'])
                    if g is not None:
                        out.append((n['i'], g))
                if n['k'] == 'LambdaExpr':
                    g = fn.unit.function_for_decl(n['callop'])
                    if g is not None:
                        out.append((n['i'], g))
            self._callees[k] = out
        return self._callees[k]

    def closure(self, fn, limit=10000):
        seen = {}
        stack = [fn]
        while stack:
            f = stack.pop()
            if id(f) in seen:
                continue
            seen[id(f)] = f
            for _, g in self.callees(f):
                if id(g) not in seen:
                    stack.append(g)
            if len(seen) > limit:
                raise AnalysisBroken('call-graph closure too large')
        return list(seen.values())

    def is_public_entry(self, fn):
        if fn.is_lambda:
            return False
        if fn.record is None:
            if '::detail::' in fn.tname or '::internal::' in fn.tname:
                return False        # implementation namespaces: helpers whose callers carry the obligations
            if not any('BaseGraph::' in c and 'Graph' in c for c in fn.cptypes) and fn.tname.startswith(NS + 'algorithms::'):
                return False        # an algorithm helper without a graph argument has nothing to validate against
            return fn.tname.startswith(NS + 'io::') or fn.tname.startswith(NS + 'algorithms::')
        return fn.record in GRAPH_CLASSES and fn.access == 'public'


    # ------------------------------------------------------------------ scopes (tname-level call graph)
    def tname_graph(self):
        if not hasattr(self, '_tg'):
            g = defaultdict(set)
            for f in self.fns:
                for _, c in self.callees(f):
                    g[tkey(f)].add(tkey(c))
            self._tg = g
        return self._tg

    def class_entry_tnames(self, cls):
        """public members of a class, including members re-exported with using-declarations"""
        out = set()
        for f in self.fns:
            if f.record == cls and f.access == 'public':
                out.add(tkey(f))
            if f.record and (f.record.startswith(cls + '::')):
                out.add(tkey(f))        # nested helper structs (Edges, constEdgeIterator)
        for u in self.p.units:
            if u.std != self.std:
                continue
            for r in u.records:
                if r['tname'] == cls:
                    for us in r['usings']:
                        for t in us['targets']:
                            for f in self.by_tname.get(t['tname'], []):
                                out.add(tkey(f))
        return out

    def tkeys_of(self, tname):
        return {tkey(f) for f in self.by_tname.get(tname, [])}

    def closure_tnames(self, entries):
        """closure over the overload-aware key graph (see tkey)"""
        g = self.tname_graph()
        seen = set()
        stack = list(entries)
        while stack:
            t = stack.pop()
            if t in seen:
                continue
            seen.add(t)
            stack.extend(g.get(t, ()))
        return seen
