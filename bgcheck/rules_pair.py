"""F-PAIR (paired update of adjacency lists, counters, label store, totals, mirror half-edges),
F-KEY (canonical key in the undirected family), F-ORD (order-domain guards), F-POS."""
import itertools
import re

from .events import events_of, summary_of, Ev
from .ir import AnalysisBroken
from .model import (GRAPH_CLASSES, LDG, LUG, DMG, UMG, DWG, UWG, UNDIRECTED_FAMILY, DIRECTED_FAMILY, TOTAL_CLASSES,
                    NS, short)
from .report import Finding, RuleResult
from .rules_val import var_defs, graph_like, _conjuncts, is_size_term
from .terms import Terms, show, subterms

NOLABEL = 'BaseGraph::NoLabel'


# ------------------------------------------------------------------------------------------------
# keys and label reads
class Key:
    """key of the label store: (a, b) raw or canonicalised through orderedEdge"""

    def __init__(self, a, b, ordered):
        self.a, self.b, self.ordered = a, b, ordered

    def __repr__(self):
        return 'Key(%s,%s,%s)' % (self.a, self.b, 'ordered' if self.ordered else 'raw')


class _EvView:
    """events of a function plus the imported events of the open helpers it calls"""

    def __init__(self, base, extra):
        self._base = base
        self.events = sorted(list(base.events) + extra, key=lambda e: e.node)
        self.unknown = base.unknown
        self.tt = base.tt
        self.fn = base.fn

    def role(self, t):
        return self._base.role(t)

    def of_kind(self, *prefixes):
        return [e for e in self.events if any(e.kind == p or e.kind.startswith(p) for p in prefixes)]

    def state_writes(self):
        return [e for e in self.events if e.kind not in ('L.read', 'L.count', 'L.ref')]


OPEN_HELPERS = {}      # id(model) -> {id(fn): fn} helpers whose obligations are discharged by their callers
NO_INLINE = {LDG + '::_setLabel', LUG + '::setLabel'}      # extended with the resolved helper names, see no_inline(m)


def no_inline(m):
    h = m.label_helpers()
    return NO_INLINE | {h[0], h[2]}


def imported_events(m, fn, depth=0):
    """events of open helpers called on this object, with parameters substituted by the call's arguments and located
    at the call (so that they take the control region of the call)"""
    out = []
    if depth > 3:
        return out
    base = events_of(m, fn)
    opens = OPEN_HELPERS.get(id(m), {})
    for nid, g in m.callees(fn):
        n = fn.nodes[nid]
        if id(g) not in opens or g.tname in no_inline(m):
            continue
        if n['k'] == 'CXXMemberCallExpr':
            if base.tt.t(n.get('obj', -1)) != ('this',):
                continue
        elif not (n['k'] == 'CallExpr' and g.record == fn.record and fn.record is not None):
            continue       # (a static member helper of the same class)
        sub = {}
        for ix, pd in enumerate(g.params):
            if ix < len(n.get('args', [])):
                sub[('var', pd)] = base.tt.t(n['args'][ix])
        gev = events_of(m, g)
        inner = list(gev.events) + imported_events(m, g, depth + 1)
        for e in inner:
            cond = bool(g.region(e.node)) or e.extra.get('conditional', False)
            ex = dict(e.extra)
            ex.update(via=g.display(), conditional=cond, inner_node=e.node)
            if 'owner' in ex:
                ex['owner'] = ex['owner']
            args = tuple(subst(a, sub) if isinstance(a, tuple) else a for a in e.args)
            if ex.get('listparam') and args and isinstance(args[0], tuple) and args[0][0] == 'listof':
                lt = base.tt.t_resolved(args[0][1]) if hasattr(base.tt, 't_resolved') else args[0][1]
                if lt[0] == 'idx' and base.role(lt[1]) == 'A':
                    args = (lt[2],) + args[1:]
                    ex['owner'] = lt[1]
                    ex.pop('listparam')
            out.append(Ev(e.kind, nid, args, fn, ex))
    return out


def callee_events(m, fn, nid, depth=0):
    """events of the library function called at node nid of fn (any member of the same object, open helper or not), with the
    parameters replaced by the call's arguments; followed transitively to a small depth"""
    out = []
    n = fn.nodes[nid]
    g = fn.unit.function_for_decl(n['callee']) if 'callee' in n else None
    if g is None or depth > 3 or not g.tname.startswith(NS) or g.is_lambda:
        return out
    base = events_of(m, fn)
    if n['k'] == 'CXXMemberCallExpr' and base.tt.t(n.get('obj', -1)) != ('this',):
        return out
    sub = {}
    for ix, pd in enumerate(g.params):
        if ix < len(n.get('args', [])):
            sub[('var', pd)] = base.tt.t(n['args'][ix])
    gev = events_of(m, g)
    for e in gev.events:
        args = tuple(subst(a, sub) if isinstance(a, tuple) else a for a in e.args)
        out.append(Ev(e.kind, nid, args, fn, dict(e.extra, via=g.display(), inner_node=e.node)))
    for cn in g.nodes:
        if cn['k'] in ('CXXMemberCallExpr', 'CallExpr') and 'callee' in cn:
            for e in callee_events(m, g, cn['i'], depth + 1):
                args = tuple(subst(a, sub) if isinstance(a, tuple) else a for a in e.args)
                out.append(Ev(e.kind, nid, args, fn, dict(e.extra)))
    return out


class Ctx:
    """Per-function context: terms, events, equality facts."""

    def __init__(self, m, fn):
        self.m = m
        self.fn = fn
        base = events_of(m, fn)
        extra = imported_events(m, fn)
        self.ev = _EvView(base, extra) if extra else base
        self.tt = self.ev.tt
        self.cls = fn.record
        self.undirected = self.cls in UNDIRECTED_FAMILY
        self.labelled = not (self.cls in (LDG, LUG) and fn.recordargs == NOLABEL)
        self.has_total = self.cls in TOTAL_CLASSES
        self._eq_cache = {}

    # -- equality facts from dominating branches
    def eq_facts(self, nid):
        f = self.fn
        pos = f.cfg_pos(nid)
        if pos is None:
            return []
        b = pos[0]
        if b in self._eq_cache:
            return self._eq_cache[b]
        facts = []
        for dep in f.dominating_edges(b):
            for t in self.true_terms(dep):
                if t[0] == 'bin' and t[1] == '==':
                    facts.append((t[2], t[3]))
                # j = std::find(X.begin(), X.end(), v) and j != X.end()  =>  *j == v
                if t[0] == 'bin' and t[1] == '!=':
                    for it, other in ((t[2], t[3]), (t[3], t[2])):
                        if it[0] == 'var' and other[0] == 'mcall' and other[1].endswith(('::end', '::cend')):
                            defs = [d for d in var_defs(f, it[1]) if d[1] >= 0]
                            if len(defs) == 1:
                                dt = self.tt.t(defs[0][1])
                                if dt[0] == 'call' and dt[1] == 'std::find' and len(dt[2]) == 3 and \
                                        dt[2][1][0] == 'mcall' and dt[2][1][2] == other[2]:
                                    facts.append((('deref', it), dt[2][2]))
        self._eq_cache[b] = facts
        return facts

    def unconst(self, t, depth=0):
        """replace const locals that have a single definition by their defining term"""
        if depth > 5 or not isinstance(t, tuple):
            return t
        if t[0] == 'var':
            d = self.fn.unit.decl(t[1])
            if d['dk'] == 'Var' and d.get('constq') and not d.get('isref') and \
                    d.get('ctype', '').replace('const ', '') in ('unsigned int', 'bool', 'unsigned long', 'int',
                                                                 'std::pair<unsigned int, unsigned int>', 'char', 'double',
                                                                 'unsigned char', 'long', 'long long', 'unsigned long long') or \
                    (d['dk'] == 'Var' and re.match(r'^const char ?(\[\d*\]|\* ?(const)?)$', d.get('ctype', '')) is not None):
                defs = var_defs(self.fn, t[1])
                if len(defs) == 1 and defs[0][1] >= 0:
                    return self.unconst(strip_cast(self.tt.t(defs[0][1])), depth + 1)
            return t
        out = []
        for x in t:
            if isinstance(x, tuple):
                if x and isinstance(x[0], str):
                    out.append(self.unconst(x, depth + 1))
                else:
                    out.append(tuple(self.unconst(y, depth + 1) if isinstance(y, tuple) else y for y in x))
            else:
                out.append(x)
        return tuple(out)

    def norm(self, t, nid):
        """substitute equal terms: prefer parameters / plain variables over derefs"""
        t = self.unconst(t)
        facts = self.eq_facts(nid)
        if not facts:
            return t
        sub = {}
        for a, b in facts:
            if a[0] == 'deref' and b[0] == 'var':
                sub[a] = b
            elif b[0] == 'deref' and a[0] == 'var':
                sub[b] = a
        if not sub:
            return t
        return subst(t, sub)

    def key_of(self, t, nid=None, depth=0):
        """Key denoted by a term used as the key argument of a label-store primitive."""
        f = self.fn
        if nid is not None:
            t = self.norm(t, nid)
        else:
            t = self.unconst(t)
        if t[0] == 'pair':
            return Key(t[1], t[2], False)
        if t[0] in ('call', 'mcall') and (t[1] == self.m.ordered_edge() or t[1].endswith('::orderedEdge')):
            args = t[-1]
            return Key(args[0], args[1], True)
        if t[0] == 'var' and depth < 3:
            defs = var_defs(f, t[1])
            if len(defs) == 1 and defs[0][1] >= 0:
                return self.key_of(self.tt.t(defs[0][1]), nid, depth + 1)
        if t[0] == 'ctor' and 'std::pair<unsigned int, unsigned int>' in t[1] and len(t[2]) == 1:
            return self.key_of(t[2][0], nid, depth + 1)
        return None

    def label_read(self, t, nid=None):
        """Key whose label a term reads (edgeLabels[k], .at(k), getEdgeLabel(a,b[,f]), ref alias), else None."""
        if nid is not None:
            t = self.norm(t, nid)
        if t[0] == 'cast':
            return self.label_read(t[2])
        if t[0] == 'idx' and self.ev.role(t[1]) == 'L':
            return self.key_of(t[2])
        if t[0] == 'mcall' and t[1] == 'std::unordered_map::at' and self.ev.role(t[2]) == 'L':
            return self.key_of(t[3][0])
        if t[0] == 'mcall' and t[2] == ('this',) and len(t[3]) >= 2:
            name = t[1]
            if name in (LDG + '::getEdgeLabel',):
                return Key(t[3][0], t[3][1], False)
            if name in (LUG + '::getEdgeLabel',):
                return Key(t[3][0], t[3][1], True)
            if name in (DWG + '::getEdgeWeight',):
                return Key(t[3][0], t[3][1], False)
            if name in (UWG + '::getEdgeWeight',):
                return Key(t[3][0], t[3][1], True)
        if t[0] == 'mcall' and t[1] == self.m.label_helpers()[1] and t[2] == ('this',):
            return self.key_of(t[3][0])
        return None

    def same_key(self, k1, k2):
        if k1 is None or k2 is None:
            return False
        if k1.a == k2.a and k1.b == k2.b:
            return True
        if self.undirected and k1.a == k2.b and k1.b == k2.a and (k1.ordered and k2.ordered):
            return True
        return False

    def key_matches_pair(self, k, x, y):
        """key k denotes the pair (x,y) of this class: exact for directed, unordered for undirected"""
        if k is None:
            return False
        if k.a == x and k.b == y:
            return True
        if self.undirected and k.a == y and k.b == x:
            return True
        return False

    def region(self, nid):
        return self.fn.region(nid)

    def region_diff(self, a, b):
        ra, rb = self.region(a), self.region(b)
        return ra - rb, rb - ra

    def dep_term(self, dep):
        a = self.fn.branch_atom(dep[0])
        return self.resolve(self.tt.t(a)) if a is not None else None, dep[1] == 0

    def true_terms(self, dep):
        """atoms that hold on the branch edge `dep` (with single-definition locals resolved)"""
        a = self.fn.branch_atom(dep[0])
        if a is None:
            return []
        return true_atoms(self.resolve(self.tt.t(a)), dep[1] == 0)

    def resolve(self, t, depth=0):
        """replace locals that have exactly one definition by their defining term"""
        if depth > 6 or not isinstance(t, tuple):
            return t
        if t[0] == 'var':
            d = self.fn.unit.decl(t[1])
            if d['dk'] == 'Var' and d.get('ctype') in ('bool', 'const bool'):
                defs = var_defs(self.fn, t[1])
                if len(defs) == 1 and defs[0][1] >= 0:
                    return self.resolve(self.tt.t(defs[0][1]), depth + 1)
            return t
        out = []
        for x in t:
            if isinstance(x, tuple):
                if x and isinstance(x[0], str):
                    out.append(self.resolve(x, depth + 1))
                else:
                    out.append(tuple(self.resolve(y, depth + 1) if isinstance(y, tuple) else y for y in x))
            else:
                out.append(x)
        return tuple(out)

    def desc(self, nid):
        return '%s@%s' % (self.fn.expr_text(nid)[:70], self.fn.nloc(nid).split('/')[-1])


NEG_OP = {'>': '<=', '<': '>=', '>=': '<', '<=': '>', '==': '!=', '!=': '=='}


def strip_conv_t(t):
    while isinstance(t, tuple) and t and t[0] in ('conv', 'cast'):
        t = t[2]
    return t


def pos_atom(t, pol):
    """the term that is TRUE when the branch is taken with polarity pol: comparisons are flipped, not negated"""
    t0 = strip_conv_t(t)
    if pol:
        return t0
    if t0[0] == 'bin' and t0[1] in NEG_OP:
        return ('bin', NEG_OP[t0[1]], t0[2], t0[3])
    if t0[0] == 'un' and t0[1] == '!':
        return strip_conv_t(t0[3])
    return ('un', '!', False, t0)


def true_atoms(t, pol):
    """all atoms known to be true on a branch edge: (A && B) true gives A, B; (A || B) false gives !A, !B"""
    t0 = strip_conv_t(t)
    if t0[0] == 'bin' and t0[1] == '&&' and pol:
        return true_atoms(t0[2], True) + true_atoms(t0[3], True)
    if t0[0] == 'bin' and t0[1] == '||' and not pol:
        return true_atoms(t0[2], False) + true_atoms(t0[3], False)
    if t0[0] == 'un' and t0[1] == '!':
        return true_atoms(t0[3], not pol)
    return [pos_atom(t0, pol)]


def region_atoms(f, tt, nid):
    """every atom that is true whenever control reaches the element (all controlling branch edges, conjunctions split,
    negative edges turned into the positive comparison): the guard-clause and the if/else form give the same atoms"""
    out = []
    for dep in f.region(nid):
        a = f.branch_atom(dep[0])
        if a is None:
            continue
        out.extend(true_atoms(tt.t(a), dep[1] == 0))
    return out


def subst(t, sub):
    if t in sub:
        return sub[t]
    if not isinstance(t, tuple):
        return t
    out = []
    for x in t:
        if isinstance(x, tuple):
            if x and isinstance(x[0], str):
                out.append(subst(x, sub))
            else:
                out.append(tuple(subst(y, sub) if isinstance(y, tuple) else y for y in x))
        else:
            out.append(x)
    return tuple(out)


# ------------------------------------------------------------------------------------------------
# order-domain evaluator
def eval_order(t, env):
    """Evaluate a boolean/conditional term over an environment {term: int} (comparisons between the two
    designated vertex terms) and {('flag', term): bool}. Returns True/False/int or None if unknown."""
    k = t[0]
    if t in env:
        return env[t]
    if k == 'int':
        return t[1]
    if k == 'bool':
        return t[1]
    if k == 'cast':
        return eval_order(t[2], env)
    if k == 'bin':
        op = t[1]
        if op in ('&&', '||'):
            l = eval_order(t[2], env)
            if op == '&&' and l is False:
                return False
            if op == '||' and l is True:
                return True
            r = eval_order(t[3], env)
            if l is None or r is None:
                if op == '&&' and r is False:
                    return False
                if op == '||' and r is True:
                    return True
                return None
            return (l and r) if op == '&&' else (l or r)
        l = eval_order(t[2], env)
        r = eval_order(t[3], env)
        if l is None or r is None:
            return None
        if op == '<':
            return l < r
        if op == '>':
            return l > r
        if op == '<=':
            return l <= r
        if op == '>=':
            return l >= r
        if op == '==':
            return l == r
        if op == '!=':
            return l != r
        if op == '*':
            return l * r
        if op == '+':
            return l + r
        return None
    if k == 'un' and t[1] == '!':
        v = eval_order(t[3], env)
        return None if v is None else (not v)
    if k == 'cond':
        c = eval_order(t[1], env)
        if c is None:
            return None
        return eval_order(t[2] if c else t[3], env)
    if k == 'call' and t[1] in ('std::min', 'std::max') and len(t[2]) == 2:
        a, b = eval_order(t[2][0], env), eval_order(t[2][1], env)
        if a is None or b is None or isinstance(a, bool) or isinstance(b, bool):
            return None
        return min(a, b) if t[1] == 'std::min' else max(a, b)
    if k == 'conv' and len(t) == 3:
        return eval_order(t[2], env)
    return None


ORDERINGS = [(0, 1), (1, 1), (1, 0)]   # a<b, a==b, a>b


def once_per_pair(cond, a, b, polarity=True):
    """cond (with polarity) is true for exactly one of the two orientations of a non-loop pair and
    true for a loop: evaluated for (a,b) and the mirrored visit (b,a)."""
    def val(x, y):
        v = eval_order(cond, {a: x, b: y})
        if v is None:
            return None
        return bool(v) == polarity
    lt, eq, gt = val(0, 1), val(1, 1), val(1, 0)
    if None in (lt, eq, gt):
        return None
    return (lt != gt) and eq


def _named_of(ctx, deps, a, b):
    named = set()
    for dep in deps:
        t, pol = ctx.dep_term(dep)
        if t is None:
            continue
        for st in subterms(t):
            if st[0] == 'var' and st != a and st != b and not (b[0] == 'deref' and st == b[1]) and \
                    ctx.fn.unit.decl(st[1]).get('ctype') in ('unsigned int', 'const unsigned int'):
                named.add(st)
    return named


def half_edge_scenarios(ctx, ev, pair):
    """Concrete scenarios for an undirected pair {p,q} visited as the half-edges (i=p,*j=q) and (i=q,*j=p) in a bulk
    loop whose condition may name a third vertex v: [(is_loop, [env of each half-edge])]; and a function reach(node,
    env) -> True/False/None deciding by a walk of the list-loop body under env whether the node executes for that
    half-edge.  None when the erase is not inside a recognised list loop or two other vertices are named."""
    a, b = pair
    loopnode = _list_loop_of(ctx, ev)
    if loopnode is None:
        return None
    named = _named_of(ctx, list(ctx.region(ev.node)), a, b)
    if len(named) > 1:
        return None
    v = named.pop() if named else None
    out = []
    for (p, q) in ((1, 2), (1, 1)):
        for vv in ((1, 2, 3) if p != q else (1, 3)):
            if v is None and vv != 3:
                continue
            halves = []
            for (x, y) in (((p, q), (q, p)) if p != q else ((p, q),)):
                env = {a: x, b: y}
                if v is not None:
                    env[v] = vv
                halves.append(env)
            out.append((p == q, halves))

    def reach(node, env):
        return PairEngine._eval_cond_paths(None, ctx, node, loopnode, env)
    return out, reach


def once_per_pair_named(ctx, cnode, ev, pair):
    """the companion executes for exactly one of the two half-edges of every non-loop pair both of whose half-edges are
    erased here, and for a loop - also when its guard is phrased with the vertex the bulk operation is about
    (`i == vertex`).  True / False / None (not decidable in the order domain)"""
    r = half_edge_scenarios(ctx, ev, pair)
    if r is None:
        return None
    sc, reach = r
    for is_loop, halves in sc:
        hs = [reach(ev.node, env) for env in halves]
        if None in hs:
            return None
        if is_loop:
            if hs[0]:
                g = reach(cnode, halves[0])
                if g is None:
                    return None
                if not g:
                    return False
        else:
            if hs[0] and hs[1]:
                g1, g2 = reach(cnode, halves[0]), reach(cnode, halves[1])
                if g1 is None or g2 is None:
                    return None
                if g1 == g2:
                    return False
            elif hs[0] or hs[1]:
                return None
    return True


# ------------------------------------------------------------------------------------------------
def _is_full_vertex_loop(ctx, nid):
    """The innermost enclosing loops of nid that iterate a vertex over the whole graph.
    Returns list of (loop stmt node, loop var decl) from outermost to innermost."""
    f = ctx.fn
    out = []
    for a in f.ancestors(nid):
        n = f.nodes[a]
        if n['k'] == 'CXXForRangeStmt':
            r = ctx.tt.t(n['rangeinit'])
            if graph_like(f, r) and (r == ('deref', ('this',)) or r == ('this',)):
                out.append((a, n['loopvar']))
        elif n['k'] == 'ForStmt':
            init = n.get('init', -1)
            if init >= 0 and f.nodes[init]['k'] == 'DeclStmt' and len(f.nodes[init]['decls']) == 1:
                d = f.nodes[init]['decls'][0]
                from .rules_val import classic_loop_var
                if classic_loop_var(ctx.m, f, ctx.tt, d) is True:
                    out.append((a, d))
    out.reverse()
    return out


def _list_loop_of(ctx, ev):
    """For an eraseIt(x, it): is `it` a cursor that walks the whole list A[x]?  (j = A[x].begin();
    while (j != A[x].end()) ... ) Returns the while/for node or None."""
    f = ctx.fn
    it = ev.args[1]
    base = it
    while base[0] in ('un', 'ctor', 'cast'):
        base = base[3] if base[0] == 'un' else (base[2][0] if base[0] == 'ctor' and base[2] else base[2])
    if base[0] != 'var':
        return None
    x = ev.args[0]
    for a in f.ancestors(ev.node):
        n = f.nodes[a]
        if n['k'] in ('WhileStmt', 'ForStmt') and n.get('cond', -1) >= 0:
            c = ctx.tt.t(n['cond'])
            if c[0] == 'bin' and c[1] == '!=' and c[2] == base and c[3][0] == 'mcall' and \
                    c[3][1] == 'std::list::end' and c[3][2][0] == 'idx' and c[3][2][2] == x:
                # initial value: begin() of the same list
                for (dn, rhs) in var_defs(f, base[1]):
                    if rhs >= 0:
                        r = ctx.tt.t(rhs)
                        if r[0] == 'mcall' and r[1] == 'std::list::begin' and r[2][0] == 'idx' and r[2][2] == x:
                            return a
    return None


def _erase_cursor(ev):
    it = ev.args[1]
    base = it
    while base[0] in ('un', 'ctor', 'cast'):
        base = base[3] if base[0] == 'un' else (base[2][0] if base[0] == 'ctor' and base[2] else base[2])
    return base


def _dedupe_context(ctx, ev):
    """erase is control dependent on seen.count(*it) != 0 with seen receiving insert(*it) on the sibling
    branch and being fresh for every vertex."""
    f = ctx.fn
    cur = _erase_cursor(ev)
    # form 2: if (seen.insert(*j).second) keep; else erase   (test and insertion in one call)
    for dep in ctx.region(ev.node):
        for pt in ctx.true_terms(dep):
            x = pt
            if x[0] == 'un' and x[1] == '!':
                x = strip_conv_t(x[3])
                if x[0] == 'member' and x[2].endswith('::second') and x[1][0] == 'mcall' and \
                        x[1][1].split('::')[-1] == 'insert' and x[1][2][0] == 'var' and x[1][3] and x[1][3][0] == ('deref', cur):
                    seen = x[1][2][1]
                    loops = _is_full_vertex_loop(ctx, ev.node)
                    if loops and any(dn in set(f.descendants(loops[-1][0])) for (dn, rhs) in var_defs(f, seen)):
                        return dict(seen=seen, dep=dep)
                    # declared outside the vertex loop: must be cleared once per vertex
                    if loops:
                        body = set(f.descendants(loops[-1][0]))
                        for n in f.nodes:
                            if n['k'] == 'CXXMemberCallExpr' and 'callee' in n and f.unit.decl(n['callee'])['name'] == 'clear' and \
                                    ctx.tt.t(n.get('obj', -1)) == ('var', seen) and n['i'] in body:
                                lw = _list_loop_of(ctx, ev)
                                if lw is None or n['i'] not in set(f.descendants(lw)):
                                    return dict(seen=seen, dep=dep)
    for dep in ctx.region(ev.node):
        t, pol = ctx.dep_term(dep)
        if t is None:
            continue
        # !seen.count(*j)  with the erase on the false edge ;  or seen.count(*j) true edge
        neg = False
        c = t
        if c[0] == 'un' and c[1] == '!':
            neg = True
            c = c[3]
        if c[0] == 'bin' and c[1] in ('==', '!=') and c[2][0] == 'mcall' and c[2][1].split('::')[-1] == 'find' and \
                c[3][0] == 'mcall' and c[3][1].endswith(('::end', '::cend')) and c[3][2] == c[2][2]:
            # seen.find(k) != seen.end()  is  seen.count(k) != 0
            c = ('bin', '!=' if c[1] == '!=' else '==', ('mcall', 'X::count', c[2][2], c[2][3]), ('int', 0))
        if c[0] == 'bin' and c[1] in ('!=', '>') and c[3] == ('int', 0):
            c = c[2]
        elif c[0] == 'bin' and c[1] == '==' and c[3] == ('int', 0):
            c = c[2]
            neg = not neg
        if c[0] == 'cast':
            c = c[2]
        # std::binary_search(seen.begin(), seen.end(), *j) / std::find(..) != end: same membership question (whether the
        # container answers it correctly - e.g. sortedness for binary_search - is the business of F-SORTED)
        if c[0] == 'call' and c[1] in ('std::binary_search',) and len(c[2]) >= 3 and c[2][2] == ('deref', cur) and \
                c[2][0][0] == 'mcall' and c[2][0][2][0] == 'var':
            c = ('mcall', 'X::count', c[2][0][2], (('deref', cur),))
        if not (c[0] == 'mcall' and c[1].split('::')[-1] in ('count', 'contains') and c[2][0] == 'var' and
                c[3] and c[3][0] == ('deref', cur)):
            continue
        present = (pol != neg)     # region polarity says: count != 0
        if not present:
            continue
        seen = c[2][1]
        # sibling branch inserts *cursor into seen
        inserted = False
        for n in f.nodes:
            if n['k'] == 'CXXMemberCallExpr' and 'callee' in n and f.unit.decl(n['callee'])['name'] in ('insert', 'push_back', 'emplace_back', 'emplace'):
                if ctx.tt.t(n.get('obj', -1)) == ('var', seen):
                    a = n.get('args', [])
                    if a and ctx.tt.t(a[0]) == ('deref', cur):
                        if (dep[0], 1 - dep[1]) in ctx.region(n['i']):
                            inserted = True
        if not inserted:
            continue
        # freshness: declared inside the vertex loop, or cleared at the end of each iteration
        loops = _is_full_vertex_loop(ctx, ev.node)
        if not loops:
            return None
        loopnode = loops[-1][0]
        body = set(f.descendants(loopnode))
        fresh = False
        for (dn, rhs) in var_defs(f, seen):
            if dn in body:
                fresh = True
        for n in f.nodes:
            if n['k'] == 'CXXMemberCallExpr' and 'callee' in n and f.unit.decl(n['callee'])['name'] == 'clear' and \
                    ctx.tt.t(n.get('obj', -1)) == ('var', seen) and n['i'] in body:
                # cleared once per vertex iteration, not inside the list loop
                lw = _list_loop_of(ctx, ev)
                if lw is None or n['i'] not in set(f.descendants(lw)):
                    fresh = True
        if fresh:
            return dict(seen=seen, dep=dep)
    return None


def removed_count_term(ctx, ev, t):
    """t denotes the number of entries removed by the removeAll event ev: sizeBefore - A[x].size() with
    sizeBefore = A[x].size() taken before the call, or a variable defined so."""
    f = ctx.fn
    x = ev.args[0]

    def is_size_of_list(u):
        if u[0] == 'mcall' and u[1] == 'std::list::size' and x[0] == 'listof':
            return u[2] == x[1]        # (inside a helper that receives the list by reference)
        return u[0] == 'mcall' and u[1] == 'std::list::size' and u[2][0] == 'idx' and u[2][2] == x and \
            ctx.ev.role(u[2][1]) == 'A'
    if t[0] == 'cast':
        t = t[2]
    if t[0] in ('call', 'mcall') and ev.extra.get('inner_node') is not None:
        # the count is what the helper that performed the removal returns: decide it inside the helper
        n = f.nodes[ev.node]
        g = f.unit.function_for_decl(n['callee']) if 'callee' in n else None
        if g is None or ctx.tt.t(ev.node) != t:
            return False
        inner = [e for e in events_of(ctx.m, g).events if e.node == ev.extra['inner_node']]
        rets = [r for r in g.nodes if r['k'] == 'ReturnStmt' and g.children(r['i'])]
        if len(inner) != 1 or not rets:
            return False
        gctx = Ctx(ctx.m, g)
        return all(g.can_reach(inner[0].node, r['i']) and removed_count_term(gctx, inner[0], gctx.tt.t(g.children(r['i'])[0]))
                   for r in rets)
    if t[0] == 'var':
        defs = var_defs(f, t[1])
        if len(defs) == 1 and defs[0][1] >= 0:
            dt = strip_cast(ctx.tt.t(defs[0][1]))
            while dt[0] == 'cast':
                dt = strip_cast(dt[2])
            if dt[0] == 'call' and dt[1] == 'std::count' and len(dt[2]) == 3 and ev.kind == 'A.removeAll' and len(ev.args) > 1:
                # the number of entries equal to the value, counted on the same list just before remove(value) erases them
                b0, e0, v0 = dt[2]
                same_list = b0[0] == 'mcall' and b0[1].endswith(('::begin', '::cbegin')) and e0[0] == 'mcall' and \
                    e0[1].endswith(('::end', '::cend')) and b0[2] == e0[2] and b0[2][0] == 'idx' and b0[2][2] == x and \
                    ctx.ev.role(b0[2][1]) == 'A'
                if same_list and strip_cast(v0) != strip_cast(ev.args[1]) and f.node_dominates(defs[0][0], ev.node):
                    ev.extra['wrong_count'] = (defs[0][1], v0)      # counts another value than the one removed: a definite mismatch
                return bool(same_list and strip_cast(v0) == strip_cast(ev.args[1]) and f.node_dominates(defs[0][0], ev.node))
            if not f.can_reach(ev.node, defs[0][0]) and f.strip(defs[0][1]) != ev.node:
                return False
            return removed_count_term(ctx, ev, ctx.tt.t(defs[0][1]))
        return False
    if t[0] == 'bin' and t[1] == '-':
        before, after = t[2], t[3]
        if not is_size_of_list(after):
            return False
        if before[0] == 'var':
            defs = var_defs(f, before[1])
            if len(defs) != 1 or defs[0][1] < 0:
                return False
            if not is_size_of_list(ctx.tt.t(defs[0][1])):
                return False
            # defined before the removeAll, with no other mutation of the list in between (straight line)
            return f.node_dominates(defs[0][0], ev.node)
        return False
    # return value of std::list::remove (C++20)
    return False


def _benign_extra(ctx, deps, ev=None, pair=None, enode=None, cnode=None):
    """Classify extra control dependences of a companion relative to its A-event.
    Returns (ok, notes).  Recognised benign guards:
      - `removedCount > 0` / `!= 0` where removedCount is the removed-entry count of ev (removeAll)
      - once-per-pair guard over `pair` (undirected bulk forms)
    """
    notes = []
    if pair is not None and enode is not None and cnode is not None and deps:
        if once_per_pair_named(ctx, cnode, enode, pair) is True:
            return True, ['once-per-pair guard (named vertex)']
    for dep in deps:
        t, pol = ctx.dep_term(dep)
        if t is None:
            return False, notes
        ok = False
        pt = pos_atom(t, pol)
        if ev is not None and ev.kind == 'A.removeAll' and pt[0] == 'bin' and pt[1] in ('>', '!=') and \
                strip_cast(pt[3]) == ('int', 0) and removed_count_term(ctx, ev, strip_cast(pt[2])):
            ok = True
            notes.append('guard removedCount>0')
        elif pair is not None:
            r = once_per_pair(t, pair[0], pair[1], pol)
            if r:
                ok = True
                notes.append('once-per-pair guard')
        if not ok:
            return False, notes
    return True, notes


# ------------------------------------------------------------------------------------------------
class PairEngine:
    def __init__(self, m, classes=None):
        self.m = m
        self.classes = set(classes) if classes else None
        self.results = {}
        for r, d in (('F-PAIR.N', 'every primitive mutation of an adjacency list is paired, in its own control region, '
                                  'with the matching update of the cached edge count'),
                     ('F-PAIR.L', 'every removal of list entries erases the label of the same pair, every insertion sets '
                                  'it, clearing the lists clears the store (labelled instantiations)'),
                     ('F-PAIR.T', 'every change of the stored labels / lists changes the running total by the same '
                                  'quantity, read before the label is erased or overwritten'),
                     ('F-PAIR.M', 'undirected family: both half-edges are inserted and removed together (mirror), a loop '
                                  'is one entry'),
                     ('F-PAIR.S', 'resize sets the size field to the new size after the shrink check and resizes the '
                                  'adjacency structure to the same value'),
                     ('F-KEY', 'undirected family: every key that reaches the label store is canonical (orderedEdge), '
                               '(v,v), or ordered by a dominating fact'),
                     ('F-PAIR.U', 'no unknown mutation of adjacency structure or label store')):
            self.results[r] = RuleResult(r, d)
        self.run()

    def R(self, rule):
        return self.results[rule]

    def fail(self, rule, ctx, site, nid, msg, detail=None, cands=None, classify=None):
        f = ctx.fn
        # three-way verdict: a violation needs either no candidate companion at all or only candidates that are
        # recognisably about a different pair / amount; candidates the engine cannot relate make it inconclusive
        if cands is not None:
            kinds = [classify(c) if classify else 'unknown' for c in cands]
            if any(k == 'unknown' for k in kinds):
                self.R(rule).obligations += 1
                self.R(rule).broken('%s: %s in %s: a possible companion (%s) is in a form the rule cannot relate to the event' % (
                    rule, site, f.display(), ctx.desc(cands[kinds.index('unknown')].node)))
                return
        if any(e.extra.get('conditional') for e in ctx.ev.events):
            self.R(rule).obligations += 1
            self.R(rule).broken('%s: %s in %s involves a helper whose updates are conditional inside the helper' % (
                rule, site, f.display()))
            return
        # a companion may hide in a mutation form the vocabulary does not model: then the pairing cannot be decided
        unknown = list(ctx.ev.unknown)
        for _, g in self.m.callees(f):
            if g.record in GRAPH_CLASSES and not g.is_const:
                if any(k.endswith('.unknown') for k in summary_of(self.m, g).kinds):
                    unknown.append((None, 'callee %s uses an unmodelled mutation' % g.display()))
        if unknown:
            self.R(rule).obligations += 1
            self.R(rule).broken('%s: pairing of %s in %s cannot be decided because of an unmodelled mutation (%s)' % (
                rule, site, f.display(), unknown[0][1]))
            return
        self.R(rule).fail(Finding(rule, f.display(), site, f.nloc(nid) if nid is not None else f.where(), msg, detail))

    def ok(self, rule, ctx, sample=None):
        r = self.R(rule)
        r.ok(sample if (sample and len(r.samples) < 14) else None, fn=ctx.fn.display())

    # --------------------------------------------------------------------------------------------
    def run(self):
        m = self.m
        self._find_open_helpers()
        for f in m.fns:
            if f.record not in GRAPH_CLASSES or f.is_lambda or f.is_const:
                continue
            if self.classes is not None and f.record not in self.classes:
                continue
            if id(f) in OPEN_HELPERS.get(id(m), {}):
                continue       # its events are checked in the callers
            if f.unit.decl(f.decl).get('special'):
                continue       # hand-written copy / move members transfer whole fields: judged member-wise by D-VALSEM
            ctx = Ctx(m, f)
            for nid, why in ctx.ev.unknown:
                self.R('F-PAIR.U').sites += 1
                self.R('F-PAIR.U').broken('unknown mutation in %s at %s: %s (not modelled; new mutation forms are never '
                                          'silently accepted)' % (f.display(), f.nloc(nid), why))
            self.check_function(ctx)
        for r in self.results.values():
            pass

    def _find_open_helpers(self):
        """Non-public helpers that are not self-contained (their own pairing fails, or they only update counters /
        labels without touching a list): their events are imported into the callers instead."""
        m = self.m
        if id(m) in OPEN_HELPERS:
            return
        OPEN_HELPERS[id(m)] = {}
        helpers = [f for f in m.fns if f.record in GRAPH_CLASSES and not f.is_lambda and not f.is_const and not f.is_ctor and
                   f.access in ('private', 'protected') and f.tname not in no_inline(self.m)]
        for f in helpers:
            ev = events_of(m, f)
            writes = [e for e in ev.state_writes()]
            if not writes:
                continue
            has_A = any(e.kind.startswith('A.') and not e.extra.get('listparam') for e in ev.events)
            probe = PairEngine.__new__(PairEngine)
            probe.m = m
            probe.classes = None
            probe.results = {r: RuleResult(r, '') for r in self.results}
            probe.check_function(Ctx(m, f))
            failed = any(r.findings or r.inconclusive for r in probe.results.values())
            if failed or not has_A:
                OPEN_HELPERS[id(m)][id(f)] = f

    def check_function(self, ctx):
        f = ctx.fn
        evs = ctx.ev.events
        A = [e for e in evs if e.kind.startswith('A.')]
        # the mirror analysis first (undirected family)
        mirrors = set()
        if ctx.undirected:
            mirrors = self.check_mirror(ctx, A)
        for e in A:
            if e.node in mirrors:
                continue
            self.R('F-PAIR.N').sites += 1
            if e.kind == 'A.push':
                self.check_push(ctx, e, A)
            elif e.kind == 'A.removeAll':
                self.check_remove_all(ctx, e)
            elif e.kind == 'A.eraseIt':
                self.check_erase(ctx, e)
            elif e.kind == 'A.clear':
                self.check_clear(ctx, e)
            elif e.kind == 'A.resize':
                self.check_resize(ctx, e)
        self.check_label_writes(ctx)
        self.check_calls(ctx)
        if ctx.undirected:
            self.check_keys(ctx)

    # -------------------------------------------------------------------------------------------- classifiers
    def cls_key(self, ctx, x, y, reader=False):
        """classifier for label-store companions: same pair (but not accepted, i.e. wrong region) or unresolved key ->
        unknown; a resolved key about another pair -> different"""
        def f(c):
            k = ctx.label_read(strip_cast(c.args[0]), c.node) if reader else ctx.key_of(c.args[0], c.node)
            if reader and k is None:
                t = strip_cast(c.args[0])
                if t[0] == 'bin' and t[1] == '*':
                    k = ctx.label_read(strip_cast(t[2]), c.node) or ctx.label_read(strip_cast(t[3]), c.node)
            if k is None:
                return 'unknown'
            simple = all(z[0] in ('var', 'deref', 'member', 'int') for z in (k.a, k.b))
            if not simple:
                return 'unknown'
            if ctx.key_matches_pair(k, x, y) or (isinstance(y, tuple) and y[0] == 'deref' and ctx.key_matches_pair(k, x, ctx.norm(y, c.node))):
                return 'unknown'
            return 'different'
        return f

    def cls_count(self, ctx, ev, pair=None):
        def f(c):
            if ev.kind == 'A.removeAll':
                if c.kind == 'N.dec':
                    return 'different'
                if c.kind == 'N.sub':
                    return 'unknown'
                return 'different'
            # erase / push expect +-1
            if c.kind in ('N.dec', 'N.inc'):
                extra_c, extra_e = ctx.region_diff(c.node, ev.node)
                if extra_e:
                    return 'unknown'
                if pair is not None and extra_c and ctx.undirected:
                    verdicts = [once_per_pair(ctx.dep_term(d)[0], pair[0], pair[1], ctx.dep_term(d)[1]) for d in extra_c
                                if ctx.dep_term(d)[0] is not None]
                    if verdicts and all(v is False for v in verdicts):
                        return 'different'
                    return 'unknown'
                if pair is not None and extra_c:
                    # directed family: every erased entry is an edge of its own, so a guard on the decrement that is
                    # false for some ordering of (x, *it) leaves removed edges uncounted
                    for d in extra_c:
                        t, pol = ctx.dep_term(d)
                        if t is None:
                            return 'unknown'
                        vals = [eval_order(t, {pair[0]: va, pair[1]: vb}) for (va, vb) in ORDERINGS]
                        if None in vals:
                            return 'unknown'
                        if any(bool(v) != pol for v in vals):
                            return 'different'
                    return 'unknown'
                return 'unknown' if extra_c else 'different'
            return 'unknown'
        return f

    # -------------------------------------------------------------------------------------------- helpers
    def companions(self, ctx, kindprefix):
        return [e for e in ctx.ev.events if e.kind.startswith(kindprefix)]

    def find_same_region(self, ctx, ev, cands, pair=None):
        """companions in exactly the region of ev, or in its region plus benign guards"""
        out = []
        for c in cands:
            extra_c, extra_e = ctx.region_diff(c.node, ev.node)
            if extra_e:
                continue     # companion is not executed on every path that executes the event
            if not extra_c:
                out.append((c, []))
                continue
            ok, notes = _benign_extra(ctx, extra_c, ev, pair)
            if ok:
                out.append((c, notes))
        return out

    # -------------------------------------------------------------------------------------------- push
    def check_push(self, ctx, e, A):
        f = ctx.fn
        x, y = e.args
        site = 'push(%s,%s)' % (show(x, f.unit), show(y, f.unit))
        # N.inc in the same region
        incs = self.find_same_region(ctx, e, [c for c in self.companions(ctx, 'N.') if c.kind in ('N.inc', 'N.add')])
        # in the undirected family the (at most) two pushes of one insertion group share one increment
        incs = [c for c in incs if c[0].kind == 'N.inc' or c[0].args[0] == ('int', 1)]
        between = []
        if len(incs) == 1 and ctx.labelled and ctx.cls in (LDG, LUG):
            # (the class templates with a caller-chosen label type; the multigraph / weighted classes store unsigned / double)
            # no label code between the two halves of the pair: storing a label copies a user type (allocation, user copy
            # assignment) and can throw, which would leave the entry listed but uncounted
            inc = incs[0][0]
            for c in self.label_sets(ctx):
                if f.node_dominates(e.node, c['node']) and f.node_dominates(c['node'], inc.node) and c['node'] not in (e.node, inc.node):
                    between.append(c)
        if len(incs) == 1 and between:
            self.fail('F-PAIR.N', ctx, site + ' <-> ++edgeNumber (label copy in between)', between[0]['node'],
                      'the label is stored (`%s`) after the entry was appended to the list and before the edge count is '
                      'updated: copying a label runs user code that may throw (std::string / user struct), and the exception '
                      'leaves the pair listed by hasEdge / the neighbour lists but not counted by getEdgeNumber'
                      % f.expr_text(between[0]['node'])[:50])
        elif len(incs) == 1:
            self.ok('F-PAIR.N', ctx, dict(function=f.display(), event=ctx.desc(e.node), companion=ctx.desc(incs[0][0].node)))
        else:
            self.fail('F-PAIR.N', ctx, site + ' <-> ++edgeNumber', e.node,
                      'insertion into an adjacency list is not paired with exactly one increment of the edge count in '
                      'the same control region (found %d)' % len(incs))
        if ctx.labelled:
            self.R('F-PAIR.L').sites += 1
            sets = []
            for c in self.label_sets(ctx):
                if ctx.key_matches_pair(c['key'], x, y):
                    extra_c, extra_e = ctx.region_diff(c['node'], e.node)
                    # a push of the undirected family may carry an extra `v1 != v2` guard (mirror half)
                    if not extra_c and (not extra_e or ctx.undirected):
                        sets.append(c)
            if sets:
                self.ok('F-PAIR.L', ctx, dict(function=f.display(), event=ctx.desc(e.node),
                                              companion=ctx.desc(sets[0]['node'])))
                e.extra['label'] = sets[0]['value']
            else:
                self.fail('F-PAIR.L', ctx, site + ' <-> label set', e.node,
                          'an edge is inserted but the label of the same pair is not stored in the same control '
                          'region: getEdgeLabel would throw / return a stale value for a live edge')
        if ctx.has_total:
            self.R('F-PAIR.T').sites += 1
            lab = e.extra.get('label')
            adds = self.find_same_region(ctx, e, [c for c in self.companions(ctx, 'T.') if c.kind in ('T.add', 'T.inc')])
            good = [c for c in adds if lab is not None and c[0].kind == 'T.add' and strip_cast(c[0].args[0]) == strip_cast(lab)]
            if ctx.undirected:
                # the group of (up to two) pushes shares one T.add; accept the companion if in the region of the
                # unconditional push
                adds2 = []
                for c in self.companions(ctx, 'T.'):
                    if c.kind == 'T.add':
                        extra_c, extra_e = ctx.region_diff(c.node, e.node)
                        if not extra_c and lab is not None and strip_cast(c.args[0]) == strip_cast(lab):
                            adds2.append(c)
                if adds2:
                    good = [(adds2[0], [])]
            if len(good) == 1:
                self.ok('F-PAIR.T', ctx, dict(function=f.display(), event=ctx.desc(e.node), companion=ctx.desc(good[0][0].node)))
            else:
                self.fail('F-PAIR.T', ctx, site + ' <-> total += label', e.node,
                          'an edge is inserted but the running total is not increased by the stored label/weight/'
                          'multiplicity in the same control region')

    def label_sets(self, ctx):
        """[{node,key,value}] label-store writes: L.set events and calls to _setLabel / setLabel"""
        f = ctx.fn
        out = []
        for c in ctx.ev.events:
            if c.kind == 'L.set':
                out.append(dict(node=c.node, key=ctx.key_of(c.args[0], c.node), value=c.args[1], kind='direct'))
        for n in f.nodes:
            if n['k'] == 'CXXMemberCallExpr' and 'callee' in n:
                cd = f.unit.decl(n['callee'])
                if ctx.tt.t(n.get('obj', -1)) != ('this',):
                    continue
                args = [ctx.tt.t(a) for a in n.get('args', [])]
                if cd['tname'] == ctx.m.label_helpers()[0] and len(args) == 2:
                    out.append(dict(node=n['i'], key=ctx.key_of(args[0], n['i']), value=args[1], kind='_setLabel'))
                elif cd['tname'] == ctx.m.label_helpers()[2] and len(args) == 3:
                    out.append(dict(node=n['i'], key=Key(args[0], args[1], True), value=args[2], kind='setLabel'))
        return out

    # -------------------------------------------------------------------------------------------- removeAll
    def check_remove_all(self, ctx, e):
        f = ctx.fn
        x, y = e.args
        site = 'removeAll(%s,%s)' % (show(x, f.unit), show(y, f.unit))
        subs = []
        for c in self.companions(ctx, 'N.'):
            if c.kind == 'N.sub' and removed_count_term(ctx, e, c.args[0]):
                extra_c, extra_e = ctx.region_diff(c.node, e.node)
                if extra_e:
                    continue
                ok, notes = _benign_extra(ctx, extra_c, e)
                if ok:
                    subs.append(c)
        if len(subs) == 1 and f.can_reach_forward(e.node, subs[0].node):
            self.ok('F-PAIR.N', ctx, dict(function=f.display(), event=ctx.desc(e.node), companion=ctx.desc(subs[0].node)))
        elif e.extra.get('wrong_count'):
            wn, wv = e.extra['wrong_count']
            self.R('F-PAIR.N').fail(Finding('F-PAIR.N', f.display(), site + ' <-> edgeNumber -= removed', f.nloc(e.node),
                                            'the edge count is reduced by `%s`, the number of entries equal to `%s`, while the entries '
                                            'removed are those equal to `%s`: the count no longer matches the lists'
                                            % (f.expr_text(wn)[:60], show(wv, f.unit), show(y, f.unit))))
        else:
            self.fail('F-PAIR.N', ctx, site + ' <-> edgeNumber -= removed', e.node,
                      'all copies of an edge are removed from a list but the edge count is not reduced by the number '
                      'of removed entries of that list (size before - size after) in the same control region',
                      cands=[c for c in self.companions(ctx, 'N.') if c.kind in ('N.sub', 'N.dec')], classify=self.cls_count(ctx, e))
        if ctx.labelled:
            self.R('F-PAIR.L').sites += 1
            er = []
            for c in self.companions(ctx, 'L.erase'):
                if ctx.key_matches_pair(ctx.key_of(c.args[0], c.node), x, y):
                    extra_c, extra_e = ctx.region_diff(c.node, e.node)
                    if extra_e:
                        continue
                    ok, notes = _benign_extra(ctx, extra_c, e)
                    if ok:
                        er.append(c)
            witness = None
            if not er:
                for c in self.companions(ctx, 'L.erase'):
                    if ctx.key_matches_pair(ctx.key_of(c.args[0], c.node), x, y):
                        extra_c, extra_e = ctx.region_diff(c.node, e.node)
                        if not extra_e:
                            witness = witness or self._skipped_witness(ctx, extra_c, e, x, y)
            if er:
                self.ok('F-PAIR.L', ctx, dict(function=f.display(), event=ctx.desc(e.node), companion=ctx.desc(er[0].node)))
                e.extra['lerase'] = er[0]
            elif witness:
                self.R('F-PAIR.L').fail(Finding('F-PAIR.L', f.display(), site + ' <-> label erase', f.nloc(e.node),
                                                'all copies of the edge are removed, but the erase of its label entry is skipped when %s: '
                                                'the label of that pair outlives its edge' % witness))
            else:
                self.fail('F-PAIR.L', ctx, site + ' <-> label erase', e.node,
                          'all copies of an edge are removed but the label entry of the pair is not erased in the '
                          'same control region: the label outlives its edge',
                          cands=self.companions(ctx, 'L.erase') + self.companions(ctx, 'L.clear'), classify=self.cls_key(ctx, x, y))
        if ctx.has_total:
            self.R('F-PAIR.T').sites += 1
            good = []
            for c in self.companions(ctx, 'T.sub'):
                t = strip_cast(c.args[0])
                if t[0] == 'bin' and t[1] == '*':
                    for lab, cnt in ((t[2], t[3]), (t[3], t[2])):
                        k = ctx.label_read(strip_cast(lab), c.node)
                        if ctx.key_matches_pair(k, x, y) and removed_count_term(ctx, e, strip_cast(cnt)):
                            extra_c, extra_e = ctx.region_diff(c.node, e.node)
                            if extra_e:
                                continue
                            ok, notes = _benign_extra(ctx, extra_c, e)
                            if ok:
                                good.append(c)
            le = e.extra.get('lerase')
            if len(good) == 1 and (le is None or not f.can_reach_forward(le.node, good[0].node)):
                self.ok('F-PAIR.T', ctx, dict(function=f.display(), event=ctx.desc(e.node), companion=ctx.desc(good[0].node)))
            else:
                self.fail('F-PAIR.T', ctx, site + ' <-> total -= label*removed', e.node,
                          'all copies of an edge are removed but the running total is not reduced by label(pair) x '
                          'removed copies, read before the label is erased, in the same control region',
                          cands=[c for c in self.companions(ctx, 'T.') if c.kind in ('T.sub', 'T.set')],
                          classify=self.cls_key(ctx, x, y, reader=True))

    def _skipped_witness(self, ctx, extra_deps, e, x, y):
        """an ordering of the two endpoints for which the event executes but the companion, which sits under the extra
        guards, does not: a concrete counterexample (e.g. x == y, a self-loop).  None when there is none / undecidable"""
        f = ctx.fn
        names = {(0, 1): '%s < %s', (1, 1): '%s == %s (a self-loop)', (1, 0): '%s > %s'}
        for (va, vb) in ORDERINGS:
            env = {x: va, y: vb}
            vals = []
            for dep in extra_deps:
                if _benign_extra(ctx, [dep], e)[0]:
                    vals.append(True)       # e.g. `removed > 0`: true whenever something was removed
                    continue
                t, pol = ctx.dep_term(dep)
                v = eval_order(ctx.norm(t, e.node), env) if t is not None else None
                vals.append(None if v is None else (bool(v) == pol))
            if None in vals or all(vals):
                continue
            runs = True
            for dep in ctx.region(e.node):
                t, pol = ctx.dep_term(dep)
                v = eval_order(ctx.norm(t, e.node), env) if t is not None else None
                if v is not None and bool(v) != pol:
                    runs = False
            if runs:
                return names[(va, vb)] % (show(x, f.unit), show(y, f.unit))
        # guards over the length of the list: a length read before the removal is `after + removed`, one read after it is
        # `after`; the companion must run whenever removed > 0
        if e.kind == 'A.removeAll':
            def size_of_x(u):
                u = strip_cast(u)
                return u[0] == 'mcall' and u[1] == 'std::list::size' and u[2][0] == 'idx' and u[2][2] == x and ctx.ev.role(u[2][1]) == 'A'
            for after in (0, 1):
                for removed in (1, 2):
                    env = {}
                    undecided = False
                    vals = []
                    for dep in extra_deps:
                        t, pol = ctx.dep_term(dep)
                        if t is None:
                            undecided = True
                            break
                        for st in subterms(t):
                            if st[0] == 'var':
                                defs = var_defs(f, st[1])
                                if len(defs) == 1 and defs[0][1] >= 0 and size_of_x(ctx.tt.t(defs[0][1])):
                                    if f.node_dominates(defs[0][0], e.node):
                                        env[st] = after + removed
                                    elif f.node_dominates(e.node, defs[0][0]):
                                        env[st] = after
                            elif size_of_x(st):
                                env[st] = after
                        v = eval_order(t, env)
                        if v is None:
                            undecided = True
                            break
                        vals.append(bool(v) == pol)
                    if not undecided and vals and not all(vals):
                        return '%d entr%s removed and %d remain%s in the list of %s' % (
                            removed, 'y is' if removed == 1 else 'ies are', after, 's' if after == 1 else '', show(x, f.unit))
        return None

    # -------------------------------------------------------------------------------------------- eraseIt
    def check_erase(self, ctx, e):
        f = ctx.fn
        x = e.args[0]
        cur = _erase_cursor(e)
        y = ctx.norm(('deref', cur), e.node)
        site = 'erase(%s,%s)' % (show(x, f.unit), show(y, f.unit))
        pair = (x, ('deref', cur))
        dedupe = _dedupe_context(ctx, e)
        bulk = ctx.undirected and len(_is_full_vertex_loop(ctx, e.node)) >= 1 and _list_loop_of(ctx, e) is not None
        e.extra['form'] = 'dedupe' if dedupe else ('bulk' if bulk else 'single')
        # N.dec
        decs = []
        refuted = []
        for c in self.companions(ctx, 'N.'):
            if c.kind == 'N.dec' or (c.kind == 'N.sub' and c.args[0] == ('int', 1)):
                extra_c, extra_e = ctx.region_diff(c.node, e.node)
                if extra_e:
                    continue
                if not extra_c:
                    decs.append((c, 'same region'))
                elif bulk or (dedupe and ctx.undirected):
                    ok, notes = _benign_extra(ctx, extra_c, None, pair, e, c.node)
                    if ok:
                        decs.append((c, 'once-per-pair'))
                    elif bulk and once_per_pair_named(ctx, c.node, e, pair) is False:
                        refuted.append(c)
        want_guard = bool(ctx.undirected and (bulk or dedupe))
        good = [d for d in decs if (d[1] == 'once-per-pair') == want_guard]
        if len(good) == 1:
            self.ok('F-PAIR.N', ctx, dict(function=f.display(), event=ctx.desc(e.node), form=e.extra['form'],
                                          companion=ctx.desc(good[0][0].node), region=good[0][1]))
        elif not good and refuted:
            # the guard was evaluated for both half-edges of a pair: it holds for both or for neither in some scenario
            self.R('F-PAIR.N').fail(Finding('F-PAIR.N', f.display(), site + ' <-> --edgeNumber', f.nloc(refuted[0].node),
                                            'the decrement of the edge count sits under a guard that is not true for exactly one of the two '
                                            'half-edges of every removed pair (evaluated for the pair {1,2} with the operated vertex being 1, 2 '
                                            'or another vertex, and for a loop): some pair is counted twice or not at all'))
        else:
            self.fail('F-PAIR.N', ctx, site + ' <-> --edgeNumber', e.node,
                      'a list entry is erased but the edge count is not decremented exactly once per removed edge '
                      '(%s form%s)' % (e.extra['form'], ': the decrement must sit under a guard that is true for exactly '
                                       'one of the two half-edges and for loops' if want_guard else
                                       ': the decrement must be in the same control region'),
                      cands=[c for c in self.companions(ctx, 'N.') if c.kind in ('N.dec', 'N.sub')],
                      classify=self.cls_count(ctx, e, pair))
        if ctx.labelled and not dedupe:
            self.R('F-PAIR.L').sites += 1
            er = []
            for c in self.companions(ctx, 'L.erase'):
                k = ctx.key_of(c.args[0], c.node)
                if k is None:
                    continue
                kk = Key(ctx.norm(k.a, e.node), ctx.norm(k.b, e.node), k.ordered)
                if ctx.key_matches_pair(kk, x, y) or ctx.key_matches_pair(k, x, ('deref', cur)):
                    extra_c, extra_e = ctx.region_diff(c.node, e.node)
                    if extra_e:
                        continue
                    if not extra_c:
                        er.append(c)
                    elif bulk:
                        ok, notes = _benign_extra(ctx, extra_c, None, pair, e, c.node)
                        if ok:
                            er.append(c)
            if er:
                # the key must be read before the entry is erased when it dereferences the cursor
                c = er[0]
                uses_cursor = any(st == ('deref', cur) for st in subterms(c.args[0])) or \
                    any(st == ('deref', cur) for st in subterms(ctx.tt.t(f.nodes[c.node]['args'][0])))
                if uses_cursor and f.can_reach_forward(e.node, c.node):
                    self.fail('F-PAIR.L', ctx, site + ' <-> label erase', c.node,
                              'the label key dereferences the list cursor after the entry has been erased')
                else:
                    self.ok('F-PAIR.L', ctx, dict(function=f.display(), event=ctx.desc(e.node), form=e.extra['form'],
                                                  companion=ctx.desc(c.node)))
                    e.extra['lerase'] = c
            else:
                self.fail('F-PAIR.L', ctx, site + ' <-> label erase', e.node,
                          'a list entry is erased (%s form) but the label entry of the same pair is not erased in the '
                          'same control region: the label outlives its edge' % e.extra['form'],
                          cands=self.companions(ctx, 'L.erase') + self.companions(ctx, 'L.clear'),
                          classify=self.cls_key(ctx, x, ('deref', cur)))
        elif ctx.labelled and dedupe:
            self.R('F-PAIR.L').sites += 1
            offending = None
            for c in self.companions(ctx, 'L.erase'):
                k = ctx.key_of(c.args[0], c.node)
                if k is None:
                    continue
                kk = Key(ctx.norm(k.a, e.node), ctx.norm(k.b, e.node), k.ordered)
                if ctx.key_matches_pair(kk, x, y) or ctx.key_matches_pair(k, x, ('deref', cur)):
                    extra_c, extra_e = ctx.region_diff(c.node, e.node)
                    if not extra_e:
                        offending = c
            if offending is not None:
                self.fail('F-PAIR.L', ctx, site + ' <-> label erase', offending.node,
                          'removing a duplicate copy of a pair erases the label of the pair although one copy of it stays: '
                          'the surviving edge loses its label')
            else:
                self.ok('F-PAIR.L', ctx, dict(function=f.display(), event=ctx.desc(e.node), form='dedupe',
                                              companion='none required: one copy of the pair stays, so its label stays'))
        if ctx.has_total:
            self.R('F-PAIR.T').sites += 1
            good = []
            for c in self.companions(ctx, 'T.sub'):
                k = ctx.label_read(strip_cast(c.args[0]), c.node)
                if k is None:
                    continue
                kk = Key(ctx.norm(k.a, e.node), ctx.norm(k.b, e.node), k.ordered)
                if not (ctx.key_matches_pair(kk, x, y) or ctx.key_matches_pair(k, x, ('deref', cur))):
                    continue
                extra_c, extra_e = ctx.region_diff(c.node, e.node)
                if extra_e:
                    continue
                if not extra_c:
                    good.append((c, 'same region'))
                elif want_guard:
                    ok, notes = _benign_extra(ctx, extra_c, None, pair, e, c.node)
                    if ok:
                        good.append((c, 'once-per-pair'))
            good = [g for g in good if (g[1] == 'once-per-pair') == want_guard]
            le = e.extra.get('lerase')
            ok = len(good) == 1
            why = ''
            if ok:
                c = good[0][0]
                # label read before the label erase and before the cursor dies
                if le is not None and f.can_reach_forward(le.node, c.node):
                    ok = False
                    why = ' (the label is read after it has been erased)'
                if f.can_reach_forward(e.node, c.node) and \
                        any(st == ('deref', cur) for st in subterms(c.args[0])):
                    ok = False
                    why = ' (the cursor is dereferenced after the erase)'
                if ok and le is not None and bulk and ctx.undirected:
                    stale = self._stale_read(ctx, e, pair, le, c)
                    if stale:
                        ok = False
                        why = ' (%s)' % stale
            if ok:
                self.ok('F-PAIR.T', ctx, dict(function=f.display(), event=ctx.desc(e.node), form=e.extra['form'],
                                              companion=ctx.desc(good[0][0].node), region=good[0][1]))
            else:
                self.fail('F-PAIR.T', ctx, site + ' <-> total -= label', e.node,
                          'a list entry is erased but the running total is not reduced by the label of the same pair '
                          'exactly once per removed edge, before the label is erased%s' % why,
                          cands=None if why else [c for c in self.companions(ctx, 'T.') if c.kind in ('T.sub', 'T.set')],
                          classify=self.cls_key(ctx, x, ('deref', cur), reader=True))

    def _stale_read(self, ctx, e, pair, le, reader):
        """rows are visited in ascending order, so of the two half-edges of a pair the one in the lower row comes first:
        the label must not be erased there when it is read (for the total) only at the second one"""
        r = half_edge_scenarios(ctx, e, pair)
        if r is None:
            return None
        sc, reach = r
        for is_loop, halves in sc:
            if is_loop:
                continue
            e1, e2 = halves
            if not (reach(e.node, e1) is True and reach(e.node, e2) is True):
                continue
            first, second = (e1, e2) if e1[pair[0]] < e2[pair[0]] else (e2, e1)
            if reach(le.node, first) is True and reach(reader.node, second) is True and reach(reader.node, first) is not True:
                return 'for a pair whose lower-numbered endpoint row is visited first the label is erased there, and read for ' \
                       'the total only at the second half-edge, when it is already gone'
        return None

    # -------------------------------------------------------------------------------------------- clear
    def check_clear(self, ctx, e):
        f = ctx.fn
        x = e.args[0]
        site = 'clear(%s)' % show(x, f.unit)
        loops = _is_full_vertex_loop(ctx, e.node)
        if not (loops and x == ('var', loops[-1][1])):
            # a single list is cleared: the count must drop by the length of that list, read before the clear
            subs = []
            for c in self.companions(ctx, 'N.sub'):
                t = strip_cast(c.args[0])
                if t[0] == 'mcall' and t[1] == 'std::list::size' and t[2][0] == 'idx' and t[2][2] == x and \
                        ctx.ev.role(t[2][1]) == 'A' and ctx.region(c.node) == ctx.region(e.node) and \
                        f.can_reach_forward(c.node, e.node):
                    subs.append(c)
            if len(subs) == 1:
                self.ok('F-PAIR.N', ctx, dict(function=f.display(), event=ctx.desc(e.node), companion=ctx.desc(subs[0].node),
                                              form='single list cleared: count -= size() read before the clear'))
            else:
                self.fail('F-PAIR.N', ctx, site + ' <-> edgeNumber -= size()', e.node,
                          'a single adjacency list is cleared but the edge count is not reduced by the length of that list '
                          '(read before the clear) in the same control region')
            # per-entry companions: a range-for over the same list, in the region of the clear and before it, whose body
            # (unconditionally) erases the key (x, entry) / subtracts its label
            entry_loops = []
            for n in f.nodes:
                if n['k'] == 'CXXForRangeStmt':
                    r = ctx.tt.t(n['rangeinit'])
                    if r[0] == 'mcall' and r[1].endswith(('::getOutNeighbours', '::getNeighbours')) and r[2] == ('this',):
                        r = ('idx', ('field', next(iter(self.m.role_field['A']))), r[3][0])
                    if r[0] == 'idx' and ctx.ev.role(r[1]) == 'A' and r[2] == x and \
                            self._loop_region(ctx, n['i']) == ctx.region(e.node) and f.can_reach_forward(n['rangestmt'], e.node):
                        entry_loops.append(n)

            def in_entry_loop(c, want_key=True):
                for n in entry_loops:
                    if c.node in set(f.descendants(n['body'])):
                        lv = ('var', n['loopvar'])
                        body_first = [d for d in f.descendants(n['body']) if d in f.pos]
                        base = min((f.region_of_block(f.pos[d][0]) for d in body_first), key=len) if body_first else frozenset()
                        if ctx.region(c.node) == base:
                            return lv
                return None
            if ctx.labelled:
                self.R('F-PAIR.L').sites += 1
                done = False
                for c in self.companions(ctx, 'L.erase'):
                    lv = in_entry_loop(c)
                    if lv is not None and ctx.key_matches_pair(ctx.key_of(c.args[0], c.node), x, lv):
                        self.ok('F-PAIR.L', ctx, dict(function=f.display(), event=ctx.desc(e.node), companion=ctx.desc(c.node),
                                                      form='single list cleared after a loop that erases the label of every entry'))
                        done = True
                        break
                if done:
                    pass
                else:
                    self.fail('F-PAIR.L', ctx, site + ' <-> label erase of every cleared entry', e.node,
                          'a whole adjacency list is cleared with clear(): the labels of the edges it held are not erased '
                          '(no per-entry erase of the keys (%s, *)): they outlive their edges' % show(x, f.unit))
            if ctx.has_total:
                self.R('F-PAIR.T').sites += 1
                done = False
                for c in self.companions(ctx, 'T.sub'):
                    lv = in_entry_loop(c)
                    k = ctx.label_read(strip_cast(c.args[0]), c.node)
                    if lv is not None and ctx.key_matches_pair(k, x, lv):
                        # the label must be read before it is erased in the same iteration
                        later_erase = [le for le in self.companions(ctx, 'L.erase') if in_entry_loop(le) == lv and
                                       f.can_reach_forward(le.node, c.node)]
                        if not later_erase:
                            self.ok('F-PAIR.T', ctx, dict(function=f.display(), event=ctx.desc(e.node), companion=ctx.desc(c.node),
                                                          form='single list cleared after a loop that subtracts the label of every entry'))
                            done = True
                            break
                if not done:
                    self.fail('F-PAIR.T', ctx, site + ' <-> total -= labels of the cleared entries', e.node,
                              'a whole adjacency list is cleared with clear(): the running total is not reduced by the labels of '
                              'the edges it held')
            if ctx.undirected:
                self.R('F-PAIR.M').sites += 1
                self.fail('F-PAIR.M', ctx, site + ' without mirror removals', e.node,
                          'a whole adjacency list is cleared with clear(): the mirror half-edges in the other lists stay')
            return
        loopnode = loops[-1][0]
        lreg = ctx.region(loopnode) if f.cfg_pos(loopnode) else None

        def after_loop(c):
            # executed exactly when the loop statement is: same region as the loop head's predecessor
            pos = f.cfg_pos(c.node)
            return pos is not None and f.region_of_block(pos[0]) == self._loop_region(ctx, loopnode) and \
                c.node not in set(f.descendants(loopnode))
        n0 = [c for c in self.companions(ctx, 'N.set') if c.args[0] == ('int', 0) and after_loop(c)]
        if len(n0) == 1:
            self.ok('F-PAIR.N', ctx, dict(function=f.display(), event=ctx.desc(e.node), lifted='all vertices',
                                          companion=ctx.desc(n0[0].node)))
        else:
            self.fail('F-PAIR.N', ctx, site + ' (all vertices) <-> edgeNumber = 0', e.node,
                      'all adjacency lists are cleared but the edge count is not reset to 0')
        if ctx.labelled:
            self.R('F-PAIR.L').sites += 1
            lc = [c for c in self.companions(ctx, 'L.clear') if after_loop(c)]
            if lc:
                self.ok('F-PAIR.L', ctx, dict(function=f.display(), event=ctx.desc(e.node), lifted='all vertices',
                                              companion=ctx.desc(lc[0].node)))
            else:
                self.fail('F-PAIR.L', ctx, site + ' (all vertices) <-> label store clear', e.node,
                          'all adjacency lists are cleared but the label store is not: every label (weight, '
                          'multiplicity) outlives its edge and operator== sees the residue')
        if ctx.has_total:
            self.R('F-PAIR.T').sites += 1
            t0 = [c for c in self.companions(ctx, 'T.set') if strip_cast(c.args[0]) in (('int', 0), ('float', '0.000000')) and after_loop(c)]
            if t0:
                self.ok('F-PAIR.T', ctx, dict(function=f.display(), event=ctx.desc(e.node), companion=ctx.desc(t0[0].node)))
            else:
                self.fail('F-PAIR.T', ctx, site + ' (all vertices) <-> total = 0', e.node,
                          'all adjacency lists are cleared but the running total is not reset to 0')

    def _loop_region(self, ctx, loopnode):
        """control region in which the loop statement as a whole executes"""
        f = ctx.fn
        n = f.nodes[loopnode]
        first = n.get('rangestmt', -1) if n['k'] == 'CXXForRangeStmt' else n.get('init', -1)
        if first is not None and first >= 0 and f.cfg_pos(first) is not None:
            return f.region_of_block(f.cfg_pos(first)[0])
        return frozenset()

    # -------------------------------------------------------------------------------------------- resize
    def check_resize(self, ctx, e):
        f = ctx.fn
        r = self.R('F-PAIR.S')
        r.sites += 1
        n = e.args[0]
        sets = [c for c in self.companions(ctx, 'S.set') if c.args[0] == n and ctx.region(c.node) == ctx.region(e.node)]
        throws = [x for x in f.nodes if x['k'] == 'CXXThrowExpr']
        ok = len(sets) == 1 and len(throws) == 1
        why = 'resize must set the size field to the new size in the same region as the adjacency resize'
        if ok:
            # shrink check: throw control dependent on  n < S  (true edge)
            reg = f.region(throws[0]['i'])
            ok = False
            why = 'the shrink check `newSize < size -> throw` must guard both writes'
            for dep in reg:
                t, pol = ctx.dep_term(dep)
                if t and t[0] == 'bin':
                    lt = (t[1] == '<' and t[2] == n and is_size_term(ctx.m, f, t[3], ctx.tt) and pol) or \
                         (t[1] == '>' and t[3] == n and is_size_term(ctx.m, f, t[2], ctx.tt) and pol)
                    if lt and len(reg) == 1:
                        ok = all(not f.can_reach(w.node, throws[0]['i']) for w in [sets[0], e])
        if ok:
            r.ok(dict(function=f.display(), event=ctx.desc(e.node), companion=ctx.desc(sets[0].node)), fn=f.display())
        else:
            r.fail(Finding('F-PAIR.S', f.display(), 'resize', f.nloc(e.node), why))
        self.R('F-PAIR.N').ok(None)

    # -------------------------------------------------------------------------------------------- mirror
    def check_mirror(self, ctx, A):
        """Match A-events of an undirected-family function into (primary, mirror) couples.
        Returns the set of mirror event nodes (which carry no N/L/T obligation)."""
        f = ctx.fn
        R = self.R('F-PAIR.M')
        mirrors = set()
        pushes = [e for e in A if e.kind == 'A.push']
        removes = [e for e in A if e.kind == 'A.removeAll']
        erases = [e for e in A if e.kind == 'A.eraseIt']
        used = set()
        # ---- push groups: over the order domain the group must insert {(x,y),(y,x)} for x!=y, {(x,x)} for x=y
        if pushes:
            R.sites += 1
            groups = {}
            for e in pushes:
                x, y = e.args
                key = frozenset([x, y])
                groups.setdefault(key, []).append(e)
            for key, es in groups.items():
                terms = sorted(key, key=repr)
                if len(terms) == 1:
                    a = b = terms[0]
                else:
                    a, b = terms
                base = None
                # common region: intersection of the regions; extra deps evaluated over the order domain
                common = frozenset.intersection(*[ctx.region(e.node) for e in es])
                okall = True
                detail = []
                for (va, vb) in ORDERINGS:
                    ins = []
                    for e in es:
                        extra = ctx.region(e.node) - common
                        fire = True
                        for dep in extra:
                            t, pol = ctx.dep_term(dep)
                            v = eval_order(t, {a: va, b: vb}) if t is not None else None
                            if v is None:
                                fire = None
                                break
                            if bool(v) != pol:
                                fire = False
                                break
                        if fire is None:
                            okall = None
                            break
                        if fire:
                            vx = va if e.args[0] == a else vb
                            vy = va if e.args[1] == a else vb
                            ins.append((vx, vy))
                    if okall is None:
                        break
                    want = sorted({(va, vb), (vb, va)})
                    if sorted(ins) != want:
                        okall = False
                        detail.append('ordering %s: inserts %s, expected %s' % (
                            {(0, 1): 'a<b', (1, 1): 'a=b', (1, 0): 'a>b'}[(va, vb)], sorted(ins), want))
                if okall is None:
                    R.broken('F-PAIR.M: cannot evaluate the guards of the insertion group in %s' % f.display())
                elif okall:
                    R.ok(dict(function=f.display(), group=[ctx.desc(e.node) for e in es],
                              verdict='inserts {(x,y),(y,x)} for x!=y and {(x,x)} for x=y') if len(R.samples) < 6 else None,
                         fn=f.display())
                else:
                    R.fail(Finding('F-PAIR.M', f.display(), 'insertion group', f.nloc(es[0].node),
                                   'the half-edges pushed for one undirected insertion are not {(x,y),(y,x)} / {(x,x)}: '
                                   + '; '.join(detail)))
                # the conditional pushes of the group are mirrors: the push in the common region is the primary
                prim = [e for e in es if ctx.region(e.node) == common]
                if prim:
                    for e in es:
                        if e is not prim[0]:
                            mirrors.add(e.node)
        # ---- removeAll couples
        for e in removes:
            if e.node in used:
                continue
            x, y = e.args
            partner = [p for p in removes if p is not e and p.node not in used and p.args == (y, x)]
            R.sites += 1
            if x == y:
                R.ok(None)
                continue
            if partner:
                p = partner[0]
                # primary = the one whose removed count feeds N; the other may sit under `removed > 0`
                first, second = (e, p) if f.can_reach(e.node, p.node) else (p, e)
                extra_c, extra_e = ctx.region_diff(second.node, first.node)
                ok, notes = _benign_extra(ctx, extra_c, first)
                if ok and not extra_e:
                    R.ok(dict(function=f.display(), primary=ctx.desc(first.node), mirror=ctx.desc(second.node), guards=notes)
                         if len(R.samples) < 10 else None, fn=f.display())
                    mirrors.add(second.node)
                    used.add(first.node)
                    used.add(second.node)
                    continue
            # mirror of a single-form erase?  handled below
            cand = [q for q in erases if q.args[0] == y]
            if cand:
                continue
            R.fail(Finding('F-PAIR.M', f.display(), 'removeAll(%s,%s) without mirror' % (show(x, f.unit), show(y, f.unit)),
                           f.nloc(e.node), 'one half-edge is removed but the mirror half-edge (%s,%s) is not removed in the '
                           'same control region: hasEdge stops being symmetric' % (show(y, f.unit), show(x, f.unit))))
            used.add(e.node)
        # ---- eraseIt: single (mirror removeAll under x != y), bulk, dedupe
        for e in erases:
            R.sites += 1
            x = e.args[0]
            cur = _erase_cursor(e)
            y = ctx.norm(('deref', cur), e.node)
            dedupe = _dedupe_context(ctx, e)
            bulk = len(_is_full_vertex_loop(ctx, e.node)) >= 1 and _list_loop_of(ctx, e) is not None and \
                x == ('var', _is_full_vertex_loop(ctx, e.node)[-1][1])
            if dedupe and bulk:
                R.ok(dict(function=f.display(), event=ctx.desc(e.node), form='dedupe (bulk loops visit both halves; every '
                          'insertion group pushes both, so both halves carry the same surplus)') if len(R.samples) < 10 else None,
                     fn=f.display())
                continue
            if bulk:
                # removal condition symmetric under swapping (i, *j)
                conds = []
                loopreg = self._loop_region(ctx, _list_loop_of(ctx, e))
                lw = _list_loop_of(ctx, e)
                inner = ctx.region(e.node)
                # dependences introduced inside the list loop body
                lwpos = f.cfg_pos(f.nodes[lw]['cond'])
                body_deps = [d for d in inner if d[0] != (lwpos[0] if lwpos else -1) and
                             f.cfg_pos(f.branch_atom(d[0])) is not None and
                             f.branch_atom(d[0]) in set(f.descendants(f.nodes[lw]['body']))]
                a, b = x, ('deref', cur)

                def removed(va, vb, third):
                    # does the erase execute for the half-edge (i=va, *j=vb) when the named vertex equals `third`?
                    # evaluate the path condition as the disjunction of its chains: here simply evaluate each
                    # dependence; a disjunction contributes both polarities of its first atom, so use reachability:
                    return self._eval_region(ctx, e.node, body_deps, {a: va, b: vb}, third)
                sym = True
                named = self._named_vertex(ctx, body_deps, a, b)
                if named is None:
                    sym = None
                else:
                    for (va, vb) in [(0, 1), (1, 0), (1, 1), (0, 2), (2, 0), (2, 2)]:
                        for nv in (0, 1, 2):
                            r1 = self._eval_cond_paths(ctx, e.node, lw, {a: va, b: vb, named: nv})
                            r2 = self._eval_cond_paths(ctx, e.node, lw, {a: vb, b: va, named: nv})
                            if r1 is None or r2 is None:
                                sym = None
                            elif r1 != r2:
                                sym = False
                if sym:
                    R.ok(dict(function=f.display(), event=ctx.desc(e.node), form='bulk',
                              verdict='removal condition symmetric in (i,*j)') if len(R.samples) < 10 else None, fn=f.display())
                elif sym is None:
                    R.broken('F-PAIR.M: removal condition of the bulk erase in %s (%s) cannot be evaluated over the '
                             'order domain' % (f.display(), f.nloc(e.node)))
                else:
                    R.fail(Finding('F-PAIR.M', f.display(), 'bulk erase condition', f.nloc(e.node),
                                   'the condition under which half-edge (i,*j) is erased is not symmetric under swapping '
                                   'i and *j: one half of a pair can survive the other'))
                continue
            # single form: a mirrored removeAll(y, x) under x != y
            part = [p for p in removes if p.args == (y, x) and p.node not in used]
            ok = False
            if part:
                p = part[0]
                extra_c, extra_e = ctx.region_diff(p.node, e.node)
                if not extra_e:
                    okc = True
                    for dep in extra_c:
                        t, pol = ctx.dep_term(dep)
                        tn = ctx.norm(t, e.node) if t is not None else None
                        vals = [eval_order(tn, {x: va, y: vb}) for (va, vb) in ORDERINGS] if tn is not None else [None]
                        # must be true exactly when x != y
                        if vals != [pol, (not pol), pol]:
                            okc = False
                    if okc:
                        ok = True
                        mirrors.add(p.node)
                        used.add(p.node)
            if ok:
                R.ok(dict(function=f.display(), event=ctx.desc(e.node), form='single', mirror=ctx.desc(part[0].node))
                     if len(R.samples) < 10 else None, fn=f.display())
            elif e.extra.get('conditional') or any(ev2.extra.get('conditional') for ev2 in ctx.ev.events):
                R.obligations += 1
                R.broken('F-PAIR.M: erase(%s,%s) in %s happens inside a helper under a condition the helper receives from its caller '
                         '(callback): the erase form (single / bulk / dedupe) cannot be decided' % (show(x, f.unit), show(y, f.unit), f.display()))
            else:
                R.fail(Finding('F-PAIR.M', f.display(), 'erase(%s,%s) without mirror' % (show(x, f.unit), show(y, f.unit)),
                               f.nloc(e.node), 'a half-edge is erased (single form) without a mirrored removal of (%s,%s) '
                               'guarded by %s != %s in the same control region' % (
                                   show(y, f.unit), show(x, f.unit), show(x, f.unit), show(y, f.unit))))
        return mirrors

    def _named_vertex(self, ctx, deps, a, b):
        """the third vertex term (e.g. parameter `vertex`) the bulk removal condition mentions"""
        named = set()
        for dep in deps:
            t, pol = ctx.dep_term(dep)
            if t is None:
                return None
            for st in subterms(t):
                if st[0] == 'var' and st != a and st != b and not (b[0] == 'deref' and st == b[1]):
                    named.add(st)
        if len(named) == 1:
            return named.pop()
        if not named:
            return ('none',)
        return None

    def _eval_cond_paths(self, ctx, target, loopnode, env):
        """Walk the CFG from the head of the list loop body to `target`, following branches whose atoms
        evaluate under env; returns True if target is reached, False if not, None if undecidable."""
        f = ctx.fn
        body = f.nodes[loopnode]['body']
        start = None
        # first block of the body: successor 0 of the loop condition block
        cpos = f.cfg_pos(f.nodes[loopnode]['cond'])
        if cpos is None:
            return None
        blk = f.blocks[cpos[0]]
        # the terminator block of the loop condition
        cur = None
        for bid, b in f.blocks.items():
            if b.term == loopnode:
                cur = b.succs[0]
        if cur is None:
            return None
        tpos = f.cfg_pos(target)
        seen = 0
        while seen < 100:
            seen += 1
            if cur == tpos[0]:
                return True
            b = f.blocks[cur]
            succs = [s for s in b.succs if s >= 0]
            if len(b.succs) <= 1:
                if not succs:
                    return False
                cur = succs[0]
                if any(bb.term == loopnode and bb.id == cur for bb in f.blocks.values()):
                    return False
                continue
            a = f.branch_atom(cur)
            if a is None:
                return None
            v = eval_order(ctx.resolve(ctx.tt.t(a)), env)
            if v is None:
                return None
            cur = b.succs[0] if v else b.succs[1]
            if cur < 0:
                return False
            if any(bb.term == loopnode and bb.id == cur for bb in f.blocks.values()):
                return False
        return None

    def _eval_region(self, *a):
        return None

    # -------------------------------------------------------------------------------------------- label overwrites
    def check_label_writes(self, ctx):
        """L.addAssign / L.subAssign / overwrite through the store: pairing with T; label sets outside an
        insertion must be in a designated setter."""
        f = ctx.fn
        if not ctx.labelled:
            return
        pushes = [e for e in ctx.ev.events if e.kind == 'A.push']
        for c in ctx.ev.events:
            if c.kind in ('L.addAssign', 'L.subAssign'):
                if not ctx.has_total:
                    continue
                self.R('F-PAIR.T').sites += 1
                want = 'T.add' if c.kind == 'L.addAssign' else 'T.sub'
                good = [t for t in self.companions(ctx, want)
                        if strip_cast(t.args[0]) == strip_cast(c.args[1]) and ctx.region(t.node) == ctx.region(c.node)]
                if not good and c.kind == 'L.addAssign':
                    jt = self._joined_total(ctx, c.node, c.args[1])
                    good = [jt] if jt is not None else []
                if len(good) == 1:
                    self.ok('F-PAIR.T', ctx, dict(function=f.display(), event=ctx.desc(c.node), companion=ctx.desc(good[0].node)))
                else:
                    self.fail('F-PAIR.T', ctx, '%s <-> total' % c.kind, c.node,
                              'a stored multiplicity/weight is changed by an amount that is not applied to the running '
                              'total in the same control region')
            elif c.kind == 'L.set':
                paired = any(ctx.region(p.node) >= ctx.region(c.node) or ctx.region(c.node) >= ctx.region(p.node)
                             for p in pushes) and pushes
                if paired:
                    continue
                # overwrite of an existing label
                if ctx.has_total:
                    self.R('F-PAIR.T').sites += 1
                    k = ctx.key_of(c.args[0], c.node)
                    good = []
                    for t in self.companions(ctx, 'T.add'):
                        d = strip_cast(t.args[0])
                        if d[0] == 'bin' and d[1] == '-' and strip_cast(d[2]) == strip_cast(c.args[1]):
                            old = ctx.label_read(strip_cast(d[3]), t.node)
                            if ctx.same_key(old, k) or (old and k and old.a == k.a and old.b == k.b):
                                if ctx.region(t.node) == ctx.region(c.node) and f.node_dominates(t.node, c.node):
                                    good.append(t)
                    if not good:
                        adds = [t for t in self.companions(ctx, 'T.add') if strip_cast(t.args[0]) == strip_cast(c.args[1]) and
                                ctx.region(t.node) == ctx.region(c.node)]
                        subs = []
                        for t in self.companions(ctx, 'T.sub'):
                            old = ctx.label_read(strip_cast(t.args[0]), t.node)
                            if (ctx.same_key(old, k) or (old and k and old.a == k.a and old.b == k.b)) and \
                                    ctx.region(t.node) == ctx.region(c.node) and f.can_reach_forward(t.node, c.node):
                                subs.append(t)
                        if len(adds) == 1 and len(subs) == 1:
                            good = [adds[0]]
                    if len(good) == 1:
                        self.ok('F-PAIR.T', ctx, dict(function=f.display(), event=ctx.desc(c.node),
                                                      companion=ctx.desc(good[0].node), form='overwrite: total += new - old, old read first'))
                    else:
                        self.fail('F-PAIR.T', ctx, 'overwrite <-> total += new - old', c.node,
                                  'a stored label is overwritten but the running total is not adjusted by (new - old) '
                                  'with the old value read before the overwrite, in the same control region')

    # -------------------------------------------------------------------------------------------- calls into a base class
    def _call_label_arg(self, ctx, nid, g):
        """the argument of a call to a base insertion that becomes the stored label (None if not identifiable)"""
        f = ctx.fn
        args = [ctx.tt.t(a) for a in f.nodes[nid].get('args', [])]
        gctx = Ctx(self.m, g)
        lp = None
        for ls in self.label_sets(gctx):
            v = ls['value']
            if v[0] == 'var' and v[1] in g.params:
                lp = g.params.index(v[1])
        if lp is None or lp >= len(args):
            return None
        return args[lp]

    def _label_deltas(self, ctx):
        """[(node, amount)] events that add `amount` to the stored label of a pair: `store[k] += m` and calls of a base
        insertion with label argument m"""
        f = ctx.fn
        out = []
        for c in ctx.ev.events:
            if c.kind == 'L.addAssign':
                out.append((c.node, strip_cast(c.args[1])))
        for nid, g in self.m.callees(f):
            n = f.nodes[nid]
            if n['k'] != 'CXXMemberCallExpr' or g.is_const or g.record not in (LDG, LUG) or ctx.tt.t(n.get('obj', -1)) != ('this',):
                continue
            kinds = summary_of(self.m, g).kinds
            if 'A.push' in kinds and not any(k.startswith(('A.remove', 'A.erase', 'A.clear')) for k in kinds):
                lab = self._call_label_arg(ctx, nid, g)
                if lab is not None:
                    out.append((nid, strip_cast(lab)))
        return out

    def _joined_total(self, ctx, nid, amount):
        """`if (c) {A: label += m} else {B: label += m}  total += m;` - the update of the total written once after the arms of
        a branch, each of which changes a stored label by the same amount: every path that reaches the update passes through
        exactly one of those changes.  Returns the T.add event or None."""
        f = ctx.fn
        amount = strip_cast(amount)
        deltas = [n2 for (n2, a2) in self._label_deltas(ctx) if a2 == amount]
        if nid not in deltas:
            return None
        for t in self.companions(ctx, 'T.add'):
            if strip_cast(t.args[0]) != amount or not f.can_reach_forward(nid, t.node):
                continue
            if not (ctx.region(t.node) < ctx.region(nid)):
                continue
            tpos = f.cfg_pos(t.node)
            dpos = {f.cfg_pos(d): d for d in deltas if f.cfg_pos(d) is not None}
            if tpos is None:
                continue
            ok = True
            seen = set()
            work = [(f.entry, 0, ())]
            steps = 0
            while work and ok:
                blk, cnt, trail = work.pop()
                steps += 1
                if steps > 4000 or blk in trail:
                    ok = False      # (a cycle or too many paths: not this simple shape)
                    break
                b = f.blocks[blk]
                reached = False
                for ix in range(len(b.elems)):
                    if (blk, ix) in dpos:
                        cnt += 1
                    if (blk, ix) == tpos:
                        reached = True
                        break
                if reached:
                    if cnt != 1:
                        ok = False
                    continue
                if (blk, cnt) in seen:
                    continue
                seen.add((blk, cnt))
                for sx in b.succs:
                    if sx is not None and sx >= 0:
                        work.append((sx, cnt, trail + (blk,)))
            if ok:
                return t
        return None

    def check_calls(self, ctx):
        f = ctx.fn
        if not ctx.has_total:
            return
        for nid, g in self.m.callees(f):
            n = f.nodes[nid]
            if n['k'] != 'CXXMemberCallExpr' or g.is_const or g.record not in (LDG, LUG):
                continue
            if ctx.tt.t(n.get('obj', -1)) != ('this',):
                continue
            s = summary_of(self.m, g)
            if not s.writes:
                continue
            R = self.R('F-PAIR.T')
            R.sites += 1
            kinds = s.kinds
            args = [ctx.tt.t(a) for a in n.get('args', [])]
            if 'A.resize' in kinds and not (kinds - {'A.resize', 'S.set'}):
                R.ok(None)
                continue
            if not (kinds - {'L.set'}):
                R.sites -= 1
                continue      # pure label setter: handled as a label write (label_sets)
            if 'A.push' in kinds and not any(k.startswith(('A.remove', 'A.erase', 'A.clear')) for k in kinds):
                # label parameter of the callee: the value its label set stores
                gctx = Ctx(self.m, g)
                lp = None
                for ls in self.label_sets(gctx):
                    v = ls['value']
                    if v[0] == 'var' and v[1] in g.params:
                        lp = g.params.index(v[1])
                if lp is None or lp >= len(args):
                    R.broken('F-PAIR.T: cannot identify the label argument of %s called from %s' % (g.display(), f.display()))
                    continue
                lab = args[lp]
                good = [t for t in self.companions(ctx, 'T.add')
                        if strip_cast(t.args[0]) == strip_cast(lab) and ctx.region(t.node) == ctx.region(nid)]
                if not good:
                    jt = self._joined_total(ctx, nid, lab)
                    good = [jt] if jt is not None else []
                if len(good) == 1:
                    R.ok(dict(function=f.display(), event='call ' + ctx.desc(nid), companion=ctx.desc(good[0].node),
                              form='call-site pairing: base insertion <-> total += label argument'), fn=f.display())
                else:
                    self.fail('F-PAIR.T', ctx, 'call %s <-> total += label' % g.name, nid,
                              'the base-class insertion %s is called but the running total is not increased by the '
                              'label argument in the same control region' % g.display())
                continue
            if 'A.clear' in kinds and not any(k.startswith(('A.push', 'A.remove', 'A.erase')) for k in kinds):
                good = [t for t in self.companions(ctx, 'T.set')
                        if strip_cast(t.args[0]) in (('int', 0),) and ctx.region(t.node) == ctx.region(nid)]
                if len(good) == 1:
                    R.ok(dict(function=f.display(), event='call ' + ctx.desc(nid), companion=ctx.desc(good[0].node),
                              form='call-site pairing: base clear <-> total = 0'), fn=f.display())
                else:
                    self.fail('F-PAIR.T', ctx, 'call %s <-> total = 0' % g.name, nid,
                              'the base-class %s clears every edge but the running total is not reset to 0 in the same '
                              'control region' % g.display())
                continue
            self.fail('F-PAIR.T', ctx, 'call to base mutator %s' % g.name, nid,
                      'a class that maintains a running total calls the base-class mutator %s, which removes edges '
                      'without adjusting the total' % g.display())

    # -------------------------------------------------------------------------------------------- F-KEY
    def check_keys(self, ctx):
        f = ctx.fn
        R = self.R('F-KEY')
        sites = []
        for c in ctx.ev.events:
            if c.kind in ('L.set', 'L.addAssign', 'L.subAssign', 'L.erase', 'L.read', 'L.count', 'L.ref'):
                sites.append((c.node, c.args[0], c.kind))
        for n in f.nodes:
            if n['k'] == 'CXXMemberCallExpr' and 'callee' in n and ctx.tt.t(n.get('obj', -1)) == ('this',):
                cd = f.unit.decl(n['callee'])
                args = [ctx.tt.t(a) for a in n.get('args', [])]
                if cd['tname'] in (LDG + '::hasEdge', LDG + '::getEdgeLabel', LDG + '::setEdgeLabel',
                                   LDG + '::removeEdge') and len(args) >= 2:
                    sites.append((n['i'], ('pair', args[0], args[1]), 'Directed::' + cd['name']))
                elif cd['tname'] in ctx.m.label_helpers()[:2]:
                    sites.append((n['i'], args[0], 'Directed::' + cd['name']))
        seen = set()
        for nid, kt, what in sites:
            if nid in seen:
                continue
            seen.add(nid)
            R.sites += 1
            k = ctx.key_of(kt, nid)
            ok = False
            why = ''
            if k is not None and not k.ordered and all(
                    c[0] == 'member' and c[1][0] == 'var' for c in (k.a, k.b)) and k.a[1] == k.b[1] and \
                    k.a[2].endswith('::first') and k.b[2].endswith('::second'):
                kk = ctx.key_of(k.a[1], nid)
                if kk is not None and kk.ordered:
                    k = kk
            if k is None:
                # components of a local initialised from orderedEdge: {edge.first, edge.second}
                if kt[0] == 'pair' and all(c[0] == 'member' and c[1][0] == 'var' for c in (kt[1], kt[2])):
                    v1, v2 = kt[1][1], kt[2][1]
                    if v1 == v2 and kt[1][2].endswith('::first') and kt[2][2].endswith('::second'):
                        kk = ctx.key_of(v1, nid)
                        if kk is not None and kk.ordered:
                            ok = True
                if not ok:
                    R.broken('F-KEY: key expression `%s` at %s in %s is in a form the rule cannot relate to orderedEdge'
                             % (f.expr_text(nid)[:60], f.nloc(nid), f.display()))
                    continue
            elif k.ordered or k.a == k.b:
                ok = True
            else:
                # dominating fact a <= b ?
                for dep in ctx.region(nid):
                    t, pol = ctx.dep_term(dep)
                    if t is None:
                        continue
                    vals = [eval_order(t, {k.a: va, k.b: vb}) for (va, vb) in ORDERINGS]
                    if None in vals:
                        continue
                    # the guard (with its polarity) excludes a > b
                    if bool(vals[2]) != pol:
                        ok = True
            if ok:
                R.ok(dict(function=f.display(), access=what, at=f.nloc(nid), key=f.expr_text(nid)[:60])
                     if len(R.samples) < 10 else None, fn=f.display())
            else:
                R.fail(Finding('F-KEY', f.display(), '%s with raw key {%s,%s}' % (what, show(k.a, f.unit), show(k.b, f.unit)),
                               f.nloc(nid),
                               'the label store of an undirected graph is accessed with the pair {%s,%s} built from raw '
                               'arguments instead of orderedEdge(..): for %s > %s a different (or new) entry is touched'
                               % (show(k.a, f.unit), show(k.b, f.unit), show(k.a, f.unit), show(k.b, f.unit))))


def strip_cast(t):
    while isinstance(t, tuple) and t and t[0] == 'cast':
        t = t[2]
    return t


_ENGINES = {}


def pair_engine(m, classes=None):
    k = (id(m), tuple(sorted(classes)) if classes else None)
    if k not in _ENGINES:
        _ENGINES[k] = PairEngine(m, classes)
    return _ENGINES[k]
