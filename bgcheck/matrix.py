"""C20 compile/link matrix: documented entry point x label kind x language standard x compiler,
header hygiene (alone, twice, any order) and multi-TU linkage (nm, ld -r, full link).

Compiling and linking only - nothing is executed."""
import os
import re
import shutil
import subprocess
import tempfile
from concurrent.futures import ThreadPoolExecutor

from . import witness
from .facts import INCLUDE, REPO, sh
from .report import Finding, RuleResult

QUICK_CONFIGS = [('clang++', 'c++17'), ('g++', 'c++14')]
THOROUGH_CONFIGS = [(c, s) for c in ('g++', 'clang++') for s in ('c++14', 'c++17', 'c++20')]


def _compile(compiler, std, src, obj=None, extra=()):
    cmd = [compiler, '-std=' + std, '-I' + INCLUDE, '-w', '-O0']
    if compiler == 'clang++':
        cmd.append('-ferror-limit=0')
    else:
        cmd.append('-fmax-errors=0')
    cmd += list(extra)
    if obj:
        cmd += ['-c', src, '-o', obj]
    else:
        cmd += ['-fsyntax-only', src]
    return sh(cmd)


def _first_error(stderr):
    m = re.search(r'^(.*?):(\d+):(?:\d+:)? (?:fatal )?error: (.*)$', stderr, re.M)
    if m:
        return '%s:%s' % (m.group(1), m.group(2)), m.group(3)
    return '?', (stderr.strip().splitlines() or ['compiler failed'])[0]


def _attribute(stderr, src, line_of):
    """cells mentioned by the diagnostics (any line of the witness file), with the error that
    precedes the mention."""
    bad = {}
    cur = None
    base = os.path.basename(src)
    for ln in stderr.splitlines():
        m = re.match(r'^(?:In file included from )?(.*?):(\d+):(?:(\d+):)?\s*(.*)$', ln)
        if not m:
            continue
        f, line, _col, rest = m.groups()
        em = re.match(r'(?:fatal )?error: (.*)', rest)
        if em:
            cur = ('%s:%s' % (f, line), em.group(1))
        if os.path.basename(f) == base and cur:
            c = line_of.get(int(line))
            if c is not None and c.id not in bad:
                bad[c.id] = cur
    return bad


def _isolate(tmp, compiler, std, kind, cells, tag):
    bad = {}

    def one(c):
        text, _ = witness.render_tu([c], kind)
        p = os.path.join(tmp, 'iso_%s_%s.cpp' % (tag, c.id))
        with open(p, 'w') as fh:
            fh.write(text)
        r = _compile(compiler, std, p)
        os.remove(p)
        if r.returncode != 0:
            return c.id, _first_error(r.stderr)
        return None
    with ThreadPoolExecutor(max_workers=16) as ex:
        for res in ex.map(one, cells):
            if res:
                bad[res[0]] = res[1]
    return bad


def compile_unit(tmp, name, kind, cells, compiler, std):
    """-> (ok cells, {cell id: (loc, msg)}, object path or None)"""
    tag = '%s_%s_%s' % (name, compiler.replace('+', 'p'), std.replace('+', 'p'))
    src = os.path.join(tmp, tag + '.cpp')
    obj = os.path.join(tmp, tag + '.o')
    cur = list(cells)
    failed = {}
    for attempt in range(5):
        text, line_of = witness.render_tu(cur, kind)
        with open(src, 'w') as fh:
            fh.write(text)
        r = _compile(compiler, std, src, obj)
        if r.returncode == 0:
            return cur, failed, obj
        bad = _attribute(r.stderr, src, line_of)
        if not bad:
            bad = _isolate(tmp, compiler, std, kind, cur, tag)
        if not bad:
            # the unit fails even with no cell to blame: headers / explicit instantiation broken
            failed['<unit %s>' % name] = _first_error(r.stderr)
            return [], failed, None
        failed.update(bad)
        cur = [c for c in cur if c.id not in bad]
    return cur, failed, None


def rule_matrix(tier):
    res = RuleResult('M-CELL', 'every documented entry point x label kind compiles under every compiler x standard')
    configs = QUICK_CONFIGS if tier == 'quick' else THOROUGH_CONFIGS
    tmp = tempfile.mkdtemp(prefix='bgcheck_matrix_')
    objs = {}
    try:
        us = witness.units()
        jobs = []
        with ThreadPoolExecutor(max_workers=16) as ex:
            for (comp, std) in configs:
                for name, (kind, cells) in us.items():
                    jobs.append((name, kind, cells, comp, std,
                                 ex.submit(compile_unit, tmp, name, kind, cells, comp, std)))
        per_cell = {}
        cellinfo = {}
        n_eval = 0
        for name, kind, cells, comp, std, fut in jobs:
            ok, failed, obj = fut.result()
            for c in cells:
                cellinfo[c.id] = (c, kind)
            cellinfo.setdefault('<unit %s>' % name, (witness.Cell('<unit %s>' % name, 'unit', 'explicit instantiation / headers of ' + name, ''), kind))
            n_eval += len(cells)
            for cid, (loc, msg) in failed.items():
                per_cell.setdefault(cid, []).append((comp, std, loc, msg))
            if obj:
                objs[(name, comp, std)] = obj
        res.sites = n_eval
        res.obligations = len(cellinfo) - sum(1 for k in cellinfo if k.startswith('<unit'))
        failed_cells = set(per_cell)
        res.discharged = res.obligations - len([c for c in failed_cells if not c.startswith('<unit')])
        for cid, fails in sorted(per_cell.items()):
            c, kind = cellinfo[cid]
            comp, std, loc, msg = fails[0]
            res.findings.append(Finding(
                'M-CELL', c.entry, 'cell %s' % cid, loc,
                'does not compile (%s): %s' % (', '.join('%s -std=%s' % (f[0], f[1]) for f in fails), msg[:300]),
                dict(cell=c.body, kind=kind, configs=[[f[0], f[1]] for f in fails])))
        for cid, (c, kind) in list(cellinfo.items())[:1]:
            pass
        some = [v for k, v in cellinfo.items() if not k.startswith('<unit')]
        for c, kind in some[:3] + some[len(some) // 2:len(some) // 2 + 3]:
            res.samples.append(dict(cell=c.id, entry=c.entry, kind=kind, code=' '.join(c.body.split())[:200],
                                    configs=['%s -std=%s' % x for x in configs]))
        res.notes.append('%d cells x %d configurations' % (res.obligations, len(configs)))
        res.extra = dict(cells=res.obligations, configs=['%s -std=%s' % x for x in configs])
        # ---- link facts on the objects (one config is enough for nm; ld -r for each config)
        lres = rule_link(tmp, objs, configs)
    finally:
        shutil.rmtree(tmp, ignore_errors=True)
    return [res, lres]


def rule_link(tmp, objs, configs):
    res = RuleResult('M-LINK', 'objects of several TUs that include every header contain no strong BaseGraph symbol '
                               'and link together (nm, ld -r, full link with a main)')
    for (comp, std) in configs:
        mine = [o for (n, c, s), o in objs.items() if c == comp and s == std]
        if len(mine) < 2:
            continue
        res.sites += 1
        strong = []
        for o in mine:
            r = sh(['nm', '-C', '--defined-only', o])
            for ln in r.stdout.splitlines():
                parts = ln.split(None, 2)
                if len(parts) == 3 and parts[1] in 'TDBRCGS' and 'BaseGraph::' in parts[2]:
                    strong.append((os.path.basename(o), parts[1], parts[2]))
        if strong:
            names = sorted({s[2] for s in strong})
            for nm in names[:10]:
                res.fail(Finding('M-LINK', nm, 'strong symbol', 'object %s' % strong[0][0],
                                 'namespace-scope definition with external strong linkage in a header (%s -std=%s): '
                                 'two TUs including the header cannot be linked' % (comp, std)))
        else:
            res.ok(dict(config='%s -std=%s' % (comp, std), objects=len(mine), strong_basegraph_symbols=0))
        # cells all have distinct names across units, so the objects can be linked into one program
        mainsrc = os.path.join(tmp, 'main_%s_%s.cpp' % (comp.replace('+', 'p'), std.replace('+', 'p')))
        with open(mainsrc, 'w') as fh:
            fh.write('int main() { return 0; }\n')
        exe = mainsrc[:-4] + '.bin'
        r = sh([comp, '-std=' + std, mainsrc] + mine + ['-o', exe])
        if r.returncode != 0:
            m = re.search(r'multiple definition of [`\'](.*?)\'', r.stderr)
            res.fail(Finding('M-LINK', m.group(1) if m else 'link', 'full link', 'link of %d objects' % len(mine),
                             'linking %d translation units that include all headers fails (%s -std=%s): %s'
                             % (len(mine), comp, std, (r.stderr.strip().splitlines() or ['?'])[0][:300])))
        else:
            res.ok(dict(config='%s -std=%s' % (comp, std), linked_objects=len(mine)))
        if os.path.exists(exe):
            os.remove(exe)
    if res.sites == 0:
        res.broken('M-LINK: no configuration produced two objects to link')
    return res


def rule_hygiene(tier):
    res = RuleResult('M-HYG', 'every header compiles alone, included twice, and all headers in forward and reverse '
                              'order (twice)')
    configs = QUICK_CONFIGS if tier == 'quick' else THOROUGH_CONFIGS
    tmp = tempfile.mkdtemp(prefix='bgcheck_hyg_')
    headers = sorted(
        os.path.relpath(os.path.join(dp, f), INCLUDE)
        for dp, dn, fn in os.walk(INCLUDE) for f in fn if f.endswith(('.h', '.hpp')))
    try:
        tus = []
        for h in headers:
            tus.append(('alone:' + h, '#include "%s"\n' % h, h))
            tus.append(('twice:' + h, '#include "%s"\n#include "%s"\n' % (h, h), h))
        fwd = ''.join('#include "%s"\n' % h for h in headers)
        rev = ''.join('#include "%s"\n' % h for h in reversed(headers))
        tus.append(('all-forward-twice', fwd + fwd, None))
        tus.append(('all-reverse-twice', rev + rev, None))
        tus.append(('forward-then-reverse', fwd + rev, None))

        def one(job):
            (tag, text, h), (comp, std) = job
            p = os.path.join(tmp, re.sub(r'[^A-Za-z0-9]+', '_', tag + comp + std) + '.cpp')
            with open(p, 'w') as fh:
                fh.write(text)
            r = _compile(comp, std, p)
            return tag, h, comp, std, r.returncode, r.stderr
        jobs = [(t, c) for t in tus for c in configs]
        fails = {}
        with ThreadPoolExecutor(max_workers=16) as ex:
            for tag, h, comp, std, rc, err in ex.map(one, jobs):
                res.sites += 1
                if rc != 0:
                    fails.setdefault(tag, []).append((comp, std, _first_error(err), h))
        for t in tus:
            tag = t[0]
            if tag in fails:
                comp, std, (loc, msg), h = fails[tag][0]
                res.fail(Finding('M-HYG', h or 'all headers', tag.split(':')[0], loc,
                                 'header hygiene TU "%s" does not compile (%s): %s' % (
                                     tag, ', '.join('%s -std=%s' % (f[0], f[1]) for f in fails[tag]), msg[:300])))
            else:
                res.ok(dict(tu=tag, configs=len(configs)) if len(res.samples) < 4 else None)
        # examples shipped with the repository
        exdir = os.path.join(REPO, 'examples')
        if os.path.isdir(exdir):
            for f in sorted(os.listdir(exdir)):
                if f.endswith('.cpp'):
                    for comp, std in configs:
                        res.sites += 1
                        r = _compile(comp, std, os.path.join(exdir, f))
                        if r.returncode != 0:
                            loc, msg = _first_error(r.stderr)
                            res.fail(Finding('M-HYG', 'examples/' + f, 'example', loc,
                                             'shipped example does not compile (%s -std=%s): %s' % (comp, std, msg[:300])))
                            break
                    else:
                        res.ok(dict(example=f))
    finally:
        shutil.rmtree(tmp, ignore_errors=True)
    res.require_sites(20, 'hygiene translation units')
    return res
