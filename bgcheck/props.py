"""Property table: which rules decide which property, at which level, with which trusted base."""
import json
import os
import time

from . import facts, matrix, rules_decl, rules_val, rules_pair, rules_struct, rules_wl, rules_io, rules_ts, rules_xport
from .model import LDG, LUG, DMG, UMG, DWG, UWG
from .model import Model
from .report import EVIDENCE, Finding, RuleResult, finish

STDS = {'quick': ('gnu++17',), 'thorough': ('gnu++17', 'gnu++14', 'gnu++20')}

_model_cache = {}


def model(tier, std=None):
    stds = STDS[tier]
    key = (stds, std)
    if key not in _model_cache:
        if stds not in _program_cache:
            _program_cache[stds] = facts.load_program(stds)
        _model_cache[key] = Model(_program_cache[stds], std)
    return _model_cache[key]


_program_cache = {}


def dropped_cells_result(m, families=None, rule='WITNESS'):
    """Cells of the witness table that do not compile: the functions they would instantiate cannot be
    analysed.  For C20/C09 that *is* the violation; for other properties the affected entry points are
    reported as not analysable only if the property needs them."""
    res = RuleResult(rule, 'witness cells (documented call forms) that the extractor could compile')
    seen = set()
    for name, std, cell, err in m.p.dropped:
        if cell is None or (families and cell.family not in families):
            continue
        if cell.id in seen:
            continue
        seen.add(cell.id)
        loc = err.split(': ')[0]
        res.fail(Finding(rule, cell.entry, 'cell %s' % cell.id, loc,
                         'documented call form does not compile: %s' % err[:300], dict(code=cell.body)))
    return res


# ------------------------------------------------------------------------------------------------
def c18(m, tier):
    return [rules_decl.rule_pure(m), rules_decl.rule_const_closure(m), rules_io.rule_open(m)]


def c20(m, tier):
    out = []
    out.extend(matrix.rule_matrix(tier))
    out.append(matrix.rule_hygiene(tier))
    out.append(rules_decl.rule_guard(m))
    out.append(rules_decl.rule_odr(m))
    cov = rules_decl.rule_coverage(m)
    # an entry point that exists in the headers but has no cell in the witness table escapes the matrix
    cells_failed = any(r.rule == 'M-CELL' and r.findings for r in out)
    for name, where in cov.uncovered:
        if cells_failed:
            cov.notes.append('not instantiated (its witness cells do not compile, reported by M-CELL): %s' % name)
            continue
        cov.broken('witness table incomplete: no analysed instantiation of %s (%s)' % (name, where))
    out.append(cov)
    return out


_val_engines = {}


def val_engine(m):
    if id(m) not in _val_engines:
        _val_engines[id(m)] = rules_val.ValEngine(m)
    return _val_engines[id(m)]


def c07(m, tier):
    eng = val_engine(m)
    # `getEdgeLabel on a missing edge throws in every reachable state` needs the label of a removed edge to be gone: the
    # existence test of the label accessor is the store itself
    return _pair(m, None, ['F-PAIR.L'], {'F-PAIR.L': 30}) + [rules_val.rule_val(m, eng), rules_val.rule_sanitizer(m, eng), rules_val.rule_throw_before_write(m),
            rules_val.rule_getlabel(m), rules_decl.rule_throw(m), rules_struct.rule_label_writes(m), rules_decl.rule_defaults(m), rules_ts.rule_cursor_direction(m),
            rules_val.rule_invented_index(m), rules_decl.rule_noexcept(m), rules_ts.rule_string_plus_int(m)]


def _pair(m, classes, rules, minimum):
    e = rules_pair.pair_engine(m, classes)
    out = [e.results[r] for r in rules] + [e.results['F-PAIR.U']]
    for r in out:
        if r.rule in minimum:
            r.require_sites(minimum[r.rule], 'sites')
    return out


def guarded(rule, descr, fn):
    """run one rule; an AnalysisBroken inside it becomes an inconclusive result of that rule instead of ending the whole check
    (so that the rule which names the cause - e.g. D-REC for a recursive helper - still reports)"""
    from .ir import AnalysisBroken
    from .report import RuleResult
    try:
        return fn()
    except AnalysisBroken as e:
        r = RuleResult(rule, descr)
        r.sites += 1
        r.broken('%s: %s' % (rule, e))
        return r


def only_functions(res, prefixes):
    """restrict a result to findings in functions of the given classes (the counts keep describing the whole rule)"""
    res.findings = [f for f in res.findings if f.function.startswith(tuple(prefixes))]
    if hasattr(res, 'inconclusive'):
        res.inconclusive = [w for w in res.inconclusive if any(p in w for p in prefixes)]
    return res


def c01(m, tier):
    return _pair(m, [LDG], ['F-PAIR.N', 'F-PAIR.S'], {'F-PAIR.N': 15, 'F-PAIR.S': 2}) + [
        rules_struct.rule_insertion_guard(m), rules_struct.rule_hasedge(m), rules_struct.rule_full_loops(m, [LDG]),
        rules_struct.rule_observers(m), rules_decl.rule_encapsulation(m), rules_struct.rule_bulk_complete(m),
        rules_struct.rule_forwarding(m), rules_struct.rule_observer_loops(m), rules_decl.rule_defaults(m), rules_ts.rule_cursor_direction(m),
        rules_xport.rule_idx(m), only_functions(rules_xport.rule_xport(m), ['LabeledDirectedGraph']), rules_ts.rule_shift_width(m)]


def c02(m, tier):
    return _pair(m, [LUG], ['F-PAIR.M', 'F-PAIR.N', 'F-KEY'], {'F-PAIR.M': 10, 'F-PAIR.N': 10, 'F-KEY': 7}) + [
        rules_struct.rule_ordered_edge(m), rules_struct.rule_selfloop_convention(m), rules_struct.rule_insertion_guard(m),
        rules_struct.rule_hasedge(m), rules_struct.rule_full_loops(m, [LUG]), rules_struct.rule_observers(m),
        rules_decl.rule_encapsulation(m), rules_struct.rule_bulk_complete(m), rules_struct.rule_observer_loops(m), rules_decl.rule_defaults(m), rules_ts.rule_cursor_direction(m),
        rules_xport.rule_idx(m),
        # the edge-sequence constructors and the conversion from a directed graph are insertions too (unforced, both halves)
        only_functions(rules_xport.rule_xport(m), ['LabeledUndirectedGraph']), rules_ts.rule_shift_width(m)]


def c03(m, tier):
    return _pair(m, None, ['F-PAIR.L', 'F-KEY'], {'F-PAIR.L': 30, 'F-KEY': 15}) + [
        rules_struct.rule_label_writes(m, coherent_store=True), rules_val.rule_getlabel(m), rules_struct.rule_hasedge(m),
        rules_struct.rule_insertion_guard(m), rules_struct.rule_label_subscripts(m), rules_struct.rule_bulk_complete(m),
        rules_struct.rule_full_loops(m, [LDG, LUG]), rules_decl.rule_defaults(m), rules_ts.rule_cursor_direction(m),
        rules_decl.rule_encapsulation(m)]


def c04(m, tier):
    return _pair(m, [DMG, UMG, LDG, LUG], ['F-PAIR.N', 'F-PAIR.L', 'F-PAIR.T', 'F-PAIR.M', 'F-KEY'],
                 {'F-PAIR.N': 20, 'F-PAIR.L': 15, 'F-PAIR.T': 10, 'F-PAIR.M': 10, 'F-KEY': 10}) + [
        rules_struct.rule_positive_multiplicity(m), rules_struct.rule_insertion_guard(m),
        rules_struct.rule_observers(m), rules_struct.rule_selfloop_convention(m), rules_struct.rule_label_writes(m),
        rules_struct.rule_bulk_complete(m), rules_struct.rule_setters(m),
        rules_struct.rule_forwarding(m), rules_struct.rule_observer_loops(m), rules_struct.rule_full_loops(m, [DMG, UMG]), rules_decl.rule_defaults(m), rules_ts.rule_cursor_direction(m),
        rules_ts.rule_accumulator_width(m)]


def c05(m, tier):
    return _pair(m, [DWG, UWG, LDG, LUG], ['F-PAIR.T', 'F-PAIR.L', 'F-PAIR.N', 'F-PAIR.M', 'F-KEY'],
                 {'F-PAIR.T': 6, 'F-PAIR.L': 15, 'F-PAIR.N': 20, 'F-KEY': 7}) + [
        rules_struct.rule_insertion_guard(m), rules_struct.rule_observers(m), rules_struct.rule_label_writes(m),
        rules_decl.rule_encapsulation(m), rules_val.rule_getlabel(m), rules_struct.rule_bulk_complete(m),
        rules_struct.rule_setters(m), rules_struct.rule_label_subscripts(m), rules_struct.rule_forwarding(m),
        rules_struct.rule_observer_loops(m), rules_struct.rule_full_loops(m, [DWG, UWG]), rules_decl.rule_defaults(m), rules_ts.rule_cursor_direction(m),
        rules_decl.rule_sibling_totals(m), rules_ts.rule_accumulator_width(m)]


def c06(m, tier):
    return [rules_struct.rule_equality(m)] + _pair(
        m, None, ['F-PAIR.L', 'F-PAIR.N', 'F-PAIR.S', 'F-KEY'], {'F-PAIR.L': 30, 'F-PAIR.N': 40, 'F-KEY': 15}) + [
        rules_decl.rule_valsem(m), rules_struct.rule_label_writes(m, coherent_store=True), rules_struct.rule_label_subscripts(m),
        rules_ts.rule_cursor_direction(m)]


def c16(m, tier):
    return [rules_struct.rule_insertion_guard(m)] + _pair(
        m, None, ['F-PAIR.N', 'F-PAIR.T', 'F-PAIR.M', 'F-PAIR.L'],
        {'F-PAIR.N': 40, 'F-PAIR.T': 17, 'F-PAIR.M': 15, 'F-PAIR.L': 30}) + [rules_ts.rule_sorted_range(m), rules_decl.rule_defaults(m), rules_ts.rule_cursor_direction(m),
         rules_struct.rule_selfloop_convention(m), rules_struct.rule_forwarding(m), rules_ts.rule_accumulator_width(m),
         rules_struct.rule_full_loops(m), rules_ts.rule_shift_width(m)]


def c08(m, tier):
    return [rules_xport.rule_idx(m), rules_struct.rule_full_loops(m), rules_ts.rule_typestate(m), rules_ts.rule_cursor_direction(m),
            rules_decl.rule_encapsulation(m),       # (which edges() / begin() / end() each of the eight classes publishes)
            # conversions are defined by enumerating edges: every edge of the source, once
            only_functions(rules_xport.rule_xport(m), ['LabeledUndirectedGraph', 'LabeledDirectedGraph'])]


def c09(m, tier):
    return [rules_xport.rule_xport(m), dropped_cells_result(m, {'ctor', 'conv', 'copy'}), rules_decl.rule_valsem(m),
            rules_struct.rule_nolabel_store(m)]


def c10(m, tier):
    return [rules_xport.rule_xport(m), rules_val.rule_val(m, val_engine(m)), dropped_cells_result(m, {'sub'}), rules_val.rule_invented_index(m),
            rules_decl.rule_valsem(m), rules_ts.rule_shift_width(m)]


def _names(m):
    r = rules_io.rule_name_table(m)
    r.require_sites(10, 'name-table stores')
    return r


def c13(m, tier):
    return [rules_io.rule_schema_text(m), rules_io.rule_tokeniser_schema(m), rules_io.rule_open(m), rules_io.rule_grow(m, 'text'),
            dropped_cells_result(m, {'io.text'}), only_functions(rules_decl.rule_pure(m), ['io::']), _names(m)]


def c14(m, tier):
    out = [rules_io.rule_schema_binary(m), rules_io.rule_open(m), rules_io.rule_grow(m, 'binary'), rules_decl.rule_throw(m),
           dropped_cells_result(m, {'io.bin'}), rules_io.rule_checked_read(m), rules_io.rule_index_width(m)]
    if tier == 'thorough':
        out.append(rules_io.rule_endian_ir())
    return out


def c15(m, tier):
    return [rules_io.rule_checked_read(m), rules_io.rule_wrap(m), rules_io.rule_sign(m), rules_io.rule_grow(m, 'text'),
            rules_io.rule_tokeniser_access(m), rules_decl.rule_throw(m), rules_val.rule_val(m, val_engine(m)), rules_decl.rule_noexcept(m)]


def c17(m, tier):
    wl, bound, heap = rules_wl.run_searches(m, {'S-LC'})
    heap.require_sites(3, 'heap facts')
    return [rules_ts.rule_typestate(m), heap, rules_io.rule_checked_read(m), rules_val.rule_val(m, val_engine(m)),
            rules_xport.rule_idx(m), rules_io.rule_wrap(m), rules_io.rule_tokeniser_access(m), rules_decl.rule_init(m), rules_ts.rule_signed_arith(m), rules_ts.rule_sorted_range(m), rules_ts.rule_cursor_direction(m), rules_io.rule_grow(m, 'text'), rules_ts.rule_cursor_live(m),
            rules_ts.rule_accumulator_width(m), rules_ts.rule_string_plus_int(m), rules_decl.rule_no_recursion(m), rules_ts.rule_shift_width(m), rules_ts.rule_second_range(m)]


def c11(m, tier):
    wl, bound, heap = rules_wl.run_searches(m, {'S-BFS', 'S-BFS-ALL'})
    wl.require_sites(50, 'schema facts')
    return [wl, rules_wl.rule_wrappers(m), rules_wl.rule_enumpaths(m), rules_struct.rule_forwarding(m),
            guarded('F-VAL', 'validated vertex arguments', lambda: rules_val.rule_val(m, val_engine(m))),
            rules_decl.rule_no_recursion(m), _orient(m, ('S-BFS', 'S-BFS-ALL'), 20)]


def _orient(m, which, minimum):
    r = rules_wl.rule_pred_orientation(m, which)
    r.require_sites(minimum, 'predecessor stores inside a neighbour enumeration')
    return r


def c12(m, tier):
    wl, bound, heap = rules_wl.run_searches(m, {'S-LC'})
    wl.require_sites(10, 'schema facts')
    # heap discipline is not needed for the distances of a label-correcting search (any removal order is correct);
    # it is decided under C17 (library precondition) and C19 (work bound)
    return [wl, heap.top, _orient(m, ('S-LC',), 2)]


def c19(m, tier):
    wl, bound, heap = rules_wl.run_searches(m, {'S-BFS', 'S-BFS-ALL', 'S-LC'})
    bound.require_sites(30, 'counting facts')
    heap.require_sites(3, 'heap facts')
    return [bound, heap, rules_decl.rule_no_recursion(m)]


_WL_TB = ['the textbook theorems for the schemas (BFS computes hop distances and parents; label-correcting search with '
          'strict relaxation terminates with exact distances for non-negative weights; insert-once implies at most V '
          'scans; minimum-first removal implies every vertex is final at its first removal)', 'completeness of the '
          'schema fact list in bgcheck/rules_wl.py', 'bgx / clang CFG']

_STRUCT_TB = ['clang CFG and post-dominator based control dependence', 'bgx', 'the event vocabulary and benign-guard '
              'table of bgcheck/rules_pair.py', 'std::list / std::unordered_map member semantics (remove, erase, clear, '
              'operator[])']

PROPERTIES = {
    'C01': dict(
        level='other', fn=c01,
        explanation='Decides the structural skeleton of the directed storage class on every path of every mutator: each '
                    'primitive list mutation is paired in its own control region with the matching update of the cached '
                    'edge count (F-PAIR.N), resize sets size and list count together after the shrink check (F-PAIR.S), '
                    'insertion happens exactly when force || !hasEdge of the same pair (F-INS, so re-adding is a no-op), '
                    'hasEdge is a search of the successor list (F-HASEDGE), every vertex loop covers [0,size) (F-LOOP), '
                    'observers use endpoints in their contractual roles (F-OBS), and state is reachable only through '
                    'these mutators (D-ENC). Numerical observer results for a concrete graph are not decided.',
        assumptions=['std::list/std::vector behave as specified'], trusted_base=_STRUCT_TB),
    'C02': dict(
        level='other', fn=c02,
        explanation='Decides, on every path of every mutator of the undirected class: both half-edges are inserted and '
                    'removed together and a loop is one entry (F-PAIR.M, evaluated over the three orderings of the two '
                    'endpoints), the count changes once per pair (once-per-pair guards evaluated over the order domain), '
                    'lookups use the canonical key (F-KEY, F-ORD.v: orderedEdge returns (min,max)), the self-loop '
                    'convention of degrees/matrix is the documented one (F-ORD.iii), no directed mutator leaks through '
                    'the protected base (D-ENC). Numerical results for a concrete graph are not decided.',
        assumptions=['std::list behaves as specified'], trusted_base=_STRUCT_TB),
    'C03': dict(
        level='other', fn=c03,
        explanation='Decides that there is no path on which an edge disappears and its label entry stays (F-PAIR.L: '
                    'every removeAll / erase / clear of list entries is paired in its control region with the erase / '
                    'clear of the same key; dedupe context is the one tabled exception), nor one on which the label of '
                    'a live edge changes outside a designated setter (F-LSET: label writes only in the insertion region '
                    'or a setter; setEdgeLabel writes iff force || hasEdge); undirected accesses use the canonical key '
                    '(F-KEY); the missing-label mapping of _getLabel (F-GETLABEL); hasEdge(i,j,l) compares the label of '
                    'the same pair.',
        assumptions=['hash and equality of the key type (std::pair, hashEdge) are correct'], trusted_base=_STRUCT_TB),
    'C04': dict(
        level='other', fn=c04,
        explanation='Decides that in both multigraphs the adjacency lists, the edge count, the multiplicity store and '
                    'the running total are updated together, by the same amount, on every path (F-PAIR.N/.L/.T/.M incl. '
                    'call-site pairing for base-class insertion and += / -= / overwrite pairing with the old value '
                    'read first), that no zero multiplicity is stored and setEdgeMultiplicity(..,0) removes the whole '
                    'multiedge (F-POS), canonical keys (F-KEY), observers read the multiplicity of the enumerated pair '
                    '(F-OBS, F-ORD.iii). Arithmetic of the resulting sums for a given history is not decided.',
        assumptions=['no arithmetic overflow of size_t totals'], trusted_base=_STRUCT_TB),
    'C05': dict(
        level='other', fn=c05,
        explanation='Decides that every path that changes the stored weights changes the running total by the same '
                    'quantity (F-PAIR.T: insert <-> += w, removeAll <-> -= w*k before the erase, erase <-> -= w under '
                    'the once-per-pair guard, clear <-> = 0, overwrite <-> += new-old with old read first), labels live '
                    'with their edges (F-PAIR.L), every undirected access uses the canonical key (F-KEY), the weight '
                    'matrix addresses [i][j] with the weight of (i,j) (F-OBS). Floating-point values are not decided.',
        assumptions=['floating point rounding is outside the claim'], trusted_base=_STRUCT_TB),
    'C06': dict(
        level='other', fn=c06,
        explanation='Decides that operator== reads all and only value-bearing state (F-EQ: size, count, label store, '
                    'mutual inclusion through hasEdge; all other ==/!= delegate; != negates) and that this state carries '
                    'no history: no removed edge leaves a label, count or list residue (F-PAIR.L/.N/.S), orientation is '
                    'irrelevant because of canonical keys (F-KEY), copies are member-wise deep (D-VALSEM).',
        assumptions=['the label type\'s operator== is an equivalence'], trusted_base=_STRUCT_TB),
    'C16': dict(
        level='other', fn=c16,
        explanation='Decides that force bypasses only the existence test (F-INS over all flag/existence combinations; '
                    'validation is independent of force by C07), that removeEdge removes all copies with count -= k '
                    '(F-PAIR.N removeAll), and that every removeDuplicateEdges erases under the seen-set guard with the '
                    'count / total adjusted once per removed copy (once-per-pair in the undirected family) and the label '
                    'kept (dedupe form of F-PAIR.N/.T/.M/.L).',
        assumptions=['all copies of a pair carry the same label (stated in the property)'], trusted_base=_STRUCT_TB),
    'C08': dict(
        level='other', fn=c08,
        explanation='Decides that enumeration is defined on every graph including one without vertices: no range-asserting '
                    'accessor is called with an internal index (literal 0, getEndVertex, size-1) except under a dominating '
                    'size != 0 test, the cursor is incremented only under cursor != endVertex (F-IDX); range-for over a graph '
                    'is [0,size) (F-LOOP); the undirected iterator yields exactly one orientation per pair and every loop '
                    '(order-domain evaluation of the skip condition); post-increment is copy + pre-increment; list iterators '
                    'are compared only for the same vertex (F-TS). That the sequence contains every edge exactly once for '
                    'every adjacency shape is a statement about runtime list contents and is not decided.',
        assumptions=['value-initialised list iterators compare equal (C++14 [forward.iterators])'], trusted_base=_STRUCT_TB),
    'C09': dict(
        level='other', fn=c09,
        explanation='Decides conformance of getReversedGraph, getDirectedGraph, the undirected-from-directed constructor and '
                    'the six families of edge-list constructors to their transport schemas (F-XPORT): complete enumeration of '
                    'the source, label-carrying overload with the label read for exactly the enumerated pair, contractual '
                    'orientation (evaluated over the orderings of the endpoints), result sized from the source / grown to '
                    '1+max before each unforced insertion through the class\'s own public insertion; all constructor x '
                    'container cells instantiate (witness cells); copies are member-wise deep (D-VALSEM). Equality of the '
                    'result with an independently built expectation is not decided.',
        assumptions=['C01-C03 for the target class'], trusted_base=_STRUCT_TB),
    'C10': dict(
        level='other', fn=c10,
        explanation='Decides conformance of getSubgraph / getSubgraphWithRemap to the induced-subgraph schema (F-XPORT): an '
                    'edge is inserted only under membership of the neighbour in the same set that is iterated, with the source '
                    'label of the same pair, unforced; sizes from graph.getSize() / vertices.size(); the remap is one pass over '
                    'the set with a counter incremented exactly once per element (hence one-to-one onto 0..|S|-1) and translates '
                    'both endpoints; every member of the set is validated (F-VAL).',
        assumptions=['C01-C03 for the target class; std::unordered_set iteration visits each element once'], trusted_base=_STRUCT_TB),
    'C13': dict(
        level='other', fn=c13,
        explanation='Decides agreement of the text writer and loader on the format tables (F-IO.SCHEMA.text): comment '
                    'character, separator in the delimiter set containing space and tab, token-to-argument dataflow, '
                    'names[index(token_k)] = token_k, mapper evaluation order, VertexCountMapper first-appearance numbering; '
                    'stream open check (F-IO.OPEN); growth to 1+largest index (F-IO.GROW); default/explicit converter cells '
                    'compile. The tokeniser as a function on strings and round-trip equality are not decided.',
        assumptions=['label text contains no line break and parses back (stated in the property)'], trusted_base=_STRUCT_TB),
    'C14': dict(
        level='other', fn=c14,
        explanation='Decides that the binary file is exactly one fixed-size record per enumerated edge with fields in the '
                    'order and width the loader reads (F-IO.SCHEMA.bin: writer/loader record sequences, u32 indices, default '
                    'codecs, sizeof(T) transfers of the value, byte swap under one big-endian flag before the write / after '
                    'the read, nothing else written), unopened files throw std::runtime_error in every routine (F-IO.OPEN, '
                    'D-THROW); the thorough tier adds LLVM-IR probes for a little- and a big-endian target (F-IO.ENDIAN). '
                    'Round-trip equality for a concrete graph is not decided.',
        assumptions=['sizeof(VertexIndex) == 4 on the target'], trusted_base=_STRUCT_TB + ['clang -O2 IR for the probes']),
    'C15': dict(
        level='other', fn=c15,
        explanation='Decides that no value is used after a read that may have failed (F-IO.READ: every use of a read buffer '
                    'is dominated by the true edge of that read), that a text index cannot become negative-as-unsigned '
                    '(F-IO.SIGN) nor wrap a size to 0 before the raw name-table subscripts (F-IO.WRAP, F-IO.GROW), that the '
                    'tokeniser path uses only checked string accessors (F-IO.TOK), that the forced insertion validates its '
                    'indices (F-VAL) and everything thrown derives from std::exception (D-THROW). "Returns exactly the '
                    'complete records" as an equality on data is not decided.',
        assumptions=['indices small enough to allocate'], trusted_base=_STRUCT_TB),
    'C17': dict(
        level='other', fn=c17,
        explanation='Decides absence of specific undefined-behaviour classes on all paths: use of invalidated list '
                    'iterators / label-store references / vector references (F-TS typestate over the CFG), heap precondition '
                    'violations (F-HEAP), use of values from failed reads (F-IO.READ), unchecked subscripts by caller indices '
                    'and internal indices (F-VAL, F-IDX), unsigned wrap feeding a size (F-IO.WRAP), unchecked string access '
                    '(F-IO.TOK). Undefined behaviour outside these classes (arbitrary signed overflow, aliasing, lifetime) is '
                    'not decided: no sound whole-program UB analysis for C++ is available on this image.',
        assumptions=['standard containers behave as specified'], trusted_base=_STRUCT_TB),
    'C11': dict(
        level='other', fn=c11,
        explanation='Decides conformance of findVertexPredecessors to the schema S-BFS and of findAllVertexPredecessors '
                    'to S-BFS-ALL on dataflow facts: FIFO worklist initialised with the validated source, exactly one '
                    'removal and one neighbourhood scan of the removed vertex per iteration, insertion of the scanned '
                    'neighbour under a marker test that is falsified for the same vertex in the guarded region, '
                    'dist[v]=dist[u]+1 and the predecessor update in that region, sentinel initialisation sized by '
                    'getSize(), frame conditions; and the wrapper / reconstruction structure (F-WRAP). For a conforming '
                    'loop "dist = hop count, pred = in-neighbour one hop closer, preds = all such" is the textbook '
                    'theorem. Correctness of the stack enumeration of all parent chains is not decided.',
        assumptions=['the schema fact list is complete for the theorem'], trusted_base=_WL_TB),
    'C12': dict(
        level='other', fn=c12,
        explanation='Decides conformance of findGeodesicsDijkstra (both weighted classes) to the label-correcting schema '
                    'S-LC: +infinity / sentinel initialisation, source 0 and own predecessor, one removal and one scan per '
                    'iteration, candidate = dist[u] + getEdgeWeight(u,v) for exactly (u,v), strict guard cand < dist[v] '
                    'with dist[v]=cand, pred[v]=u and the insertion in one region, every predecessor write inside that '
                    'region, frame (heap discipline is decided under C17 / C19: a label-correcting search is correct for '
                    'any removal order). Strictness gives '
                    'termination with zero-weight cycles. Floating-point rounding is not decided.',
        assumptions=['non-negative finite weights'], trusted_base=_WL_TB),
    'C19': dict(
        level='other', fn=c19,
        explanation='Decides a structural proof of the stated work bounds: each loop iteration removes exactly one '
                    'worklist element and scans exactly one neighbourhood; in the two BFS variants a vertex is inserted '
                    'only under a marker test falsified in the same region (each vertex inserted at most once => at most '
                    'V scans); in Dijkstra insertion happens only on strict improvement and the removal is minimum-first '
                    '(F-HEAP) so every vertex is final at its first removal (=> at most E+1 scans).',
        assumptions=['non-negative weights for the Dijkstra bound'], trusted_base=_WL_TB),
    'C07': dict(
        level='other', fn=c07,
        explanation='Decides, for every public entry point and every vertex argument, on every CFG path (all flag '
                    'combinations, all label kinds): the argument passes the range sanitizer before it is used as a '
                    'raw subscript or stored, before any graph state is written (directly or through a mutating '
                    'callee) and before the function can return normally - a forward must-dataflow with bottom-up '
                    'callee summaries (F-VAL); the sanitizer itself throws std::out_of_range exactly for v >= size '
                    '(F-ORD.iv); no throw expression is reachable after a state write (F-TBW); the missing-label '
                    'mapping of _getLabel (F-GETLABEL) and the documented exception types (D-THROW). This settles the '
                    'throw clause and the "rejected call changes nothing" clause for vertex arguments and the '
                    'invalid_argument cases structurally; it does not execute anything.',
        assumptions=['values stored in adjacency lists are in range (inductively: every stored value is itself subject '
                     'to obligation (a))', 'contents of a caller-supplied predecessor structure are the output of the '
                     'matching search (valid-use precondition)', 'allocation does not fail'],
        trusted_base=['clang CFG construction (setAllAlwaysAdd, short-circuit edges)', 'bgx', 'the gen rules of F-VAL '
                      'listed in bgcheck/rules_val.py'],
    ),
    'C18': dict(
        level='proof', fn=c18,
        explanation='Decides the property relative to the C++ const rules: with no mutable field, no const-removing '
                    'cast, no writable static/thread storage, no pointer-like member and no non-reentrant library '
                    'call anywhere under include/, code that reaches the graph through a const access path (every '
                    'const member, every algorithm, subgraph and writer function takes it by const&) cannot modify it '
                    'or any other shared object; const access to standard containers is race-free by '
                    '[res.on.data.races]; all scratch state is local. Obligations: one per field / static variable / '
                    'cast / call (D-PURE) plus one per function in the call-graph closure of the const entry points '
                    '(D-CONST: no write and no non-const member call rooted in the shared object).',
        assumptions=['user-supplied callbacks (label formatters) are themselves reentrant',
                     'writers are given distinct files',
                     'the label type has no mutable/shared state of its own'],
        trusted_base=['C++ const-correctness rules as implemented by clang 14', 'ISO C++ [res.on.data.races] for '
                      'standard containers', 'bgx fact extractor (clang libTooling)', 'witness units instantiate '
                      'every definition under include/ (checked by the COVERAGE rule of C20)'],
    ),
    'C20': dict(
        level='exploration', fn=c20,
        explanation='Enumerates the whole matrix {documented entry point} x {label kind} x {standard} x {compiler} as '
                    'generated client translation units that are compiled to objects (never run), the header-hygiene '
                    'units (alone, twice, forward/reverse order), examples, and links the objects of all units into '
                    'one program; nm and ld decide linkage. D-GUARD / D-ODR repeat the hygiene verdict from the AST.',
        assumptions=['the entry-point table in bgcheck/witness.py lists the documented call forms; the COVERAGE rule '
                     'makes the run inconclusive if a definition under include/ has no instantiation in it'],
        trusted_base=['g++ 12.2 and clang++ 14 as installed', 'binutils nm/ld'],
    ),
}


ALGS = 'BaseGraph::algorithms::'
IOS = 'BaseGraph::io::'


def scope_entries(m, prop):
    """keys (see model.tkey) of the entry points whose call-graph closure a property is about; None = everything"""
    E = m.class_entry_tnames

    def K(*tnames):
        out = set()
        for t in tnames:
            out |= m.tkeys_of(t)
        return out
    alg = lambda *names: K(*[ALGS + n for n in names])
    io = lambda *names: K(*[IOS + n for n in names])

    def without(keys, *suffixes):
        return {k for k in keys if not k.split('#')[0].endswith(suffixes)}
    bfs = alg('findVertexPredecessors', 'findAllVertexPredecessors', 'findGeodesics', 'findAllGeodesics',
              'findGeodesicsFromVertex', 'findAllGeodesicsFromVertex', 'findPathToVertexFromPredecessors',
              'findMultiplePathsToVertexFromPredecessors', 'findSourceVertex', 'assertVertexInGraph')
    conv = ('::getReversedGraph', '::getDirectedGraph')
    table = {
        # conversions belong to C09 (and, as enumerations of edges, to C08)
        'C01': without(E(LDG), *conv) |
               K('BaseGraph::VertexIterator::VertexIterator', 'BaseGraph::VertexIterator::operator++',
                 'BaseGraph::VertexIterator::operator!=', 'BaseGraph::VertexIterator::operator*'),
        # (the edge-sequence constructors are where a history starts: a sequence naming a pair twice adds it once)
        'C02': without(E(LUG), *conv),
        'C03': without(E(LDG) | E(LUG), *conv),
        'C04': E(DMG) | E(UMG),
        'C05': E(DWG) | E(UWG),
        'C08': {t for t in (E(LDG) | E(LUG)) if '::Edges' in t or t.split('#')[0].endswith(('::begin', '::end', '::edges'))} |
               {t for t in E(LDG) if t.split('#')[0].endswith('::getReversedGraph')} |
               {t for t in E(LUG) if t.split('#')[0].endswith('::getDirectedGraph') or
                (t.split('#')[0].endswith('::LabeledUndirectedGraph') and 'LabeledDirectedGraph' in t.split('#')[1])} |
               {tk for f in m.fns if (f.record or '') == 'BaseGraph::VertexIterator' for tk in m.tkeys_of(f.tname)},
        'C09': {t for c in (LDG, LUG, DMG, UMG, DWG, UWG) for t in E(c)
                if t.split('#')[0].endswith(conv) or t.split('#')[0].split('::')[-1] == c.split('::')[-1]},
        'C10': alg('getSubgraph', 'getSubgraphWithRemap'),
        'C11': bfs,
        'C12': alg('findGeodesicsDijkstra', 'assertVertexInGraph'),
        'C13': io('writeTextEdgeList', 'loadTextEdgeList', 'loadTextVertexLabeledEdgeList', 'findEdgeFromString',
                  'verifyStreamOpened') | K(IOS + 'VertexCountMapper::operator()'),
        'C14': io('writeBinaryEdgeList', 'loadBinaryEdgeList', 'writeBinaryValue', 'readBinaryValue', 'swapBytes',
                  '_isSystemBigEndian', 'verifyStreamOpened'),
        'C15': io('loadTextEdgeList', 'loadTextVertexLabeledEdgeList', 'findEdgeFromString', 'loadBinaryEdgeList',
                  'readBinaryValue', 'swapBytes', 'verifyStreamOpened') | K(IOS + 'VertexCountMapper::operator()'),
        'C19': alg('findVertexPredecessors', 'findAllVertexPredecessors', 'findGeodesicsDijkstra'),
    }
    return table.get(prop)


def apply_scope(m, prop, flat):
    """Drop findings / inconclusive notes about functions outside the call-graph closure of the property's entry
    points (the rule families run over the whole library; a property answers only for the code it is about)."""
    entries = scope_entries(m, prop)
    if entries is None:
        return 0
    scope = m.closure_tnames(entries)
    from .report import generic_name
    from .model import tkey
    disp2k = {}
    for f in m.p.functions(dedupe=False):
        disp2k.setdefault(f.display(), set()).add(tkey(f))
        disp2k.setdefault(generic_name(f.display()), set()).add(tkey(f))
    dropped = 0
    names = sorted(disp2k, key=len, reverse=True)
    for r in flat:
        keep = []
        for fd in r.findings:
            ks = disp2k.get(fd.function) or disp2k.get(generic_name(fd.function))
            if ks is not None and not (ks & scope):
                dropped += 1
                continue
            keep.append(fd)
        r.findings = keep
        keepi = []
        for msg in r.inconclusive:
            hit = [n for n in names if n in msg]
            if hit and not any(disp2k[n] & scope for n in hit):
                dropped += 1
                continue
            keepi.append(msg)
        r.inconclusive = keepi
    return dropped


def run(prop, tier, only, t0):
    spec = PROPERTIES[prop]
    try:
        m = model(tier)
    except facts.AnalysisBroken as e:
        if prop != 'C20':
            raise
        # the headers do not even parse in the witness units: the compile matrix itself is the verdict
        out = list(matrix.rule_matrix(tier)) + [matrix.rule_hygiene(tier)]
        br = RuleResult('EXTRACT', 'fact extraction')
        br.broken('fact extraction failed (AST-level rules D-GUARD / D-ODR not evaluated): %s' % str(e)[:300])
        out.append(br)
        return finish(prop, tier, spec['level'], out, t0, spec['explanation'] + (' ' + ADDENDA[prop] if prop in ADDENDA else ''), spec['assumptions'], spec['trusted_base'],
                      'cd /verif && python3 -m bgcheck %s --tier %s' % (prop, tier), extra_coverage={}, units=[])
    results = spec['fn'](m, tier)
    flat = []
    for r in results:
        if isinstance(r, (list, tuple)):
            flat.extend(r)
        elif r is not None:
            flat.append(r)
    if tier == 'thorough' and prop != 'C20':
        # the same rules on the facts extracted under the other language standards (temporaries, copy elision
        # and library internals change the AST/CFG); results are merged per rule
        for std in STDS[tier][1:]:
            m2 = model(tier, std)
            more = []
            for r in spec['fn'](m2, 'quick'):
                if isinstance(r, (list, tuple)):
                    more.extend(r)
                elif r is not None:
                    more.append(r)
            byrule = {r.rule: r for r in flat}
            for r in more:
                if r.rule in byrule:
                    b = byrule[r.rule]
                    b.sites += r.sites
                    b.obligations += r.obligations
                    b.discharged += r.discharged
                    b.findings.extend(r.findings)
                    b.inconclusive.extend('[%s] %s' % (std, x) for x in r.inconclusive)
                    b.functions |= r.functions
                    b.notes.append('also evaluated on -std=%s facts: %d sites' % (std, r.sites))
                else:
                    flat.append(r)
    out_of_scope = apply_scope(m, prop, flat)
    if only:
        flat = [r for r in flat if r.rule == only or r.rule.startswith(only)]
    extra = {}
    for r in flat:
        if hasattr(r, 'extra'):
            extra[r.rule.replace('-', '_').replace('.', '_').lower()] = r.extra
    if prop == 'C20':
        cells = sum(r.obligations for r in flat if r.rule == 'M-CELL')
        extra['exhaustive'] = True
        extra['matrix_note'] = 'the matrix is finite and was enumerated completely on this run'
    units = ['%s/%s: %d bodies' % (u.name, u.std, len(u.functions)) for u in m.p.units]
    entries = scope_entries(m, prop)
    extra['scope'] = 'whole library' if entries is None else '%d entry points, %d functions in their call-graph closure' % (
        len(entries), len(m.closure_tnames(entries)))
    extra['reports_outside_scope_dropped'] = out_of_scope
    return finish(prop, tier, spec['level'], flat, t0, spec['explanation'] + (' ' + ADDENDA[prop] if prop in ADDENDA else ''), spec['assumptions'], spec['trusted_base'],
                  'cd /verif && python3 -m bgcheck %s --tier %s' % (prop, tier), extra_coverage=extra, units=units)


def write_broken_evidence(prop, tier, t0, why):
    os.makedirs(EVIDENCE, exist_ok=True)
    spec = PROPERTIES.get(prop, dict(level='other'))
    ev = dict(property_id=prop, tier=tier, seed=int(os.environ.get('VERIF_SEED', '0') or 0), level='other',
              coverage=dict(explanation='analysis broken / inconclusive: ' + why, evaluations=1, distinct_nontrivial=0,
                            samples=[dict(error=why)]),
              assumptions=[], wall_s=round(time.time() - t0, 3), violations=0)
    with open(os.path.join(EVIDENCE, prop + '.json'), 'w') as fh:
        json.dump(ev, fh, indent=1)


# rules added after the first version of the explanations above (seed waves c-h, refactoring waves 3-5); see DESIGN.md 11 and 13
ADDENDA = {
    'C01': 'Also decided: the edge-sequence constructors insert unforced and grow before they insert (F-XPORT), boolean options '
           'are handed on to callees that have the same option (F-FWD), no label store sits between the list insertion and '
           'the count update (F-PAIR.N), list cursors only advance (F-CURSOR), sibling defaults agree (D-DEFAULT).',
    'C02': 'Also decided: the edge-sequence constructors and the conversion from a directed graph insert unforced (F-XPORT), a '
           're-export names what the direct base offers (D-ENC), no label store between list insertion and count (F-PAIR.N; '
           'defect D16 of the pinned tree). No 64-bit mask is built by shifting an int (D-SHIFT).',
    'C03': 'The label accessor is examined for every witness label kind, including a user class with an explicit constructor '
           'and an empty user class (a no-op accessor selected for a real label type is a violation). hasEdge(i, j, label) compares with the label type\'s own operator== (F-HASEDGE). Base-class setters are not re-exported around the wrapper that orders the pair (D-ENC).',
    'C05': 'Also decided: setEdgeWeight stores the weight it is given whatever weight was stored before (no branch on the stored value guards the overwrite). The running totals of the two weighted classes have one type (D-SIB); sums are accumulated in a type as wide as the total (F-ACCW).',
    'C06': 'Also decided: hand-written copy / move members transfer every data member (D-VALSEM). A comparison loop does not walk two lists in lockstep and stop with the shorter one.',
    'C07': 'Also decided: the label of a removed edge is erased (F-PAIR.L - the accessor decides existence from the store), no '
           'function that can throw is declared noexcept (D-NOEXCEPT), the range sanitizer is not applied to an invented index '
           '(F-VAL.inv). No message is built by adding an integer to a string literal (D-STRPLUS).',
    'C08': 'Also decided: each class publishes the edges() / begin() / end() its direct base offers (D-ENC re-export targets) '
           'and the conversions enumerate every edge of their source once (F-XPORT).',
    'C09': 'Also decided: nothing writes a label store in the instantiations without labels (F-LSET.none); hand-written special '
           'members are member-wise (D-VALSEM).',
    'C10': 'Also decided: every insertion into the subgraph hands over the label, the remap counter advances by one per element, '
           'hand-written special members of the returned graph are member-wise (D-VALSEM).',
    'C11': 'Also decided: the distances start at the documented sentinel, wrappers forward their vertex arguments in order (F-FWD). No result is returned before the source has its distance; no neighbour is skipped on loop-carried state. The call graph of the library is acyclic (D-REC). A predecessor stored inside an enumeration of getOutNeighbours(X) is X for the enumerated neighbour, never the neighbour for X, in any loop shape and for every instantiation on a directed class (F-WL.orient).',
    'C12': 'Also decided: the entry removed from the queue is the vertex scanned (F-HEAP.top), the worklist initially holds the '
           'source only, an associative container with unique keys is not used as the queue. No neighbour is skipped on a condition that depends on earlier iterations (scan-all). A scan skipped for vertices marked in a closed set (lazy deletion) is accepted only when F-HEAP establishes minimum-first removal for the same function; otherwise it is a violation of the label-correcting premise (S-LC closed-set). Predecessor stores follow the edge orientation (F-WL.orient).',
    'C13': 'Also decided: the line loop ends on the failure of std::getline (not on eof), writers that walk the neighbour lists '
           'keep every edge of a directed graph. std::getline reads from the stream itself (no std::ws before the comment test). Callables handed to the loaders are taken by value (a shared default mapper would keep its name table between calls). No store into the name table depends on a growth test `index >= size`, in the loader or in a lambda defined in it (F-IO.NAMES): names[index(x)] = x for every mapper, not only the first-appearance one.',
    'C14': 'Also decided: reads are checked and an end-of-file look-ahead is compared as an int (F-IO.READ), the stream is opened '
           'on the caller\'s file name itself and on every path (F-IO.OPEN), writers that walk the neighbour lists write each edge '
           'once per storage family. The alias VertexIndex is a 32-bit unsigned integer on this target (F-IO.WIDTH).',
    'C15': 'Also decided: no function whose exception the loaders rely on is noexcept (D-NOEXCEPT), computed subscripts of '
           'fixed-size arrays are bounded (F-IO.TOK). Exception classes thrown derive publicly from std::exception. Text taken from the file is not matched with std::regex (stack use of the platform library).',
    'C16': 'Also decided: a force option is handed on to every insertion an operation performs (F-FWD; defect D17 of the pinned '
           'tree), updates of the total written once after the arms of a branch are paired by path counting. Sums are accumulated in a type as wide as the counter they are applied to (F-ACCW). Vertex loops of the mutators are not left early (F-LOOP). No 64-bit seen-mask is built by shifting an int (D-SHIFT).',
    'C17': 'Also decided: a list is not mutated under a live cursor, directly or through a callee (F-CURSOR.live), results of '
           'max_element / min_element are dereferenced only on a non-empty range, every scalar member is initialised (D-INIT), '
           'binary searches run on sorted ranges (F-SORTED), no signed arithmetic on converted unsigned values (F-SOVF). References obtained through std::min / std::max alias their arguments (F-TS); accumulator widths (F-ACCW); string literal + integer (D-STRPLUS). No three-iterator std::equal / is_permutation / mismatch without a length test (F-RANGE2); acyclic call graph (D-REC); no int shift into a 64-bit mask (D-SHIFT). A reference bound to the element of a list iterator is not read after erase() of that iterator (F-TS).',
    'C18': 'Also decided: the library starts no thread, calls no function that replaces process-wide state (locale, terminate '
           'handler, environment) or uses hidden static storage (localtime ...), and the writers touch exactly the file they are '
           'given (F-IO.OPEN: the caller\'s name itself, no rename / remove). Callables handed to the file routines are taken by value.',
    'C19': 'Also decided: the priority queue puts the minimum on top (comparator of the heap algorithms, ordering of a '
           'std::priority_queue), the source is marked before the loop, ties do not re-queue. The relaxation is entered through the strict improvement test only; acyclic call graph (D-REC).',
    'C20': 'Label kinds of the matrix: NoLabel, int, unsigned, double, char, std::string, an aggregate struct, a class with an '
           'explicit constructor with default arguments and a std::string member, an empty class.',
}


def manifest():
    """Regenerate /verif/MANIFEST.json from the property table."""
    import collections
    props_all = ['C%02d' % i for i in range(1, 21)]
    checks = []
    for pid in props_all:
        if pid not in PROPERTIES:
            continue
        sp = PROPERTIES[pid]
        checks.append(collections.OrderedDict(
            property_id=pid,
            quick_cmd='python3 -m bgcheck %s --tier quick' % pid,
            thorough_cmd='python3 -m bgcheck %s --tier thorough' % pid,
            evidence_file='/verif/evidence/%s.json' % pid,
            replay_cmd_template='python3 -m bgcheck replay {path}',
            engine='bgcheck',
            level_claimed=dict(category=sp['level'], text=sp['explanation'] + (' ' + ADDENDA[pid] if pid in ADDENDA else ''), design_ref=sp.get('design_ref', 'DESIGN.md section 4, ' + pid)),
            level_note='Trusted base: ' + '; '.join(sp['trusted_base']) + '. Assumes: ' + '; '.join(sp['assumptions']),
            technique=sp.get('technique', 'static analysis: custom rules over clang AST/CFG facts of the instantiated headers'),
        ))
    na = []
    for pid in props_all:
        if pid not in PROPERTIES:
            na.append(dict(property_id=pid, reason=NOT_CLAIMED.get(pid, 'check under construction (see DESIGN.md section 9 for the order of work)')))
    man = collections.OrderedDict(
        version=1,
        setup_cmd='cd /verif && python3 -m bgcheck setup',
        hooks=dict(guard='BASEGRAPH_VERIF', enable='no hooks: the analysis reads /repo as it is',
                   baseline_off_cmd='cmake --build /repo/_build && ctest --test-dir /repo/_build -j8',
                   source_commits=[], add_only=True),
        engines=[dict(name='bgcheck', path='/verif/bgcheck', serves_properties=[c['property_id'] for c in checks],
                      kind_free_text='libTooling fact extractor (bgx) + Python rule engine: dataflow, pairing, '
                                     'typestate, schema-conformance and declaration rules over the instantiated '
                                     'AST/CFG; compile/link matrix; IR probes')],
        checks=checks,
        notes='Exit codes: 0 holds, 1 violation (VIOLATION lines), 2 analysis inconclusive/broken (never a pass).',
        not_applicable=na,
    )
    with open(os.path.join(os.path.dirname(EVIDENCE), 'MANIFEST.json'), 'w') as fh:
        json.dump(man, fh, indent=1)
    return man


NOT_CLAIMED = {}
