"""Property table: which rules decide which property, at which level, with which trusted base."""
import json
import os
import time

from . import facts, matrix, rules_decl, rules_val
from .model import Model
from .report import EVIDENCE, Finding, RuleResult, finish

STDS = {'quick': ('gnu++17',), 'thorough': ('gnu++17', 'gnu++14', 'gnu++20')}

_model_cache = {}


def model(tier):
    stds = STDS[tier]
    if stds not in _model_cache:
        p = facts.load_program(stds)
        _model_cache[stds] = Model(p)
    return _model_cache[stds]


def dropped_cells_result(m, families=None, rule='WITNESS'):
    """Cells of the witness table that do not compile: the functions they would instantiate cannot be
    analysed.  For C20/C09 that *is* the violation; for other properties the affected entry points are
    reported as not analysable only if the property needs them."""
    res = RuleResult(rule, 'witness cells (documented call forms) that the extractor could compile')
    seen = set()
    for name, std, cell, err in m.p.dropped:
        if cell is None or (families and cell.family not in families):
            continue
        if cell.id in seen:
            continue
        seen.add(cell.id)
        loc = err.split(': ')[0]
        res.fail(Finding(rule, cell.entry, 'cell %s' % cell.id, loc,
                         'documented call form does not compile: %s' % err[:300], dict(code=cell.body)))
    return res


# ------------------------------------------------------------------------------------------------
def c18(m, tier):
    return [rules_decl.rule_pure(m), rules_decl.rule_const_closure(m)]


def c20(m, tier):
    out = []
    out.extend(matrix.rule_matrix(tier))
    out.append(matrix.rule_hygiene(tier))
    out.append(rules_decl.rule_guard(m))
    out.append(rules_decl.rule_odr(m))
    cov = rules_decl.rule_coverage(m)
    # an entry point that exists in the headers but has no cell in the witness table escapes the matrix
    cells_failed = any(r.rule == 'M-CELL' and r.findings for r in out)
    for name, where in cov.uncovered:
        if cells_failed:
            cov.notes.append('not instantiated (its witness cells do not compile, reported by M-CELL): %s' % name)
            continue
        cov.broken('witness table incomplete: no analysed instantiation of %s (%s)' % (name, where))
    out.append(cov)
    return out


_val_engines = {}


def val_engine(m):
    if id(m) not in _val_engines:
        _val_engines[id(m)] = rules_val.ValEngine(m)
    return _val_engines[id(m)]


def c07(m, tier):
    eng = val_engine(m)
    return [rules_val.rule_val(m, eng), rules_val.rule_sanitizer(m, eng), rules_val.rule_throw_before_write(m),
            rules_val.rule_getlabel(m), rules_decl.rule_throw(m)]


PROPERTIES = {
    'C07': dict(
        level='other', fn=c07,
        explanation='Decides, for every public entry point and every vertex argument, on every CFG path (all flag '
                    'combinations, all label kinds): the argument passes the range sanitizer before it is used as a '
                    'raw subscript or stored, before any graph state is written (directly or through a mutating '
                    'callee) and before the function can return normally - a forward must-dataflow with bottom-up '
                    'callee summaries (F-VAL); the sanitizer itself throws std::out_of_range exactly for v >= size '
                    '(F-ORD.iv); no throw expression is reachable after a state write (F-TBW); the missing-label '
                    'mapping of _getLabel (F-GETLABEL) and the documented exception types (D-THROW). This settles the '
                    'throw clause and the "rejected call changes nothing" clause for vertex arguments and the '
                    'invalid_argument cases structurally; it does not execute anything.',
        assumptions=['values stored in adjacency lists are in range (inductively: every stored value is itself subject '
                     'to obligation (a))', 'contents of a caller-supplied predecessor structure are the output of the '
                     'matching search (valid-use precondition)', 'allocation does not fail'],
        trusted_base=['clang CFG construction (setAllAlwaysAdd, short-circuit edges)', 'bgx', 'the gen rules of F-VAL '
                      'listed in bgcheck/rules_val.py'],
    ),
    'C18': dict(
        level='proof', fn=c18,
        explanation='Decides the property relative to the C++ const rules: with no mutable field, no const-removing '
                    'cast, no writable static/thread storage, no pointer-like member and no non-reentrant library '
                    'call anywhere under include/, code that reaches the graph through a const access path (every '
                    'const member, every algorithm, subgraph and writer function takes it by const&) cannot modify it '
                    'or any other shared object; const access to standard containers is race-free by '
                    '[res.on.data.races]; all scratch state is local. Obligations: one per field / static variable / '
                    'cast / call (D-PURE) plus one per function in the call-graph closure of the const entry points '
                    '(D-CONST: no write and no non-const member call rooted in the shared object).',
        assumptions=['user-supplied callbacks (label formatters) are themselves reentrant',
                     'writers are given distinct files',
                     'the label type has no mutable/shared state of its own'],
        trusted_base=['C++ const-correctness rules as implemented by clang 14', 'ISO C++ [res.on.data.races] for '
                      'standard containers', 'bgx fact extractor (clang libTooling)', 'witness units instantiate '
                      'every definition under include/ (checked by the COVERAGE rule of C20)'],
    ),
    'C20': dict(
        level='exploration', fn=c20,
        explanation='Enumerates the whole matrix {documented entry point} x {label kind} x {standard} x {compiler} as '
                    'generated client translation units that are compiled to objects (never run), the header-hygiene '
                    'units (alone, twice, forward/reverse order), examples, and links the objects of all units into '
                    'one program; nm and ld decide linkage. D-GUARD / D-ODR repeat the hygiene verdict from the AST.',
        assumptions=['the entry-point table in bgcheck/witness.py lists the documented call forms; the COVERAGE rule '
                     'makes the run inconclusive if a definition under include/ has no instantiation in it'],
        trusted_base=['g++ 12.2 and clang++ 14 as installed', 'binutils nm/ld'],
    ),
}


def run(prop, tier, only, t0):
    spec = PROPERTIES[prop]
    m = model(tier)
    results = spec['fn'](m, tier)
    flat = []
    for r in results:
        if isinstance(r, (list, tuple)):
            flat.extend(r)
        elif r is not None:
            flat.append(r)
    if only:
        flat = [r for r in flat if r.rule == only or r.rule.startswith(only)]
    extra = {}
    for r in flat:
        if hasattr(r, 'extra'):
            extra[r.rule.replace('-', '_').replace('.', '_').lower()] = r.extra
    if prop == 'C20':
        cells = sum(r.obligations for r in flat if r.rule == 'M-CELL')
        extra['exhaustive'] = True
        extra['matrix_note'] = 'the matrix is finite and was enumerated completely on this run'
    units = ['%s/%s: %d bodies' % (u.name, u.std, len(u.functions)) for u in m.p.units]
    return finish(prop, tier, spec['level'], flat, t0, spec['explanation'], spec['assumptions'], spec['trusted_base'],
                  'cd /verif && python3 -m bgcheck %s --tier %s' % (prop, tier), extra_coverage=extra, units=units)


def write_broken_evidence(prop, tier, t0, why):
    os.makedirs(EVIDENCE, exist_ok=True)
    spec = PROPERTIES.get(prop, dict(level='other'))
    ev = dict(property_id=prop, tier=tier, seed=int(os.environ.get('VERIF_SEED', '0') or 0), level='other',
              coverage=dict(explanation='analysis broken / inconclusive: ' + why, evaluations=1, distinct_nontrivial=0,
                            samples=[dict(error=why)]),
              assumptions=[], wall_s=round(time.time() - t0, 3), violations=0)
    with open(os.path.join(EVIDENCE, prop + '.json'), 'w') as fh:
        json.dump(ev, fh, indent=1)


def manifest():
    """Regenerate /verif/MANIFEST.json from the property table."""
    import collections
    props_all = ['C%02d' % i for i in range(1, 21)]
    checks = []
    for pid in props_all:
        if pid not in PROPERTIES:
            continue
        sp = PROPERTIES[pid]
        checks.append(collections.OrderedDict(
            property_id=pid,
            quick_cmd='python3 -m bgcheck %s --tier quick' % pid,
            thorough_cmd='python3 -m bgcheck %s --tier thorough' % pid,
            evidence_file='/verif/evidence/%s.json' % pid,
            replay_cmd_template='python3 -m bgcheck replay {path}',
            engine='bgcheck',
            level_claimed=dict(category=sp['level'], text=sp['explanation'], design_ref=sp.get('design_ref', 'DESIGN.md section 4, ' + pid)),
            level_note='Trusted base: ' + '; '.join(sp['trusted_base']) + '. Assumes: ' + '; '.join(sp['assumptions']),
            technique=sp.get('technique', 'static analysis: custom rules over clang AST/CFG facts of the instantiated headers'),
        ))
    na = []
    for pid in props_all:
        if pid not in PROPERTIES:
            na.append(dict(property_id=pid, reason=NOT_CLAIMED.get(pid, 'check under construction (see DESIGN.md section 9 for the order of work)')))
    man = collections.OrderedDict(
        version=1,
        setup_cmd='cd /verif && python3 -m bgcheck setup',
        hooks=dict(guard='BASEGRAPH_VERIF', enable='no hooks: the analysis reads /repo as it is',
                   baseline_off_cmd='cmake --build /repo/_build && ctest --test-dir /repo/_build -j8',
                   source_commits=[], add_only=True),
        engines=[dict(name='bgcheck', path='/verif/bgcheck', serves_properties=[c['property_id'] for c in checks],
                      kind_free_text='libTooling fact extractor (bgx) + Python rule engine: dataflow, pairing, '
                                     'typestate, schema-conformance and declaration rules over the instantiated '
                                     'AST/CFG; compile/link matrix; IR probes')],
        checks=checks,
        notes='Exit codes: 0 holds, 1 violation (VIOLATION lines), 2 analysis inconclusive/broken (never a pass).',
        not_applicable=na,
    )
    with open(os.path.join(os.path.dirname(EVIDENCE), 'MANIFEST.json'), 'w') as fh:
        json.dump(man, fh, indent=1)
    return man


NOT_CLAIMED = {}
