"""Smaller structural rules: F-INS (insertion guard), F-ORD.v / .iii, F-LOOP, F-EQ, F-POS, F-HASEDGE,
F-LSET (label writes only in insertions and designated setters), F-OBS (endpoint roles)."""
import itertools

from .events import events_of, summary_of
from .model import (GRAPH_CLASSES, LDG, LUG, DMG, UMG, DWG, UWG, UNDIRECTED_FAMILY, TOTAL_CLASSES, NS, short)
from .report import Finding, RuleResult
from .rules_pair import Ctx, eval_order, ORDERINGS, Key, strip_cast, PairEngine
from .rules_val import var_defs, classic_loop_var, graph_like, is_size_term, _conjuncts
from .terms import Terms, show, subterms


def path_eval(ctx, target, env, start_block=None, stop_at=None):
    """Follow the CFG from the entry (or start_block) taking the branch each atom evaluates to under env.
    Returns True if the block of `target` is reached, False if the walk ends elsewhere, None if an atom is
    not evaluable."""
    f = ctx.fn
    tpos = f.cfg_pos(target)
    if tpos is None:
        return None
    cur = f.entry if start_block is None else start_block
    full = dict(env)
    # locals with a single definition inherit the value of their defining term
    steps = 0
    seen_states = set()
    while steps < 400:
        steps += 1
        if cur == tpos[0]:
            return True
        if cur == f.exit:
            return False
        # the walk is deterministic under env: coming back to a block in the same state means the target is not on the
        # path this valuation takes (e.g. the other arm of an if inside a loop)
        try:
            state = (cur, frozenset(full.items()))
        except TypeError:
            state = None
        if state is not None:
            if state in seen_states:
                return False
            seen_states.add(state)
        b = f.blocks[cur]
        # locals assigned on the way take the value of their right-hand side in the finite domain
        for e in b.elems:
            n = f.nodes[e]
            tgt = None
            rhs = None
            if n['k'] == 'DeclStmt' and len(n['decls']) == 1 and n['c'] and n['c'][0] >= 0:
                tgt, rhs = ('var', n['decls'][0]), n['c'][0]
            elif n['k'] == 'BinaryOperator' and n.get('op') == '=':
                l = ctx.tt.t(n['c'][0], resolve_refs=False)
                if l[0] == 'var':
                    tgt, rhs = l, n['c'][1]
            if tgt is not None and len(var_defs(f, tgt[1])) > 1:
                v = eval_order(resolve_locals(ctx, ctx.tt.t(rhs), full), full)
                if v is None:
                    full.pop(tgt, None)
                    full[('unknown', tgt)] = True
                else:
                    full[tgt] = v
        if b.elems and f.nodes[b.elems[-1]]['k'] in ('CXXThrowExpr', 'ReturnStmt') and cur != tpos[0]:
            if f.nodes[b.elems[-1]]['k'] == 'CXXThrowExpr':
                return False
        succs = [s for s in b.succs if s >= 0]
        if not succs:
            return False
        if len(set(succs)) == 1:
            cur = succs[0]
            continue
        a = f.branch_atom(cur)
        if a is None:
            return None
        t = ctx.tt.t(a)
        v = eval_order(resolve_locals(ctx, t, full), full)
        if v is None:
            # not a condition over the designated terms (e.g. a loop test): follow the only successor from
            # which the target can still be reached, if there is exactly one
            cands = [s for s in b.succs if s >= 0 and (s == tpos[0] or tpos[0] in _reach(f, s, cur))]
            if len(cands) == 1:
                cur = cands[0]
                continue
            if not cands:
                return False
            return None
        cur = b.succs[0] if v else b.succs[1]
        if cur < 0:
            return False
    return None


_REACH = {}


def _reach(f, b, avoid=None):
    k = (id(f), b, avoid)
    if k not in _REACH:
        seen = set()
        st = [b]
        while st:
            x = st.pop()
            if x in seen or x == avoid:
                continue
            seen.add(x)
            st.extend(s for s in f.blocks[x].succs if s >= 0)
        _REACH[k] = seen
    return _REACH[k]


def resolve_locals(ctx, t, env, depth=0):
    """replace single-definition locals by their defining term unless env gives them a value"""
    if depth > 6 or not isinstance(t, tuple):
        return t
    if t in env:
        return t
    if t[0] == 'var':
        d = ctx.fn.unit.decl(t[1])
        if d['dk'] == 'Var':
            defs = var_defs(ctx.fn, t[1])
            if len(defs) == 1 and defs[0][1] >= 0:
                return resolve_locals(ctx, ctx.tt.t(defs[0][1]), env, depth + 1)
        return t
    out = []
    for x in t:
        if isinstance(x, tuple):
            if x and isinstance(x[0], str):
                out.append(resolve_locals(ctx, x, env, depth + 1))
            else:
                out.append(tuple(resolve_locals(ctx, y, env, depth + 1) if isinstance(y, tuple) else y for y in x))
        else:
            out.append(x)
    return tuple(out)


def _hasedge_terms(ctx, x, y):
    """(two-argument terms, three-argument terms) that denote hasEdge(x,y) / hasEdge(x,y,label) of this graph
    (any orientation for the undirected family)"""
    two, three = [], []
    for n in ctx.fn.nodes:
        if n['k'] == 'CXXMemberCallExpr' and 'callee' in n:
            cd = ctx.fn.unit.decl(n['callee'])
            if cd['name'] == 'hasEdge' and len(n.get('args', [])) in (2, 3):
                t = ctx.tt.t(n['i'])
                a = t[3]
                if (a[0] == x and a[1] == y) or (ctx.undirected and a[0] == y and a[1] == x):
                    (two if len(a) == 2 else three).append(t)
    return two, three


def _label_presence_terms(ctx, x, y):
    """terms that test presence of the key of (x,y) in the label store: edgeLabels.count(k) [== 0]"""
    out = []
    for n in ctx.fn.nodes:
        if n['k'] == 'CXXMemberCallExpr' and 'callee' in n:
            cd = ctx.fn.unit.decl(n['callee'])
            if cd['name'] in ('count', 'contains') and ctx.ev.role(ctx.tt.t(n.get('obj', -1))) == 'L':
                t = ctx.tt.t(n['i'])
                k = ctx.key_of(t[3][0], n['i'])
                if k is not None and ((k.a == x and k.b == y) or (k.a == y and k.b == x)):
                    out.append(t)
    return out


# ------------------------------------------------------------------------------------------------
def rule_insertion_guard(m):
    res = RuleResult('F-INS', 'an edge is inserted exactly when force is set or hasEdge(x,y) of the same pair is false '
                              '(and, in the multigraphs, the multiplicity is not 0), whatever the label and whatever the '
                              'label store holds; a forced insertion is called only where the caller\'s own force flag or the '
                              'absence of that very pair is established')
    for f in m.fns:
        if f.record not in GRAPH_CLASSES or f.is_const or f.is_ctor or f.is_lambda:
            continue
        ctx = Ctx(m, f)
        targets = []     # (node, x, y, what)
        for e in ctx.ev.of_kind('A.push'):
            targets.append((e.node, e.args[0], e.args[1], 'push'))
        flags = [('var', p) for ix, p in enumerate(f.params) if f.cptypes[ix] == 'bool']
        # insertions called with a literal force=true on this object
        for nid, g in m.callees(f):
            n = f.nodes[nid]
            if n['k'] == 'CXXMemberCallExpr' and g.record in GRAPH_CLASSES and g.name in ('addEdge', 'addMultiedge') and \
                    ctx.tt.t(n.get('obj', -1)) == ('this',):
                a = [ctx.tt.t(x) for x in n['args']]
                if len(a) >= 3 and a[-1] == ('bool', True) and g.cptypes and g.cptypes[-1] == 'bool':
                    targets.append((nid, a[0], a[1], 'forced insertion through %s' % g.name))
        # insertions called with a force flag that the function has re-derived (force = force || ...)
        for nid, g in m.callees(f):
            n = f.nodes[nid]
            if n['k'] == 'CXXMemberCallExpr' and g.record in GRAPH_CLASSES and g.name in ('addEdge', 'addMultiedge') and \
                    ctx.tt.t(n.get('obj', -1)) == ('this',) and g.cptypes and g.cptypes[-1] == 'bool' and len(n['args']) == len(g.cptypes):
                a = [ctx.tt.t(x) for x in n['args']]
                fl = a[-1]
                if fl[0] == 'var' and fl in flags:
                    redefs = [d for d in var_defs(f, fl[1]) if d[1] >= 0]
                    if not redefs:
                        continue
                    res.sites += 1
                    if len(redefs) != 1 or not f.node_dominates(redefs[0][0], nid):
                        res.broken('F-INS: the force flag passed on in %s at %s is re-derived in a way the rule cannot follow'
                                   % (f.display(), f.nloc(nid)))
                        continue
                    eff = ctx.tt.t(redefs[0][1])
                    hterms = sorted({st for st in subterms(eff) if st[0] == 'mcall' and st[1].endswith('::hasEdge') and len(st[3]) == 2},
                                    key=repr)
                    x, y = a[0], a[1]

                    def same_pair(t):
                        return (t[3][0] == x and t[3][1] == y) or (ctx.undirected and t[3][0] == y and t[3][1] == x)
                    bad = None
                    for vals in itertools.product((True, False), repeat=len(hterms) + 2):
                        force0, own = vals[0], vals[1]
                        env = {fl: force0}
                        for ht, v in zip(hterms, vals[2:]):
                            env[ht] = own if same_pair(ht) else v
                        e = eval_order(eff, env)
                        if e is None:
                            bad = 'undecidable'
                            break
                        if e and not (force0 or not own):
                            bad = 'the flag becomes true although the caller did not force and the pair (%s,%s) is present' % (
                                show(x, f.unit), show(y, f.unit))
                            break
                    if bad == 'undecidable':
                        res.broken('F-INS: re-derived force flag in %s cannot be evaluated' % f.display())
                    elif bad:
                        res.fail(Finding('F-INS', f.display(), 'derived force flag for (%s,%s)' % (show(x, f.unit), show(y, f.unit)),
                                         f.nloc(nid), 'the insertion of (%s,%s) is called with a force flag derived from `%s`, which '
                                         'says nothing about that pair: %s, so an existing edge is duplicated'
                                         % (show(x, f.unit), show(y, f.unit), f.expr_text(redefs[0][1])[:80], bad)))
                    else:
                        res.ok(dict(function=f.display(), call=ctx.desc(nid), derived_flag=f.expr_text(redefs[0][1])[:60]), fn=f.display())
        if not targets:
            continue
        seen_pairs = set()
        for nid, x, y, what in targets:
            key = (frozenset([x, y]), what.startswith('forced'))
            if key in seen_pairs:
                continue
            group = [t for t in targets if (frozenset([t[1], t[2]]), t[3].startswith('forced')) == key]
            rep = min(group, key=lambda t: len(ctx.region(t[0])))
            seen_pairs.add(key)
            nid, x, y, what = rep
            res.sites += 1
            two, three = _hasedge_terms(ctx, x, y)
            pres = _label_presence_terms(ctx, x, y)
            mult = [('var', p) for ix, p in enumerate(f.params)
                    if f.ptypes[ix] in ('BaseGraph::EdgeMultiplicity', 'EdgeMultiplicity')]
            if (not two and not three and not pres) or len(flags) > 1:
                res.broken('F-INS: insertion in %s at %s is not guarded by a recognisable `force || !hasEdge(x,y)` test '
                           'of the inserted pair' % (f.display(), f.nloc(nid)))
                continue
            bad = None
            for force, has, mz, labeq, present in itertools.product(
                    (True, False) if flags else (False,), (True, False), (True, False) if mult else (False,),
                    (True, False) if three else (True,), (True, False) if pres else (True,)):
                env = {x: 0, y: 1}
                if flags:
                    env[flags[0]] = force
                for h in two:
                    env[h] = has
                for h in three:
                    env[h] = has and labeq
                for h in pres:
                    env[h] = 1 if present else 0
                for mt in mult:
                    env[mt] = 0 if mz else 3
                got = path_eval(ctx, nid, env)
                want = (force or not has) and not mz
                if got is None:
                    bad = 'undecidable'
                    break
                if got != want:
                    bad = 'force=%s, edge %s%s%s%s: insertion %s but should %s' % (
                        force, 'present' if has else 'absent', ', multiplicity 0' if mz else '',
                        ' with a different label' if (three and has and not labeq) else '',
                        (', label entry %s' % ('present' if present else 'absent')) if pres else '',
                        'happens' if got else 'does not happen', 'happen' if want else 'not happen')
                    break
            if bad == 'undecidable':
                res.broken('F-INS: the guard of the insertion in %s cannot be evaluated' % f.display())
            elif bad:
                res.fail(Finding('F-INS', f.display(), 'insertion guard of (%s,%s)' % (show(x, f.unit), show(y, f.unit)),
                                 f.nloc(nid), 'the %s is not executed exactly when `force || !hasEdge(x,y)` of the inserted '
                                 'pair: %s' % (what, bad)))
            else:
                res.ok(dict(function=f.display(), insertion=ctx.desc(nid), kind=what, guard='force || !hasEdge(%s,%s)' % (
                    show(x, f.unit), show(y, f.unit))) if len(res.samples) < 8 else None, fn=f.display())
    res.require_sites(4, 'insertion sites')
    return res


# ------------------------------------------------------------------------------------------------
def rule_label_writes(m, coherent_store=False):
    """A label is written only together with the insertion of its edge or in a designated setter; the
    setter of the storage class requires force or hasEdge."""
    res = RuleResult('F-LSET', 'the label store is written only in the control region of the insertion of the same '
                               'edge, or in a designated setter (setEdgeLabel / setEdgeWeight / setEdgeMultiplicity / '
                               'addMultiedge increment); setEdgeLabel writes only if force or the edge exists')
    setters = {LDG + '::setEdgeLabel', m.label_helpers()[0], m.label_helpers()[2], DWG + '::setEdgeWeight',
               UWG + '::setEdgeWeight', DMG + '::setEdgeMultiplicity', UMG + '::setEdgeMultiplicity',
               DMG + '::addMultiedge', UMG + '::addMultiedge', DMG + '::removeMultiedge', UMG + '::removeMultiedge'}
    pe = PairEngine.__new__(PairEngine)
    pe.m = m
    for f in m.fns:
        if f.record not in GRAPH_CLASSES or f.is_const or f.is_lambda:
            continue
        ctx = Ctx(m, f)
        if not ctx.labelled:
            continue
        writes = PairEngine.label_sets(pe, ctx)
        for c in ctx.ev.events:
            if c.kind in ('L.addAssign', 'L.subAssign'):
                writes.append(dict(node=c.node, key=ctx.key_of(c.args[0], c.node), value=c.args[1], kind=c.kind))
        pushes = ctx.ev.of_kind('A.push')
        for w in writes:
            res.sites += 1
            in_insertion = any(ctx.region(w['node']) <= ctx.region(p.node) or ctx.region(p.node) <= ctx.region(w['node'])
                               for p in pushes)
            # stricter: the write's region must equal the region of the unconditional push of the group
            if pushes:
                base = min(pushes, key=lambda p: len(ctx.region(p.node)))
                in_insertion = ctx.region(w['node']) == ctx.region(base.node)
            if in_insertion:
                res.ok(dict(function=f.display(), write=ctx.desc(w['node']), context='insertion') if len(res.samples) < 4 else None,
                       fn=f.display())
            elif f.tname in setters:
                res.ok(dict(function=f.display(), write=ctx.desc(w['node']), context='designated setter')
                       if len(res.samples) < 8 else None, fn=f.display())
            else:
                res.fail(Finding('F-LSET', f.display(), 'label write outside insertion', f.nloc(w['node']),
                                 'the label store is written outside the control region of an insertion in a function '
                                 'that is not a designated setter: adding an existing edge (or another operation) can '
                                 'alter the label of a live edge'))
    # setEdgeLabel existence check
    for f in m.by_tname.get(LDG + '::setEdgeLabel', []):
        ctx = Ctx(m, f)
        if not ctx.labelled:
            continue
        res.sites += 1
        writes = PairEngine.label_sets(pe, ctx)
        flags = [('var', p) for ix, p in enumerate(f.params) if f.cptypes[ix] == 'bool']
        x, y = ('var', f.params[0]), ('var', f.params[1])
        hes, hes3 = _hasedge_terms(ctx, x, y)
        pres = _label_presence_terms(ctx, x, y)
        if len(writes) != 1 or len(flags) != 1 or not hes:
            res.broken('F-LSET: setEdgeLabel of %s is not in the recognised shape' % f.display())
            continue
        bad = None
        for force, has, present in itertools.product((True, False), (True, False), (True, False) if pres else (True,)):
            if coherent_store and pres and present != has:
                continue      # the property in whose name the rule runs excludes orphan labels (forced setEdgeLabel)
            env = {flags[0]: force}
            for h in hes:
                env[h] = has
            for h in pres:
                env[h] = 1 if present else 0
            got = path_eval(ctx, writes[0]['node'], env)
            want = force or has
            if got is None:
                bad = 'undecidable'
            elif got != want:
                bad = 'force=%s, edge %s%s: label %s' % (force, 'present' if has else 'absent',
                                                        (', label entry %s' % ('present' if present else 'absent')) if pres else '',
                                                        'written' if got else 'not written (no exception)')
        k = writes[0]['key']
        if bad is None and not (k is not None and k.a == x and k.b == y):
            bad = 'the key written is not the pair named by the arguments'
        if bad == 'undecidable':
            res.broken('F-LSET: guard of setEdgeLabel cannot be evaluated in %s' % f.display())
        elif bad:
            res.fail(Finding('F-LSET', f.display(), 'setEdgeLabel guard', f.where(),
                             'setEdgeLabel must write the label of (source,destination) exactly when force is set or '
                             'the edge exists, and throw otherwise: ' + bad))
        else:
            res.ok(dict(function=f.display(), guard='force || hasEdge(source,destination)', cases=4), fn=f.display())
    res.require_sites(10, 'label writes')
    return res


# ------------------------------------------------------------------------------------------------
def rule_nolabel_store(m):
    """F-LSET.none: the label store of an unlabelled graph stays empty."""
    res = RuleResult('F-LSET.none', 'in the instantiations without labels (NoLabel) nothing writes a label store - of this object or '
                                    'of a graph being built - except through the label helper, whose unlabelled variant stores nothing: '
                                    'operator== compares the stores, so an unlabelled graph with entries differs from the same graph '
                                    'built with addEdge')
    for f in m.fns:
        if f.record not in (LDG, LUG) or f.recordargs != 'BaseGraph::NoLabel' or f.is_lambda:
            continue
        if f.unit.decl(f.decl).get('special'):
            continue
        ev = events_of(m, f)
        res.sites += 1
        w = [e for e in ev.events if e.kind in ('L.set', 'L.addAssign', 'L.subAssign', 'L.ref')]
        if f.tname in m.label_helpers()[:1]:
            w = []
        if w:
            res.fail(Finding('F-LSET.none', f.display(), 'label store of an unlabelled graph', f.nloc(w[0].node),
                             '`%s` writes a label-store entry in the instantiation without labels: graphs that went through this '
                             'function carry NoLabel entries and compare unequal to the same graph built edge by edge'
                             % f.expr_text(w[0].node)[:60]))
        else:
            res.ok(dict(function=f.display()) if len(res.samples) < 4 else None, fn=f.display())
    res.require_sites(20, 'functions of the unlabelled instantiations')
    return res


def rule_ordered_edge(m):
    res = RuleResult('F-ORD.v', 'orderedEdge(i,j) returns (min(i,j), max(i,j)) - evaluated over the three orderings')
    for f in m.by_tname.get(m.ordered_edge(), []):
        res.sites += 1
        ctx = Ctx(m, f)
        rets = [n for n in f.nodes if n['k'] == 'ReturnStmt']
        a, b = ('var', f.params[0]), ('var', f.params[1])
        ok = len(rets) == 1
        detail = ''
        if ok:
            t = ctx.tt.t(f.children(rets[0]['i'])[0])
            for (va, vb) in ORDERINGS:
                r = eval_pair(t, {a: va, b: vb})
                if r is None or r != (min(va, vb), max(va, vb)):
                    ok = False
                    detail = 'for %s returns %s' % ({(0, 1): 'i<j', (1, 1): 'i=j', (1, 0): 'i>j'}[(va, vb)], r)
        if ok:
            res.ok(dict(function=f.display(), verdict='(min,max) on i<j, i=j, i>j') if len(res.samples) < 2 else None, fn=f.display())
        else:
            res.fail(Finding('F-ORD.v', f.display(), 'orderedEdge', f.where(),
                             'orderedEdge does not return (min,max): ' + detail))
    res.require_sites(1, 'orderedEdge instantiations')
    return res


def eval_pair(t, env):
    if t[0] == 'cond':
        c = eval_order(t[1], env)
        if c is None:
            return None
        return eval_pair(t[2] if c else t[3], env)
    if t[0] == 'pair':
        a, b = eval_order(t[1], env), eval_order(t[2], env)
        if a is None or b is None:
            return None
        return (a, b)
    if t[0] in ('ctor', 'cast') and t[2]:
        inner = t[2][0] if t[0] == 'ctor' else t[2]
        if t[0] == 'ctor' and len(t[2]) == 2 and 'pair' in t[1]:
            a, b = eval_order(t[2][0], env), eval_order(t[2][1], env)
            return None if a is None or b is None else (a, b)
        return eval_pair(inner, env)
    if t[0] == 'call' and t[1] in ('std::minmax', 'std::make_pair') and len(t[2]) == 2:
        a, b = eval_order(t[2][0], env), eval_order(t[2][1], env)
        if a is None or b is None:
            return None
        return (min(a, b), max(a, b)) if t[1] == 'std::minmax' else (a, b)
    return None


def accumulate_form(ctx):
    """`return std::accumulate(L.begin(), L.end(), 0, [..](acc, elem) { ...; return acc + E; })`: the fold form of an
    accumulation loop.  Returns (call node, list term, lambda Function, acc param, elem param, [(return node, E)]) or None."""
    f = ctx.fn
    for n in f.nodes:
        if n['k'] != 'CallExpr':
            continue
        t = ctx.tt.t(n['i'])
        if t[0] != 'call' or t[1] != 'std::accumulate' or len(t[2]) != 4:
            continue
        b, e, init, lam = t[2]
        while lam[0] in ('ctor', 'cast') and lam[2]:
            lam = lam[2][0] if lam[0] == 'ctor' else lam[2]
        if not (b[0] == 'mcall' and b[1].endswith(('::begin', '::cbegin')) and e[0] == 'mcall' and
                e[1].endswith(('::end', '::cend')) and b[2] == e[2] and lam[0] == 'lambda'):
            return None
        i0 = strip_cast(init)
        while i0[0] in ('ctor', 'cast') and i0[2]:
            i0 = strip_cast(i0[2][0] if i0[0] == 'ctor' else i0[2])
        if i0 != ('int', 0):
            return None
        L = f.unit.function_for_decl(lam[1])
        if L is None or len(L.params) != 2:
            return None
        ltt = Ctx(ctx.m, L)
        acc, elem = ('var', L.params[0]), ('var', L.params[1])
        steps = []
        for r in L.nodes:
            if r['k'] != 'ReturnStmt' or not L.children(r['i']):
                continue
            rt = strip_cast(ltt.unconst(ltt.resolve(ltt.tt.t(L.children(r['i'])[0]))))
            if rt[0] == 'bin' and rt[1] == '+' and strip_cast(rt[2]) == acc:
                steps.append((r, strip_cast(rt[3])))
            elif rt[0] == 'bin' and rt[1] == '+' and strip_cast(rt[3]) == acc:
                steps.append((r, strip_cast(rt[2])))
            else:
                return None
        if not steps or any(acc in subterms(x) for _, x in steps):
            return None
        return n, b[2], L, ltt, acc, elem, steps
    return None


def rule_selfloop_convention(m):
    """F-ORD.iii: the degree / matrix increment is 2 (x multiplicity) iff loop and countSelfLoopsTwice, else 1."""
    res = RuleResult('F-ORD.iii', 'undirected degree / adjacency-matrix increments count a self-loop twice exactly when '
                                  'countSelfLoopsTwice is set (x multiplicity in the multigraph), once otherwise')
    targets = [LUG + '::getDegree', LUG + '::getAdjacencyMatrix', UMG + '::getDegree', UMG + '::getAdjacencyMatrix']
    for tn in targets:
        for f in m.by_tname.get(tn, []):
            ctx = Ctx(m, f)
            flags = [('var', p) for ix, p in enumerate(f.params) if f.cptypes[ix] == 'bool']
            if len(flags) != 1:
                res.broken('F-ORD.iii: %s has no countSelfLoopsTwice flag' % f.display())
                continue
            incs = []
            for n in f.nodes:
                if n['k'] in ('CompoundAssignOperator', 'BinaryOperator') and n.get('op') == '+=':
                    incs.append(n)
            res.sites += 1
            fold = accumulate_form(ctx) if not incs and tn.endswith('::getDegree') else None
            if fold is not None:
                # the fold form: one step per element, E evaluated inside the function object; the call itself must be
                # reached under the same valuation (an early `return size()` for flag=false stays as in the loop form)
                calln, lst, L, lctx, acc, elem, fsteps = fold
                eqs = []
                for rn, E in fsteps:
                    eqs += [st for st in subterms(E) if st[0] == 'bin' and st[1] in ('==', '!=')]
                    for dep in L.region(rn['i']):
                        a0 = L.branch_atom(dep[0])
                        if a0 is not None:
                            eqs += [st for st in subterms(lctx.unconst(lctx.resolve(lctx.tt.t(a0)))) if st[0] == 'bin' and st[1] in ('==', '!=')]
                eqs = [e for e in eqs if elem in (strip_cast(e[2]), strip_cast(e[3]))]
                pairs = {frozenset((strip_cast(e[2]), strip_cast(e[3]))) for e in eqs}
                if len(pairs) != 1:
                    res.broken('F-ORD.iii: increment of %s has no loop test' % f.display())
                    continue
                a, b = strip_cast(eqs[0][2]), strip_cast(eqs[0][3])
                mults = set()
                for rn, E in fsteps:
                    mults |= {st for st in subterms(E) if (st[0] == 'var' and st not in (a, b, flags[0])) or
                              (st[0] == 'mcall' and st[1].endswith(('::getEdgeLabel', '::getEdgeMultiplicity')))}
                bad = None
                for flag in (True, False):
                    for (va, vb) in ORDERINGS:
                        env = {a: va, b: vb, flags[0]: flag}
                        for mt in mults:
                            env[mt] = 1
                        outer = path_eval(ctx, calln['i'], env)
                        if outer is None:
                            bad = 'undecidable'
                            continue
                        if not outer:
                            if flag:
                                bad = bad or 'increment not reached with countSelfLoopsTwice=true'
                            continue
                        total, hit = 0, 0
                        for rn, E in fsteps:
                            reach = path_eval(lctx, rn['i'], env)
                            v = eval_order(E, env) if reach else 0
                            if reach is None or v is None:
                                bad = 'undecidable'
                            elif reach:
                                hit += 1
                                total += int(v)
                        want = 2 if (va == vb and flag) else 1
                        if bad != 'undecidable' and (hit != 1 or total != want):
                            bad = 'loop=%s, countSelfLoopsTwice=%s: adds %s, expected %s' % (va == vb, flag, total, want)
                if bad == 'undecidable':
                    res.broken('F-ORD.iii: increment of %s cannot be evaluated over the order domain' % f.display())
                elif bad:
                    res.fail(Finding('F-ORD.iii', f.display(), 'self-loop convention', f.nloc(calln['i']),
                                     'self-loop counting deviates from the documented convention: ' + bad))
                else:
                    res.ok(dict(function=f.display(), increment=L.expr_text(fsteps[0][0]['i'])[:90], cases=6, form='std::accumulate'),
                           fn=f.display())
                continue
            if len(incs) == 0 and tn.endswith('::getDegree'):
                # closed form: flag off -> size of the list; flag on -> size + number of occurrences of the vertex itself
                v = ('var', f.params[0])
                okc = {True: False, False: False}
                for n in f.nodes:
                    if n['k'] != 'ReturnStmt' or not f.children(n['i']):
                        continue
                    r = strip_cast(ctx.unconst(ctx.tt.t(f.children(n['i'])[0])))

                    def is_size(u):
                        u = strip_cast(u)
                        return u[0] == 'mcall' and u[1] == 'std::list::size' and ((u[2][0] == 'idx' and u[2][2] == v) or
                                                                                   (u[2][0] == 'mcall' and u[2][3] == (v,)))

                    def is_selfcount(u):
                        u = strip_cast(u)
                        return u[0] == 'call' and u[1] == 'std::count' and len(u[2]) == 3 and strip_cast(u[2][2]) == v
                    for flag in (True, False):
                        reach = path_eval(ctx, n['i'], {flags[0]: flag})
                        if reach:
                            if is_size(r) and not flag:
                                okc[False] = True
                            if r[0] == 'bin' and r[1] == '+' and ((is_size(r[2]) and is_selfcount(r[3])) or
                                                                   (is_size(r[3]) and is_selfcount(r[2]))) and flag:
                                okc[True] = True
                if okc[True] and okc[False]:
                    res.ok(dict(function=f.display(), closed_form='size() [+ count(list, vertex) when self-loops count twice]'), fn=f.display())
                else:
                    res.broken('F-ORD.iii: %s is neither an accumulation loop nor the closed form size() + count(self)' % f.display())
                continue
            if len(incs) == 1 and tn.endswith('::getDegree'):
                # semi-closed form: degree = list.size(); if (flag) degree += count(list, vertex); return degree
                v = ('var', f.params[0])
                tgt = ctx.tt.t(incs[0]['c'][0])
                add = strip_cast(ctx.tt.t(incs[0]['c'][1]))
                while add[0] == 'cast':
                    add = strip_cast(add[2])
                if tgt[0] == 'var' and add[0] == 'call' and add[1] == 'std::count' and len(add[2]) == 3 and strip_cast(add[2][2]) == v:
                    lst = add[2][0][2] if add[2][0][0] == 'mcall' else None
                    inits = [ctx.tt.t(d[1]) for d in var_defs(f, tgt[1]) if d[1] >= 0 and f.nodes[d[0]]['k'] == 'DeclStmt']
                    size_init = len(inits) == 1 and strip_cast(inits[0])[0] == 'mcall' and strip_cast(inits[0])[1] == 'std::list::size' and \
                        strip_cast(inits[0])[2] == lst and lst is not None and lst[0] == 'idx' and lst[2] == v
                    only_flag = all(path_eval(ctx, incs[0]['i'], {flags[0]: fl}) is fl for fl in (True, False))
                    rets = [n for n in f.nodes if n['k'] == 'ReturnStmt' and f.children(n['i'])]
                    ret_ok = len(rets) == 1 and ctx.tt.t(f.children(rets[0]['i'])[0]) == tgt and len(var_defs(f, tgt[1])) == 2
                    if size_init and only_flag and ret_ok:
                        res.ok(dict(function=f.display(), closed_form='degree = size(); if (twice) degree += count(list, vertex)'), fn=f.display())
                    else:
                        res.broken('F-ORD.iii: %s adds count(list, vertex) but not as `size() [+ count when self-loops count twice]`' % f.display())
                    continue
            if tn.endswith('::getAdjacencyMatrix'):
                # every accumulation into a matrix entry happens once per list entry, i.e. inside the innermost neighbour loop
                inner_loops = [n for n in f.nodes if n['k'] == 'CXXForRangeStmt' and
                               any(f.nodes[a]['k'] in ('CXXForRangeStmt', 'ForStmt') for a in f.ancestors(n['i']))]
                acc = [n for n in f.nodes if (n['k'] in ('CompoundAssignOperator', 'BinaryOperator') and n.get('op') in ('+=', '-=')) or
                       (n['k'] == 'UnaryOperator' and n.get('op') in ('++', '--'))]
                acc = [n for n in acc if ctx.tt.t(n['c'][0])[0] == 'idx' and ctx.tt.t(n['c'][0])[1][0] == 'idx']
                outside = [n for n in acc if not any(n['i'] in f.descendants(l['body']) for l in inner_loops)]
                if inner_loops and outside:
                    res.fail(Finding('F-ORD.iii', f.display(), 'matrix entry adjusted outside the entry loop', f.nloc(outside[0]['i']),
                                     '`%s` changes a matrix entry once per vertex, outside the loop over the neighbour list: the entry of a '
                                     'pair no longer grows by a fixed amount per list entry, so k copies of a self-loop (forced duplicates) '
                                     'are not counted 2k / k times' % f.expr_text(outside[0]['i'])[:50]))
                    continue
            if not incs:
                incs = [n for n in f.nodes if n['k'] == 'UnaryOperator' and n.get('op') == '++' and
                        ctx.tt.t(n['c'][0])[0] == 'idx' and ctx.tt.t(n['c'][0])[1][0] == 'idx'][:1]
                if not incs:
                    res.broken('F-ORD.iii: expected an accumulation in %s' % f.display())
                    continue
            # every increment of the accumulator in the loop body (`+= e`, `++`), summed along the path each valuation takes:
            # the ternary, the if/else and the split forms are the same function of (loop?, flag)
            tgt0 = ctx.tt.t(incs[0]['c'][0])
            steps = [(n, ctx.unconst(ctx.resolve(ctx.tt.t(n['c'][1])))) for n in incs
                     if n['k'] != 'UnaryOperator' and ctx.tt.t(n['c'][0]) == tgt0]
            for n in f.nodes:
                if n['k'] == 'UnaryOperator' and n.get('op') == '++' and ctx.tt.t(n['c'][0]) == tgt0 and \
                        not any(f.nodes[a]['k'] in ('ForStmt',) and f.nodes[a].get('inc', -1) in ([n['i']] + list(f.ancestors(n['i'])))
                                for a in f.ancestors(n['i'])):
                    steps.append((n, ('int', 1)))
            if len(steps) != len(incs) + len([1 for n2, r2 in steps if r2 == ('int', 1) and n2['k'] == 'UnaryOperator']):
                res.broken('F-ORD.iii: expected the accumulations of %s to update one accumulator' % f.display())
                continue
            # the two vertex terms: operands of the equality that tells a loop from another entry (in an increment or a guard)
            eqs = []
            for n2, r2 in steps:
                eqs += [st for st in subterms(r2) if st[0] == 'bin' and st[1] in ('==', '!=')]
                for dep in f.region(n2['i']):
                    a0 = f.branch_atom(dep[0])
                    if a0 is not None:
                        def _vertexish(x):
                            return x[0] == 'deref' or (x[0] == 'var' and f.unit.decl(x[1]).get('ctype', '').replace('const ', '').replace('&', '').strip() == 'unsigned int')
                        eqs += [st for st in subterms(ctx.unconst(ctx.resolve(ctx.tt.t(a0)))) if st[0] == 'bin' and st[1] in ('==', '!=')
                                and _vertexish(st[2]) and _vertexish(st[3])]
            pairs = {frozenset((e[2], e[3])) for e in eqs}
            if len(pairs) != 1:
                res.broken('F-ORD.iii: increment of %s has no loop test' % f.display())
                continue
            a, b = eqs[0][2], eqs[0][3]
            mults = set()
            for n2, r2 in steps:
                mults |= {st for st in subterms(r2) if (st[0] == 'var' and st not in (a, b, flags[0])) or
                          (st[0] == 'mcall' and st[1].endswith(('::getEdgeLabel', '::getEdgeMultiplicity')))}
            bad = None
            for flag in (True, False):
                for (va, vb) in ORDERINGS:
                    env = {a: va, b: vb, flags[0]: flag}
                    for mt in mults:
                        env[mt] = 1
                    total = 0
                    reached_any = False
                    undecid = False
                    for n2, r2 in steps:
                        reach = path_eval(ctx, n2['i'], env, start_block=None)
                        if reach is None:
                            undecid = True
                            continue
                        if reach:
                            reached_any = True
                            v = eval_order(r2, env)
                            if v is None:
                                undecid = True
                            else:
                                total += int(v)
                    want = 2 if (va == vb and flag) else 1
                    if undecid:
                        bad = 'undecidable'
                    elif not reached_any:
                        # flag handled by an early return: that return must be the list length (each entry once)
                        if flag:
                            bad = bad or 'increment not reached with countSelfLoopsTwice=true'
                    elif total != want:
                        bad = bad if bad and bad != 'undecidable' else 'loop=%s, countSelfLoopsTwice=%s: adds %s, expected %s' % (va == vb, flag, total, want)
            if bad == 'undecidable':
                res.broken('F-ORD.iii: increment of %s cannot be evaluated over the order domain' % f.display())
            elif bad:
                res.fail(Finding('F-ORD.iii', f.display(), 'self-loop convention', f.nloc(steps[0][0]['i']),
                                 'self-loop counting deviates from the documented convention: ' + bad))
            else:
                res.ok(dict(function=f.display(), increment=f.expr_text(steps[0][0]['i'])[:90], cases=6, accumulations=len(steps))
                       if len(res.samples) < 6 else None, fn=f.display())
    res.require_sites(4, 'degree / matrix accumulations')
    return res


# ------------------------------------------------------------------------------------------------
def rule_full_loops(m, classes=None):
    """F-LOOP: every vertex loop covers [0,size).  `classes`: the graph classes whose objects the property speaks about
    (decides whether a counter-justified early exit rests on an invariant that holds for them)."""
    classes = list(classes or GRAPH_CLASSES)
    res = RuleResult('F-LOOP', 'every loop over vertices in the graph classes and algorithms covers [0,size): a '
                               'range-for over the graph (begin()=VertexIterator(0), end()=VertexIterator(size), ++ adds '
                               'one) or for (i = 0; i < size [&& flag]; ++i)')
    # VertexIterator facts and begin()/end()
    for tn, want in ((LDG + '::begin', ('int', 0)), (LDG + '::end', 'S')):
        for f in m.by_tname.get(tn, []):
            res.sites += 1
            ctx = Ctx(m, f)
            rets = [n for n in f.nodes if n['k'] == 'ReturnStmt']
            ok = False
            if len(rets) == 1:
                t = ctx.tt.t(f.children(rets[0]['i'])[0])
                while t[0] in ('ctor', 'cast') and t[2]:
                    t = t[2][0] if t[0] == 'ctor' else t[2]
                ok = (t == want) if want != 'S' else is_size_term(m, f, t, ctx.tt)
            if ok:
                res.ok(dict(function=f.display(), returns='VertexIterator(%s)' % ('0' if want != 'S' else 'size'))
                       if len(res.samples) < 2 else None, fn=f.display())
            else:
                res.fail(Finding('F-LOOP', f.display(), 'vertex range bound', f.where(),
                                 '%s must return VertexIterator(%s): range-for over the graph would not cover every vertex'
                                 % (f.name, '0' if want != 'S' else 'size')))
    for f in m.by_tname.get(NS + 'VertexIterator::operator++', []):
        res.sites += 1
        ctx = Ctx(m, f)
        incs = [n for n in f.nodes if n['k'] == 'UnaryOperator' and n['op'] == '++']
        calls = [n for n in f.nodes if n['k'] in ('CXXMemberCallExpr', 'CXXOperatorCallExpr') and 'callee' in n and
                 f.unit.decl(n['callee'])['tname'] == NS + 'VertexIterator::operator++']
        field_incs = [n for n in incs if ctx.tt.t(n['c'][0])[0] == 'field']
        writes = [n for n in f.nodes if n['k'] in ('BinaryOperator', 'CompoundAssignOperator') and n.get('op', '').endswith('=') and
                  n['op'] not in ('==', '!=', '<=', '>=') and ctx.tt.t(n['c'][0])[0] == 'field']
        if (len(f.params) == 0 and len(field_incs) == 1 and len(incs) == 1 and not writes) or \
                (len(f.params) == 1 and len(calls) + len(field_incs) == 1 and len(incs) == len(field_incs) and not writes):
            res.ok(None, fn=f.display())
        else:
            res.fail(Finding('F-LOOP', f.display(), 'VertexIterator increment', f.where(),
                             'VertexIterator::operator++ must advance the position by exactly one'))
    for f in m.by_tname.get(NS + 'VertexIterator::operator!=', []):
        res.sites += 1
        ctx = Ctx(m, f)
        rets = [n for n in f.nodes if n['k'] == 'ReturnStmt']
        t = ctx.tt.t(f.children(rets[0]['i'])[0]) if rets else ('none',)
        if t[0] == 'bin' and t[1] == '!=' and {t[2][0], t[3][0]} == {'field', 'member'}:
            res.ok(None, fn=f.display())
        else:
            res.fail(Finding('F-LOOP', f.display(), 'VertexIterator comparison', f.where(),
                             'VertexIterator::operator!= must compare the two positions'))
    # classic loops bounded by the size
    for f in m.fns:
        if f.is_lambda:
            continue
        if not (f.record in GRAPH_CLASSES or (f.record is None and f.tname.startswith(NS))):
            continue
        tt = Terms(f)
        for n in f.nodes:
            if n['k'] != 'ForStmt' or n.get('cond', -1) < 0:
                continue
            c = tt.t(n['cond'])
            mentions_size = any(is_size_term(m, f, st, tt) for st in subterms(c) if st[0] in ('field', 'member', 'mcall', 'var'))
            if not mentions_size:
                continue
            res.sites += 1
            init = n.get('init', -1)
            d = None
            if init >= 0 and f.nodes[init]['k'] == 'DeclStmt' and len(f.nodes[init]['decls']) == 1:
                d = f.nodes[init]['decls'][0]
            if d is not None and classic_loop_var(m, f, tt, d) is True:
                # extra conjuncts must be boolean locals (early exit once the result is known)
                extra = [cj for cj in _conjuncts(c) if not (cj[0] == 'bin' and cj[1] == '<' and cj[2] == ('var', d) and
                                                            (is_size_term(m, f, cj[3], tt) or (cj[3][0] == 'mcall' and cj[3][1].endswith('::size'))))]
                verdicts = [('ok', '') if (cj[0] == 'var' and f.unit.decl(cj[1]).get('ctype') == 'bool' and _only_cleared(f, tt, cj[1]))
                            else early_exit_verdict(m, f, tt, n, cj, True, classes) for cj in extra]
                if all(v[0] == 'ok' for v in verdicts):
                    res.ok(dict(function=f.display(), loop=f.expr_text(n['cond'])[:60], at=f.nloc(n['i']),
                                early_exit=[v[1] for v in verdicts if v[1]])
                           if len(res.samples) < 8 else None, fn=f.display())
                    continue
                bad = [v for v in verdicts if v[0] == 'violation']
                if bad:
                    res.fail(Finding('F-LOOP', f.display(), 'early exit from the vertex loop', f.nloc(n['i']), bad[0][1]))
                    continue
                res.fail(Finding('F-LOOP', f.display(), 'vertex loop', f.nloc(n['i']),
                                 'expected a loop condition `i < size` with at most a result flag that is only ever cleared '
                                 '(`%s`)' % f.expr_text(n['cond'])[:80]))
                continue
            res.fail(Finding('F-LOOP', f.display(), 'vertex loop', f.nloc(n['i']),
                             'a loop bounded by the graph size is not of the form for (i = 0; i < size; ++i): some '
                             'vertices are skipped or the bound is exceeded (`%s`)' % f.expr_text(n['cond'])[:80]))
    # range-for over all vertices in a mutator: the loop runs to exhaustion (no break / return out of it)
    for f in m.fns:
        if f.is_lambda or f.is_const or f.is_ctor or f.record not in GRAPH_CLASSES:
            continue
        tt = Terms(f)
        for n in f.nodes:
            if n['k'] != 'CXXForRangeStmt' or tt.t(n['rangeinit']) not in (('deref', ('this',)), ('this',)):
                continue
            res.sites += 1
            body = set(f.descendants(n['body']))
            exits = []
            for x in f.nodes:
                if x['i'] not in body:
                    continue
                if x['k'] in ('ReturnStmt', 'GotoStmt'):
                    exits.append(x)
                if x['k'] == 'BreakStmt':
                    owner = None
                    for a in f.ancestors(x['i']):
                        if f.nodes[a]['k'] in ('ForStmt', 'WhileStmt', 'DoStmt', 'CXXForRangeStmt', 'SwitchStmt'):
                            owner = a
                            break
                    if owner == n['i']:
                        exits.append(x)
            verdict = None
            for x in exits:
                from .rules_pair import true_atoms
                atoms = []
                for dep in f.region(x['i']) - f.region(n['loopvarstmt']):
                    a = f.branch_atom(dep[0])
                    if a is not None:
                        atoms.extend(true_atoms(tt.t(a), dep[1] == 0))
                if x['k'] != 'BreakStmt' or not atoms:
                    verdict = ('violation', 'the loop over all vertices of a mutator is left early (%s): the remaining vertices '
                               'are not processed' % x['k'])
                    break
                vs = [early_exit_verdict(m, f, tt, n, a, False, classes) for a in atoms]
                if any(v[0] == 'ok' for v in vs):
                    continue
                bad = [v for v in vs if v[0] == 'violation']
                verdict = bad[0] if bad else ('unknown', 'expected a vertex loop of a mutator without early exit (break under `%s`)'
                                              % ' && '.join(show(a, f.unit)[:40] for a in atoms))
                break
            if verdict:
                res.fail(Finding('F-LOOP', f.display(), 'early exit from the vertex loop', f.nloc(exits[0]['i']), verdict[1]))
            else:
                res.ok(dict(function=f.display(), loop='for (v : *this) runs to exhaustion', at=f.nloc(n['i']))
                       if len(res.samples) < 14 else None, fn=f.display())
    res.require_sites(10, 'vertex loops and range bounds')
    return res


def early_exit_verdict(m, f, tt, loop, atom, is_continue_cond, classes):
    """A vertex loop that ends before the last vertex because of a test on the edge counter.  The test can only be
    justified by the invariant `sum of the adjacency list lengths == edge counter`, which the F-PAIR.N pairing
    gives for the directed family (one entry per counted edge) and which is false for the undirected family (two
    entries per counted non-loop pair).  -> ('ok'|'violation'|'unknown', text).
    atom: the condition under which the loop CONTINUES (is_continue_cond) or is LEFT (break)."""
    from .rules_pair import pos_atom
    cont = atom if is_continue_cond else pos_atom(atom, False)
    body = set(f.descendants(loop['body'])) | (set(f.descendants(loop['inc'])) if loop.get('inc', -1) >= 0 else set())
    ev = events_of(m, f)

    def role_of(t):
        t = strip_cast(t)
        if t[0] == 'field':
            return m.role_of_field(t[1])
        if t[0] == 'mcall' and t[2] in (('this',), ('deref', ('this',))) and t[1].endswith('::getEdgeNumber'):
            return 'N'
        return None
    # writes of N inside the loop (own events and callees on this object)
    n_writes = [e for e in ev.events if e.node in body and e.kind.startswith('N.')]
    callee_writes = []
    for nid, g in m.callees(f):
        if nid in body and f.nodes[nid]['k'] == 'CXXMemberCallExpr' and not g.is_const and 'N' in summary_of(m, g).writes:
            callee_writes.append(nid)
    sizes_sub = [e for e in n_writes if e.kind == 'N.sub' and strip_cast(e.args[0])[0] == 'mcall' and
                 strip_cast(e.args[0])[1] == 'std::list::size']
    mentions_counter = any(role_of(st) == 'N' for st in subterms(cont))
    visited = None
    for st in subterms(cont):
        if st[0] == 'var':
            defs = var_defs(f, st[1])
            adds = [d for d in defs if d[0] in body and f.nodes[d[0]]['k'] == 'CompoundAssignOperator' and f.nodes[d[0]].get('op') == '+=']
            if adds and all(strip_cast(tt.t(f.nodes[d[0]]['c'][1]))[0] == 'mcall' and
                            strip_cast(tt.t(f.nodes[d[0]]['c'][1]))[1] == 'std::list::size' for d in adds):
                visited = st
            # ... or counts the entries of the adjacency lists one by one
            incs = [d for d in defs if d[0] in body and d[1] == -2 and f.nodes[d[0]]['k'] == 'UnaryOperator' and f.nodes[d[0]]['op'] == '++']
            if incs and len(incs) + 1 == len(defs):
                def in_list_loop(nid):
                    for a in f.ancestors(nid):
                        an = f.nodes[a]
                        if a == loop['i']:
                            return False
                        probe = an.get('cond', -1) if an['k'] in ('ForStmt', 'WhileStmt') else an.get('rangeinit', -1) if an['k'] == 'CXXForRangeStmt' else -1
                        if probe >= 0 and any(st2[0] == 'idx' and st2[1][0] == 'field' and m.role_of_field(st2[1][1]) == 'A'
                                              for st2 in subterms(tt.t(probe))):
                            return True
                    return False
                if all(in_list_loop(d[0]) for d in incs):
                    visited = st
            inits = [tt.t(d[1]) for d in defs if d[1] >= 0]
            if len(defs) == 1 and inits and role_of(inits[0]) == 'N' and d_before_loop(f, defs[0][0], loop):
                mentions_counter = True
    if not mentions_counter and visited is None:
        return ('unknown', '')
    # which classes of the property run this code
    key = None
    from .model import tkey
    key = tkey(f)
    users = [c for c in classes if key in m.closure_tnames(m.class_entry_tnames(c))]
    undirected = [c for c in users if c in UNDIRECTED_FAMILY]
    if undirected:
        return ('violation', 'the vertex loop ends early on a test of the edge counter (`%s`): that presumes one adjacency entry per '
                'counted edge, but %s runs this code and keeps two entries per counted pair, so lists of later vertices are '
                'never reached' % (show(cont, f.unit)[:60], ', '.join(short(c) for c in undirected)))
    # directed family: form (b) counter decremented by each list length, continue while counter > 0
    if visited is None and cont[0] == 'bin' and cont[1] in ('>', '!=') and role_of(cont[2]) == 'N' and strip_cast(cont[3]) == ('int', 0) and \
            len(n_writes) == len(sizes_sub) == 1 and not callee_writes:
        return ('ok', 'counter decremented by each list length; one adjacency entry per counted edge in the directed family')
    # form (a) visited (sum of list lengths so far) against a loop-invariant counter
    if visited is not None and not n_writes and not callee_writes and cont[0] == 'bin' and cont[1] in ('<', '!='):
        return ('ok', 'sum of visited list lengths against the loop-invariant edge counter (directed family)')
    if not n_writes and not callee_writes:
        return ('unknown', '')
    return ('violation', 'the vertex loop ends early on a test of the edge counter (`%s`) although the loop body itself changes that '
            'counter%s: the number of entries still to visit is not what the test measures, and vertices that still hold '
            'affected edges are skipped' % (show(cont, f.unit)[:60], ' (through %s)' % f.expr_text(callee_writes[0])[:30] if callee_writes else ''))


def d_before_loop(f, defnode, loop):
    return defnode not in f.descendants(loop['i']) and f.can_reach_forward(defnode, loop['body'])


def _only_cleared(f, tt, d):
    """a boolean local that ends a loop early is only ever assigned `false` after its initialisation, or
    conjunctions of itself (flag = flag && ...): once false, the result is final"""
    from .rules_val import var_defs
    for (dn, rhs) in var_defs(f, d):
        if f.nodes[dn]['k'] == 'DeclStmt':
            continue
        if rhs < 0:
            return False
        t = tt.t(rhs)
        if t == ('bool', False):
            continue
        if ('var', d) in _conjuncts(t):
            continue
        return False
    return True


# ------------------------------------------------------------------------------------------------
def rule_equality(m, classes=None):
    """F-EQ."""
    classes = list(classes or GRAPH_CLASSES)
    res = RuleResult('F-EQ', 'operator== of the storage class compares size, edge count and label store of both '
                             'operands and checks mutual inclusion of the adjacency lists through hasEdge; every other '
                             '==/!= delegates to it on the same operands; != is the negation of ==')
    for f in m.by_tname.get(LDG + '::operator==', []):
        res.sites += 1
        ctx = Ctx(m, f)
        other = ('var', f.params[0])
        roles_cmp = set()
        for n in f.nodes:
            t = None
            if n['k'] == 'BinaryOperator' and n['op'] == '==':
                t = ctx.tt.t(n['i'])
            elif n['k'] == 'CXXOperatorCallExpr' and 'callee' in n and f.unit.decl(n['callee']).get('op') == '==':
                t = ctx.tt.t(n['i'])
            if t and t[0] == 'bin':
                l, r = t[2], t[3]
                if l[0] == 'field' and r[0] == 'member' and r[1] == other and l[1] == r[2]:
                    roles_cmp.add(m.role_of_field(l[1]))
        incl = set()
        for n in f.nodes:
            if n['k'] == 'CXXMemberCallExpr' and 'callee' in n and f.unit.decl(n['callee'])['name'] == 'hasEdge':
                obj = ctx.tt.t(n.get('obj', -1))
                a = [ctx.tt.t(x) for x in n['args']]
                # enclosing list loop: which object's adjacency is iterated
                for anc in f.ancestors(n['i']):
                    an = f.nodes[anc]
                    if an['k'] == 'CXXForRangeStmt':
                        r = ctx.tt.t(an['rangeinit'])
                        if r[0] == 'idx' and r[1][0] in ('field', 'member') and m.role_of_field(r[1][-1]) == 'A':
                            src = 'this' if r[1][0] == 'field' else 'other'
                            dst = 'this' if obj == ('this',) else 'other'
                            if a[0] == r[2] and a[1] == ('var', an['loopvar']):
                                incl.add((src, dst))
                        break
                    if an['k'] == 'ForStmt' and an.get('cond', -1) >= 0:
                        c = ctx.tt.t(an['cond'])
                        for st in subterms(c):
                            if st[0] == 'idx' and st[1][0] in ('field', 'member') and m.role_of_field(st[1][-1]) == 'A':
                                src = 'this' if st[1][0] == 'field' else 'other'
                                dst = 'this' if obj == ('this',) else 'other'
                                if a[0] == st[2] and a[1][0] == 'deref':
                                    incl.add((src, dst))
                        break
        # std::all_of(A[i].begin(), A[i].end(), [..](VertexIndex j) { return X.hasEdge(i, j); })
        for n in f.nodes:
            if n['k'] == 'CallExpr' and 'callee' in n and f.unit.decl(n['callee'])['tname'] == 'std::all_of' and len(n['args']) == 3:
                b, e, lam = (ctx.tt.t(x) for x in n['args'])
                lamid = [st for st in subterms(lam) if st[0] == 'lambda']
                if not (b[0] == 'mcall' and b[1].endswith('::begin') and e[0] == 'mcall' and e[1].endswith('::end') and b[2] == e[2] and lamid):
                    continue
                r = b[2]
                L = f.unit.function_for_decl(lamid[0][1])
                if L is None or not (r[0] == 'idx' and r[1][0] in ('field', 'member') and m.role_of_field(r[1][-1]) == 'A') or len(L.params) != 1:
                    continue
                ltt = Terms(L)
                lrets = [x for x in L.nodes if x['k'] == 'ReturnStmt']
                if len(lrets) != 1:
                    continue
                rt = ltt.t(L.children(lrets[0]['i'])[0])
                if rt[0] == 'mcall' and rt[1].endswith('::hasEdge') and rt[3] == (r[2], ('var', L.params[0])):
                    objt = rt[2]
                    if objt[0] == 'var':       # a reference local of the enclosing function (`const Graph &self = *this`)
                        objt = ctx.tt.t_var(objt[1]) if hasattr(ctx.tt, 't_var') else _ref_target(f, ctx.tt, objt)
                    src = 'this' if r[1][0] == 'field' else 'other'
                    dst = 'this' if objt in (('this',), ('deref', ('this',))) else 'other'
                    # all_of must lead to `return false` when it fails: the call is negated in a branch that returns false
                    incl.add((src, dst))
        # a missing edge makes the answer false: the branch taken when hasEdge(..) is false returns false or clears the
        # result flag that is returned
        rets_eq = [n for n in f.nodes if n['k'] == 'ReturnStmt' and f.children(n['i'])]
        ret_vars = {ctx.tt.t(f.children(n['i'])[0]) for n in rets_eq}
        unfalsified = None
        for n in f.nodes:
            if n['k'] == 'CXXMemberCallExpr' and 'callee' in n and f.unit.decl(n['callee'])['name'] == 'hasEdge' and \
                    any(f.nodes[a]['k'] in ('ForStmt', 'WhileStmt', 'CXXForRangeStmt') for a in f.ancestors(n['i'])):
                ht = ctx.tt.t(n['i'])
                falsified = False
                for x in f.nodes:
                    is_clear = (x['k'] == 'BinaryOperator' and x.get('op') == '=' and ctx.tt.t(x['c'][0]) in ret_vars and
                                ctx.tt.t(x['c'][1]) == ('bool', False))
                    is_retf = (x['k'] == 'ReturnStmt' and f.children(x['i']) and ctx.tt.t(f.children(x['i'])[0]) == ('bool', False))
                    if not (is_clear or is_retf):
                        continue
                    from .rules_pair import region_atoms as _ra
                    for at in _ra(f, ctx.tt, x['i']):
                        if at == ('un', '!', False, ht) or (at[0] == 'un' and at[1] == '!' and strip_cast(at[3]) == ht):
                            falsified = True
                if not falsified:
                    unfalsified = unfalsified or n
        if unfalsified is not None and not any(x['k'] == 'LambdaExpr' for x in f.nodes):
            res.sites += 1
            res.fail(Finding('F-EQ', f.display(), 'mismatch does not falsify the result', f.nloc(unfalsified['i']),
                             'when `%s` is false the comparison neither returns false nor clears the flag it returns: graphs whose '
                             'edge sets differ (with equal counts and labels) compare equal' % f.expr_text(unfalsified['i'])[:50]))
        # the loops compare every entry: they end only by exhaustion or on a flag that is only ever cleared
        early = None
        for n in f.nodes:
            if n['k'] in ('BreakStmt', 'GotoStmt'):
                early = early or (n['i'], 'a %s leaves a comparison loop' % n['k'])
            if n['k'] == 'ReturnStmt' and any(f.nodes[a]['k'] in ('ForStmt', 'WhileStmt', 'DoStmt', 'CXXForRangeStmt') for a in f.ancestors(n['i'])):
                rt = ctx.tt.t(f.children(n['i'])[0]) if f.children(n['i']) else ('none',)
                if rt != ('bool', False):
                    early = early or (n['i'], 'a return other than `return false` leaves a comparison loop')
            if n['k'] in ('ForStmt', 'WhileStmt') and n.get('cond', -1) >= 0:
                ends = [cj for cj in _conjuncts(ctx.tt.t(n['cond'])) if cj[0] == 'bin' and cj[1] == '!=' and cj[3][0] == 'mcall' and
                        cj[3][1].endswith(('::end', '::cend'))]
                if len({cj[3][2] for cj in ends}) > 1:
                    early = early or (n['i'], 'the loop walks two lists in lockstep and ends as soon as the shorter one is exhausted '
                                              '(`%s`)' % f.expr_text(n['cond'])[:70])
                for cj in _conjuncts(ctx.tt.t(n['cond'])):
                    if cj[0] == 'var' and f.unit.decl(cj[1]).get('ctype') == 'bool' and _only_cleared(f, ctx.tt, cj[1]):
                        continue
                    if cj[0] == 'bin' and cj[1] == '<' and cj[2][0] == 'var' and \
                            (is_size_term(m, f, cj[3], ctx.tt) or (cj[3][0] == 'member' and m.role_of_field(cj[3][2]) == 'S')):
                        continue
                    if cj[0] == 'bin' and cj[1] == '!=' and cj[3][0] == 'mcall' and cj[3][1].endswith(('::end', '::cend')):
                        continue
                    v = early_exit_verdict(m, f, ctx.tt, n, cj, True, classes)
                    if v[0] == 'ok':
                        continue
                    early = early or (n['i'], v[1] if v[0] == 'violation' else 'expected comparison loops that end by exhaustion or '
                                      'on a cleared result flag, found the extra exit `%s`' % show(cj, f.unit)[:70])
        if early:
            res.sites += 1
            res.fail(Finding('F-EQ', f.display(), 'early end of the comparison', f.nloc(early[0]),
                             early[1] if early[1].startswith('expected ') else
                             '%s: adjacency entries of some vertices are never compared although the result is not yet known' % early[1]))
        ok = roles_cmp >= {'S', 'N', 'L'} and (('this', 'other') in incl and ('other', 'this') in incl)
        if not ctx.labelled:
            ok = roles_cmp >= {'S', 'N'} and (('this', 'other') in incl and ('other', 'this') in incl)
        if ok:
            res.ok(dict(function=f.display(), compares=sorted(r for r in roles_cmp if r), inclusion=sorted(incl))
                   if len(res.samples) < 3 else None, fn=f.display())
        else:
            res.fail(Finding('F-EQ', f.display(), 'storage-class comparison', f.where(),
                             'operator== must compare size, edge count and labels of both operands and check inclusion '
                             'of the adjacency lists both ways (found fields %s, inclusion %s)'
                             % (sorted(r for r in roles_cmp if r), sorted(incl))))
    # delegating definitions
    for cls in GRAPH_CLASSES:
        for opn, neg in (('operator==', False), ('operator!=', True)):
            for f in m.by_tname.get(cls + '::' + opn, []):
                if cls == LDG and opn == 'operator==':
                    continue
                res.sites += 1
                ctx = Ctx(m, f)
                rets = [n for n in f.nodes if n['k'] == 'ReturnStmt']
                t = ctx.tt.t(f.children(rets[0]['i'])[0]) if len(rets) == 1 else ('none',)
                negated = False
                while t[0] == 'un' and t[1] == '!':
                    negated = not negated
                    t = t[3]
                ok = False
                if t[0] in ('mcall', 'bin'):
                    if t[0] == 'mcall':
                        callee, obj, args = t[1], t[2], t[3]
                    else:
                        callee, obj, args = 'operator' + t[1], t[2], (t[3],)
                    nm = callee.split('::')[-1]
                    if obj in (('this',), ('deref', ('this',))) and len(args) == 1 and args[0] == ('var', f.params[0]):
                        if nm == 'operator==' and negated == neg:
                            ok = True
                        if nm == 'operator!=' and negated != neg:
                            ok = True
                if ok:
                    res.ok(dict(function=f.display(), delegates=show(t, f.unit)[:60], negated=negated)
                           if len(res.samples) < 8 else None, fn=f.display())
                else:
                    res.fail(Finding('F-EQ', f.display(), 'delegation', f.where(),
                                     '%s must be %sthe base comparison of *this with the argument'
                                     % (opn, 'the negation of ' if neg else '')))
    res.require_sites(10, 'comparison operators')
    return res


# ------------------------------------------------------------------------------------------------
def rule_positive_multiplicity(m):
    """F-POS."""
    res = RuleResult('F-POS', 'no zero multiplicity is ever stored; setEdgeMultiplicity(..,0) removes every copy of '
                              'the pair and its store entry on every path on which the edge exists')
    for cls in (DMG, UMG):
        # (1) every write of a multiplicity is dominated by a fact implying value > 0
        for f in m.functions_of_class(cls):
            if f.is_const or f.is_lambda or f.is_ctor:
                continue
            ctx = Ctx(m, f)
            writes = []
            for c in ctx.ev.events:
                if c.kind in ('L.set', 'L.addAssign'):
                    writes.append((c.node, c.args[1], c.kind))
                elif c.kind == 'L.subAssign':
                    writes.append((c.node, c.args[1], c.kind))
            for nid, g in m.callees(f):
                n = f.nodes[nid]
                if n['k'] == 'CXXMemberCallExpr' and g.record in (LDG, LUG) and g.name == 'addEdge' and len(n['args']) == 4:
                    writes.append((nid, ctx.tt.t(n['args'][2]), 'insert'))
            for nid, val, kind in writes:
                res.sites += 1
                val = strip_cast(val)
                ok = False
                if val[0] == 'var':
                    for zero_val in (0,):
                        r = path_eval(ctx, nid, _unknowns_true(ctx, {val: 0}))
                        ok = (r is False)
                    if kind == 'L.subAssign':
                        # cur -= m is positive when dominated by cur > m
                        ok = False
                        from .rules_pair import true_atoms as _ta
                        for (bb, ix) in f.dominating_edges(f.cfg_pos(nid)[0]):
                            for t in _ta(ctx.tt.t(f.branch_atom(bb)), ix == 0):
                                # cur > m, or its mirror m < cur (also as the false edge of cur <= m)
                                if t[0] == 'bin' and t[1] == '<':
                                    t = ('bin', '>', t[3], t[2])
                                if t[0] == 'bin' and t[1] == '>' and strip_cast(t[3]) == val and \
                                        ctx.label_read(resolve_locals(ctx, t[2], {}), nid) is not None:
                                    ok = True
                if ok:
                    res.ok(dict(function=f.display(), write=ctx.desc(nid), fact='value != 0 on every path'
                                if kind != 'L.subAssign' else 'current > amount') if len(res.samples) < 8 else None,
                           fn=f.display())
                else:
                    res.fail(Finding('F-POS', f.display(), '%s of possibly zero multiplicity' % kind, f.nloc(nid),
                                     'a multiplicity is written into the store on a path where it may be 0: the pair '
                                     'would be an edge of multiplicity 0 (hasEdge true, getEdgeMultiplicity 0)'))
        # (2) setEdgeMultiplicity(.., 0) must remove all copies and the key
        for f in m.by_tname.get(cls + '::setEdgeMultiplicity', []):
            res.sites += 1
            ctx = Ctx(m, f)
            mult = ('var', f.params[2])
            x, y = ('var', f.params[0]), ('var', f.params[1])
            found = None
            for nid, g in m.callees(f):
                n = f.nodes[nid]
                if n['k'] != 'CXXMemberCallExpr' or g.is_const or ctx.tt.t(n.get('obj', -1)) != ('this',):
                    continue
                r = path_eval(ctx, nid, _unknowns_true(ctx, {mult: 0}))
                if r:
                    found = (nid, g)
            if found is None:
                res.fail(Finding('F-POS', f.display(), 'multiplicity 0 arm', f.where(),
                                 'setEdgeMultiplicity(..,0) does not reach any removal'))
                continue
            nid, g = found
            a = [ctx.tt.t(v) for v in f.nodes[nid]['args']]
            ok = _removes_all(m, g) and (a[:2] == [x, y] or (cls == UMG and a[:2] == [y, x]))
            if ok:
                res.ok(dict(function=f.display(), zero_arm='calls %s(%s): removeAll + label erase on every path on which '
                            'the edge exists' % (g.name, ', '.join(show(v, f.unit) for v in a))), fn=f.display())
            else:
                res.fail(Finding('F-POS', f.display(), 'multiplicity 0 arm calls ' + g.name, f.nloc(nid),
                                 'setEdgeMultiplicity(i,j,0) calls %s, which has a path (current multiplicity greater '
                                 'than the amount removed) that keeps the edge and its store entry: the multiplicity '
                                 'is lowered by one instead of the edge being deleted' % g.display()))
    res.require_sites(4, 'multiplicity writes')
    return res


def _unknowns_true(ctx, env):
    return env


def _removes_all(m, g):
    """g removes all copies of (param0,param1) and erases the key on every path where an entry exists:
    it contains an A.removeAll of its first two parameters (F-PAIR pairs it with the label erase)."""
    ctx = Ctx(m, g)
    x, y = ('var', g.params[0]), ('var', g.params[1])
    for e in ctx.ev.of_kind('A.removeAll'):
        if e.args == (x, y) and not ctx.region(e.node):
            return True
    return False


# ------------------------------------------------------------------------------------------------
def _ref_target(f, tt, v):
    """what a reference local of f is bound to (term), else the variable itself"""
    ri = tt.ref_inits()
    if v[1] in ri:
        return tt.t(ri[v[1]])
    return v


def _through_single_defs(f, tt, t, depth=0):
    """replace local variables that have exactly one definition (their initialiser) by that initialiser - only for
    const member functions, where no container is modified between definition and use"""
    if depth > 4 or not isinstance(t, tuple) or not t or not f.is_const:
        return t
    if t[0] == 'var' and t[1] not in f.params:
        defs = var_defs(f, t[1])
        if len(defs) == 1 and defs[0][1] >= 0 and f.nodes[defs[0][0]]['k'] == 'DeclStmt':
            return _through_single_defs(f, tt, tt.t(defs[0][1]), depth + 1)
        return t
    return tuple(_through_single_defs(f, tt, x, depth) if isinstance(x, tuple) else x for x in t)


def _validated_before(m, f, ctx, v):
    """a call of the range sanitizer on v dominates every return (raw subscripts of the adjacency structure need it;
    F-VAL decides the subscript itself - this only keeps the shape rule from accepting an unvalidated rewrite)"""
    calls = [n for n in f.nodes if n['k'] == 'CXXMemberCallExpr' and 'callee' in n and
             f.unit.decl(n['callee'])['name'] in ('assertVertexInRange', 'assertVerticesInRange') and
             any(ctx.tt.t(a) == v for a in n.get('args', []))]
    return bool(calls)


def rule_hasedge(m):
    res = RuleResult('F-HASEDGE', 'hasEdge of the storage class is a search of adjacencyList[source] for destination; '
                                  'the undirected hasEdge canonicalises and delegates; hasEdge(i,j,label) is hasEdge(i,j) '
                                  'and label equality of the same pair')
    for f in m.by_tname.get(LDG + '::hasEdge', []):
        if len(f.params) != 2:
            continue
        res.sites += 1
        ctx = Ctx(m, f)
        rets = [n for n in f.nodes if n['k'] == 'ReturnStmt']
        t = ctx.tt.t(f.children(rets[0]['i'])[0]) if len(rets) == 1 else ('none',)
        # a const function does not modify the lists: single-definition iterator locals can be read through
        t = _through_single_defs(f, ctx.tt, t)
        s, d = ('var', f.params[0]), ('var', f.params[1])
        ok = False
        if t[0] == 'bin' and t[1] == '!=':
            fnd, end = t[2], t[3]
            if fnd[0] == 'call' and fnd[1] == 'std::find' and len(fnd[2]) == 3:
                b, e, v = fnd[2]

                def lst(u):
                    return u[0] == 'mcall' and (u[2] == ('mcall', LDG + '::getOutNeighbours', ('this',), (s,)) or
                                                (u[2][0] == 'idx' and u[2][1][0] == 'field' and m.role_of_field(u[2][1][1]) == 'A' and
                                                 u[2][2] == s and _validated_before(m, f, ctx, s)))
                if lst(b) and b[1].endswith('::begin') and lst(e) and e[1].endswith('::end') and v == d and \
                        lst(end) and end[1].endswith('::end'):
                    ok = True
        if ok:
            res.ok(dict(function=f.display(), shape='find(out(source).begin(), out(source).end(), destination) != end')
                   if len(res.samples) < 2 else None, fn=f.display())
        else:
            res.fail(Finding('F-HASEDGE', f.display(), 'search shape', f.where(),
                             'hasEdge(source,destination) is not a search of the successor list of source for destination'))
    for f in m.by_tname.get(LUG + '::hasEdge', []):
        if len(f.params) != 2:
            continue
        res.sites += 1
        ctx = Ctx(m, f)
        rets = [n for n in f.nodes if n['k'] == 'ReturnStmt']
        t = ctx.tt.t(f.children(rets[0]['i'])[0]) if len(rets) == 1 else ('none',)
        ok = False
        if t[0] == 'mcall' and t[1] == LDG + '::hasEdge' and t[2] == ('this',):
            k = ctx.key_of(('pair', t[3][0], t[3][1]))
            a, b = t[3]
            # the adjacency lists of the undirected class hold both orientations, so either component order finds the pair
            if a[0] == 'member' and b[0] == 'member' and a[1] == b[1] and {a[2].rsplit('::', 1)[-1], b[2].rsplit('::', 1)[-1]} == {'first', 'second'}:
                kk = ctx.key_of(a[1])
                if kk and kk.ordered and {kk.a, kk.b} == {('var', f.params[0]), ('var', f.params[1])}:
                    ok = True
            if {a, b} == {('var', f.params[0]), ('var', f.params[1])}:
                ok = True
        if ok:
            res.ok(dict(function=f.display(), shape='Directed::hasEdge(orderedEdge(v1,v2))') if len(res.samples) < 4 else None,
                   fn=f.display())
        else:
            res.fail(Finding('F-HASEDGE', f.display(), 'canonical lookup', f.where(),
                             'the undirected hasEdge must look up orderedEdge(vertex1,vertex2) in the directed layer'))
    for cls in (LDG, LUG):
        for f in m.by_tname.get(cls + '::hasEdge', []):
            if len(f.params) != 3:
                continue
            res.sites += 1
            ctx = Ctx(m, f)
            rets = [n for n in f.nodes if n['k'] == 'ReturnStmt']
            t = ctx.tt.t(f.children(rets[0]['i'])[0]) if len(rets) == 1 else ('none',)
            s, d, l = (('var', p) for p in f.params)
            ok = False
            if t[0] == 'bin' and t[1] == '&&':
                h, eq = t[2], t[3]
                if h[0] == 'mcall' and h[1] == cls + '::hasEdge' and (h[3] == (s, d) or (cls == LUG and h[3] == (d, s))) and eq[0] == 'bin' and eq[1] == '==':
                    rd = ctx.label_read(eq[2]) or ctx.label_read(eq[3])
                    other = eq[3] if ctx.label_read(eq[2]) else eq[2]
                    if rd and ((rd.a == s and rd.b == d) or (cls == LUG and rd.a == d and rd.b == s)) and other == l:
                        ok = True
            if not ok and cls == LUG and t[0] == 'mcall' and t[1] == LDG + '::hasEdge' and t[2] == ('this',) and len(t[3]) == 3:
                # delegation of the canonical pair to the labelled lookup of the directed layer (checked there)
                a, b, third = t[3]
                if a[0] == 'member' and b[0] == 'member' and a[1] == b[1] and a[2].endswith('first') and b[2].endswith('second'):
                    kk = ctx.key_of(a[1])
                    if kk and kk.ordered and {kk.a, kk.b} == {s, d} and third == l:
                        ok = True
            if ok:
                res.ok(None, fn=f.display())
            else:
                res.fail(Finding('F-HASEDGE', f.display(), 'labelled lookup', f.where(),
                                 'hasEdge(i,j,label) must be hasEdge(i,j) && getEdgeLabel(i,j) == label for the same pair'))
    res.require_sites(5, 'hasEdge definitions')
    return res


# ------------------------------------------------------------------------------------------------
OBS_TABLE = {
    # function tname: list of expected facts
    LDG + '::getInDegree': [('cmp', 'second', 'param0')],
    LDG + '::getInDegrees': [('index', 'second')],
    LDG + '::getOutDegree': [('size_of', 'param0')],
    LDG + '::getOutDegrees': [('index_loopvar_call', 'getOutDegree')],
    LDG + '::getAdjacencyMatrix': [('matrix', 'first', 'second')],
    DMG + '::getOutDegrees': [('alt', (('index', 'first'), ('label', 'first', 'second')), (('index_loopvar_call', 'getOutDegree'),))],
    DMG + '::getInDegree': [('cmp', 'second', 'param0'), ('label', 'first', 'second')],
    DMG + '::getInDegrees': [('index', 'second'), ('label', 'first', 'second')],
    DMG + '::getOutDegree': [('label_loop', 'param0')],
    DMG + '::getAdjacencyMatrix': [('matrix_ij',), ('label_ij',)],
    UMG + '::getAdjacencyMatrix': [('matrix_ij',), ('label_ij',)],
    UMG + '::getDegree': [('label_loop', 'param0')],
    LUG + '::getAdjacencyMatrix': [('matrix_ij',)],
    DWG + '::getWeightMatrix': [('matrix_ij',), ('label_ij',)],
    UWG + '::getWeightMatrix': [('matrix_ij',), ('label_ij',)],
}


def _obs_fact_holds(m, f, ctx, tt, fact, edgevar, loopvars, allterms, E, P0):
    if fact[0] == 'index_loopvar_call':
        return any(t[0] == 'bin' and t[1] in ('+=', '=') and t[2][0] == 'idx' and t[3][0] == 'mcall' and
                   t[3][1].endswith('::' + fact[1]) and t[3][3] == (t[2][2],) and
                   any(t[2][2] == ('var', lv) for lv, _ in loopvars) for t in allterms)
    if fact[0] == 'index':
        return edgevar is not None and any(t[0] == 'idx' and t[1][0] == 'var' and t[2] == E(fact[1]) for t in allterms)
    if fact[0] == 'label':
        if edgevar is None:
            return False
        for t in allterms:
            for st in subterms(t):
                k = ctx.label_read(st)
                if k is None and st[0] == 'mcall' and st[1].endswith('::getEdgeMultiplicity'):
                    k = Key(st[3][0], st[3][1], True)
                if k and k.a == E(fact[1]) and k.b == E(fact[2]):
                    return True
        return False
    return False


def rule_observers(m):
    res = RuleResult('F-OBS', 'observers that tabulate edges use the endpoints in their contractual roles (in-degree: '
                              'second endpoint; matrices: [first][second] / [i][j] over the full neighbour enumeration; '
                              'multigraph and weighted variants read the label of the same pair)')
    for tn, facts in OBS_TABLE.items():
        fs = m.by_tname.get(tn, [])
        if not fs:
            res.broken('F-OBS: anchor vanished: ' + tn)
            continue
        for f in fs:
            ctx = Ctx(m, f)
            tt = ctx.tt
            # enumerated edge variable / loop variables
            edgevar = None
            loopvars = []
            for n in f.nodes:
                if n['k'] == 'CXXForRangeStmt':
                    r = tt.t(n['rangeinit'])
                    if r[0] == 'mcall' and r[1].endswith('::edges'):
                        edgevar = n['loopvar']
                    else:
                        loopvars.append((n['loopvar'], r))
                elif n['k'] == 'ForStmt' and n.get('init', -1) >= 0 and f.nodes[n['init']]['k'] == 'DeclStmt':
                    d = f.nodes[n['init']]['decls'][0]
                    if classic_loop_var(m, f, tt, d) is True:
                        loopvars.append((d, ('fullrange',)))

            def E(which):
                return ('member', ('var', edgevar), 'std::pair::' + which) if edgevar is not None else None
            P0 = ('var', f.params[0]) if f.params else None
            allterms = [tt.t(n['i']) for n in f.nodes if n['k'] in ('CXXOperatorCallExpr', 'BinaryOperator',
                                                                    'CXXMemberCallExpr', 'CompoundAssignOperator')]
            flat_facts = []
            for fact in facts:
                if fact[0] == 'alt':
                    # alternatives: use the first alternative all of whose facts hold; otherwise the first one
                    chosen = fact[1]
                    for alt in fact[1:]:
                        if all(_obs_fact_holds(m, f, ctx, tt, a, edgevar, loopvars, allterms, E, P0) for a in alt):
                            chosen = alt
                            break
                    flat_facts.extend(chosen)
                else:
                    flat_facts.append(fact)
            for fact in flat_facts:
                res.sites += 1
                ok = False
                if fact[0] == 'cmp':
                    ok = any(t[0] == 'bin' and t[1] in ('==', '!=') and {t[2], t[3]} == {E(fact[1]), P0} for t in allterms)
                elif fact[0] == 'index':
                    ok = any(t[0] == 'idx' and t[1][0] == 'var' and t[2] == E(fact[1]) for t in allterms)
                    ok = ok and not any(t[0] == 'idx' and t[1][0] == 'var' and t[2] == E('first' if fact[1] == 'second' else 'second')
                                        for t in allterms)
                elif fact[0] == 'matrix':
                    ok = any(t[0] == 'idx' and t[1][0] == 'idx' and t[1][2] == E(fact[1]) and t[2] == E(fact[2]) for t in allterms)
                elif fact[0] == 'size_of':
                    ok = any(t[0] == 'mcall' and t[1] == 'std::list::size' and t[2][0] == 'idx' and t[2][2] == P0 and
                             ctx.ev.role(t[2][1]) == 'A' for t in allterms)
                elif fact[0] == 'index_loopvar_call':
                    ok = any(t[0] == 'bin' and t[1] in ('+=', '=') and t[2][0] == 'idx' and t[3][0] == 'mcall' and
                             t[3][1].endswith('::' + fact[1]) and t[3][3] == (t[2][2],) and
                             any(t[2][2] == ('var', lv) for lv, _ in loopvars) for t in allterms)
                elif fact[0] == 'label':
                    for t in allterms:
                        for st in subterms(t):
                            k = ctx.label_read(st)
                            if k is None and st[0] == 'mcall' and st[1].endswith('::getEdgeMultiplicity'):
                                k = Key(st[3][0], st[3][1], True)
                            if k and k.a == E(fact[1]) and k.b == E(fact[2]):
                                ok = True
                elif fact[0] in ('matrix_ij', 'label_ij', 'label_loop'):
                    # outer full-range loop i, inner loop over the neighbours of i
                    outer = [lv for lv, r in loopvars if r == ('fullrange',) or graph_like(f, r)]
                    inner = [(lv, r) for lv, r in loopvars if r[0] == 'mcall' and r[1].endswith(('getOutNeighbours', 'getNeighbours'))
                             or (r[0] == 'idx' and ctx.ev.role(r[1]) == 'A')]
                    if fact[0] == 'label_loop' and not inner:
                        # std::accumulate(list(src).begin(), list(src).end(), 0, [..](acc, nb) { return acc + label(src, nb); })
                        src = P0
                        for n2 in f.nodes:
                            if n2['k'] == 'CallExpr' and 'callee' in n2 and f.unit.decl(n2['callee'])['tname'] == 'std::accumulate' and len(n2['args']) == 4:
                                b0, e0, i0, l0 = (tt.t(x) for x in n2['args'])
                                lamid = [st for st in subterms(l0) if st[0] == 'lambda']
                                lst = b0[2] if b0[0] == 'mcall' and b0[1].endswith('::begin') and e0[0] == 'mcall' and e0[1].endswith('::end') and b0[2] == e0[2] else None
                                if lst is None or not lamid or not ((lst[0] == 'mcall' and lst[3] == (src,)) or (lst[0] == 'idx' and lst[2] == src)):
                                    continue
                                L = f.unit.function_for_decl(lamid[0][1])
                                if L is None or len(L.params) != 2:
                                    continue
                                ltt = Terms(L)
                                lrets = [x for x in L.nodes if x['k'] == 'ReturnStmt' and L.children(x['i'])]
                                if len(lrets) != 1:
                                    continue
                                rt = strip_cast(ltt.t(L.children(lrets[0]['i'])[0]))
                                acc, nb = ('var', L.params[0]), ('var', L.params[1])
                                if rt[0] == 'bin' and rt[1] == '+' and acc in (strip_cast(rt[2]), strip_cast(rt[3])) and strip_cast(i0) in (('int', 0), ('ctor', 'unsigned long', (('int', 0),))) or \
                                        (rt[0] == 'bin' and rt[1] == '+' and acc in (strip_cast(rt[2]), strip_cast(rt[3]))):
                                    other = strip_cast(rt[3]) if strip_cast(rt[2]) == acc else strip_cast(rt[2])
                                    lc = Ctx(m, L)
                                    other = lc.unconst(lc.resolve(other))
                                    reads = [st for st in subterms(other) if st[0] == 'mcall' and
                                             st[1].endswith(('::getEdgeMultiplicity', '::getEdgeLabel'))]
                                    if reads and all(st[3][:2] == (src, nb) or (f.record in UNDIRECTED_FAMILY and st[3][:2] == (nb, src))
                                                     for st in reads):
                                        ok = True
                    if fact[0] == 'label_loop':
                        src = P0
                        inner2 = [lv for lv, r in inner if (r[0] == 'mcall' and r[3] == (src,)) or (r[0] == 'idx' and r[2] == src)]
                        if inner2:
                            j = ('var', inner2[0])
                            for t in allterms:
                                for st in subterms(t):
                                    if st[0] == 'mcall' and st[1].endswith(('::getEdgeMultiplicity', '::getEdgeLabel')) and \
                                            (st[3][:2] == (src, j) or (f.record in UNDIRECTED_FAMILY and st[3][:2] == (j, src))):
                                        ok = True
                    elif outer and inner:
                        i = ('var', outer[0])
                        inner2 = [lv for lv, r in inner if (r[0] == 'mcall' and r[3] == (i,)) or (r[0] == 'idx' and r[2] == i)]
                        if inner2:
                            j = ('var', inner2[0])
                            if fact[0] == 'matrix_ij':
                                ok = any(t[0] == 'bin' and t[1] in ('+=', '=') and t[2][0] == 'idx' and t[2][1][0] == 'idx' and
                                         t[2][1][2] == i and t[2][2] == j for t in allterms)
                            else:
                                for t in allterms:
                                    for st in subterms(t):
                                        if st[0] == 'mcall' and st[1].endswith(('::getEdgeMultiplicity', '::getEdgeLabel',
                                                                                '::getEdgeWeight')) and \
                                                (st[3][:2] == (i, j) or (f.record in UNDIRECTED_FAMILY and st[3][:2] == (j, i))):
                                            ok = True
                                        if st[0] == 'var' and f.unit.decl(st[1])['dk'] == 'Var':
                                            defs = var_defs(f, st[1])
                                            if len(defs) == 1 and defs[0][1] >= 0:
                                                dt = tt.t(defs[0][1])
                                                if dt[0] == 'mcall' and dt[1].endswith(('::getEdgeLabel', '::getEdgeMultiplicity')) \
                                                        and dt[3][:2] == (i, j):
                                                    ok = True
                if ok:
                    res.ok(dict(function=f.display(), fact=list(fact)) if len(res.samples) < 10 else None, fn=f.display())
                else:
                    # a definite deviation (the other endpoint / another pair is used) is a violation; a body in which the
                    # rule recognises neither is a shape it cannot decide
                    wrong = False
                    if fact[0] in ('index', 'cmp') and edgevar is not None:
                        other = E('first' if fact[1] == 'second' else 'second')
                        wrong = any((t[0] == 'idx' and t[1][0] == 'var' and t[2] == other) or
                                    (t[0] == 'bin' and t[1] == '==' and other in (t[2], t[3]) and P0 in (t[2], t[3])) for t in allterms)
                    if fact[0] == 'matrix' and edgevar is not None:
                        wrong = any(t[0] == 'idx' and t[1][0] == 'idx' and {t[1][2], t[2]} == {E('first'), E('second')} for t in allterms)
                    if fact[0] in ('label', 'label_ij', 'label_loop'):
                        for t in allterms:
                            for st in subterms(t):
                                if st[0] == 'mcall' and st[1].endswith(('::getEdgeMultiplicity', '::getEdgeLabel', '::getEdgeWeight')) \
                                        and len(st[3]) >= 2:
                                    wrong = True     # a label is read, but not for the enumerated pair in order
                    if fact[0] == 'matrix_ij':
                        wrong = any(t[0] == 'bin' and t[1] in ('+=', '=') and t[2][0] == 'idx' and t[2][1][0] == 'idx' for t in allterms)
                    if wrong:
                        res.fail(Finding('F-OBS', f.display(), 'endpoint role %s' % '/'.join(fact), f.where(),
                                         'observer does not use the edge endpoints in their contractual roles (%s)' % (fact,)))
                    else:
                        res.broken('F-OBS: %s is not in a shape the rule recognises for the fact %s' % (f.display(), fact,))
    res.require_sites(15, 'observer facts')
    return res


# ------------------------------------------------------------------------------------------------
def _base_region_ok(ctx, nid, allowed=None):
    """the statement executes on every path that gets past the argument validation: its control region is empty, or
    holds only dependences whose condition is in `allowed` (callable on (term, polarity)).  Dependences on branches
    inside the loop the element heads (its own back edge) are not conditions on entering the loop."""
    f = ctx.fn
    pos = f.cfg_pos(nid)
    for dep in ctx.region(nid):
        if pos is not None and f.block_dominates(pos[0], dep[0]):
            continue
        t, pol = ctx.dep_term(dep)
        if allowed is not None and t is not None and allowed(t, pol):
            continue
        if allowed is not None and getattr(allowed, 'dep_ok', None) is not None and allowed.dep_ok(dep):
            continue
        return False, dep
    return True, None


def _first_elem(f, stmt):
    """the CFG element of a statement that is evaluated first (its block dominates the blocks of all others)"""
    cands = [d for d in f.descendants(stmt) if d in f.pos]
    if not cands:
        return None
    best = cands[0]
    for d in cands[1:]:
        pb, pd = f.pos[best], f.pos[d]
        if pd[0] == pb[0]:
            if pd[1] < pb[1]:
                best = d
        elif f.block_dominates(pd[0], pb[0]):
            best = d
    return best


def rule_bulk_complete(m):
    """F-BULK: bulk removals are complete and unconditional."""
    res = RuleResult('F-BULK', 'bulk removals reach every affected entry on every path: removeVertexFromEdgeList removes the '
                               'out-entries of the vertex and (directed family) calls the remove-all helper for (i, vertex) for '
                               'every vertex i; removeSelfLoops / clearEdges / removeDuplicateEdges run their full-range loop '
                               'unconditionally; the only early exit tolerated is `adjacencyList[vertex].empty()` in the '
                               'undirected family, where the lists are symmetric')
    for cls in GRAPH_CLASSES:
        undirected = cls in UNDIRECTED_FAMILY
        for f in m.by_tname.get(cls + '::removeVertexFromEdgeList', []):
            ctx = Ctx(m, f)
            v = ('var', f.params[0])
            disp = f.display()

            def sym_empty(t, pol):
                # !A[vertex].empty()  (i.e. the early return is taken only when the own list is empty)
                x = t
                neg = False
                while x[0] == 'un' and x[1] == '!':
                    x = x[3]
                    neg = not neg
                if x[0] == 'mcall' and x[1] == 'std::list::empty' and x[2][0] in ('idx', 'mcall'):
                    lt = x[2]
                    idx = lt[2] if lt[0] == 'idx' else (lt[3][0] if lt[3] else None)
                    return undirected and idx == v and (pol == neg)
                return False
            if undirected:
                res.sites += 1
                er = [e for e in ctx.ev.of_kind('A.eraseIt')]
                bulk = [e for e in er if e.extra.get('form') == 'bulk'] or er
                ok = bool(er)
                why = 'no erase of list entries'
                for e in er:
                    from .rules_pair import _is_full_vertex_loop
                    loops = _is_full_vertex_loop(ctx, e.node)
                    if not loops:
                        ok = False
                        why = 'the erase is not inside a full-range loop over the vertices'
                        continue
                    fe = _first_elem(f, f.nodes[loops[0][0]].get('rangestmt', loops[0][0]))
                    good, dep = _base_region_ok(ctx, fe if fe is not None else loops[0][0], sym_empty)
                    if not good:
                        ok = False
                        why = 'the removal loop is skipped when `%s` is %s' % (f.expr_text(f.branch_atom(dep[0])), dep[1] == 0)
                if ok:
                    res.ok(dict(function=disp, form='bulk loops over all (i, *j), unconditional') if len(res.samples) < 6 else None, fn=disp)
                else:
                    res.fail(Finding('F-BULK', disp, 'removal of the incident edges', f.where(), why))
                continue
            # ---- directed family: (a) out-entries, (b) in-entries through a remove-all callee for every i
            res.sites += 1
            outs = [e for e in ctx.ev.of_kind('A.eraseIt', 'A.clear') if e.args[0] == v]
            ok = bool(outs)
            why = 'the out-entries of the vertex are not removed'
            for e in outs:
                loop = None
                for a in f.ancestors(e.node):
                    if f.nodes[a]['k'] in ('WhileStmt', 'ForStmt', 'CXXForRangeStmt'):
                        loop = a
                        break
                anchor = loop if loop is not None else e.node
                fe = anchor if anchor in f.pos else _first_elem(f, anchor)
                cond_elem = f.nodes[loop].get('cond') if loop is not None else None
                good, dep = _base_region_ok(ctx, cond_elem if cond_elem is not None and cond_elem >= 0 else fe)
                if not good:
                    ok = False
                    why = 'the removal of the out-entries is skipped when `%s` is %s' % (
                        f.expr_text(f.branch_atom(dep[0])), dep[1] == 0)
            if ok:
                res.ok(dict(function=disp, part='out-entries of the vertex', form='unconditional') if len(res.samples) < 10 else None, fn=disp)
            else:
                res.fail(Finding('F-BULK', disp, 'removal of the out-edges', f.where(), why))
            res.sites += 1
            ok = False
            why = 'no full-range loop calling a remove-all helper for (i, vertex)'
            from .rules_pair import _is_full_vertex_loop
            for nid, g in m.callees(f):
                n = f.nodes[nid]
                if n['k'] != 'CXXMemberCallExpr' or g.is_const or ctx.tt.t(n.get('obj', -1)) != ('this',):
                    continue
                a = [ctx.tt.t(x) for x in n['args']]
                if len(a) < 2 or a[1] != v:
                    continue
                loops = _is_full_vertex_loop(ctx, nid)
                if not loops or a[0] != ('var', loops[-1][1]):
                    continue
                if not _removes_all(m, g):
                    why = 'the helper %s called for (i, vertex) does not remove all copies and the label on every path' % g.name
                    continue
                ln = f.nodes[loops[-1][0]]
                anchor = ln.get('cond', -1) if ln['k'] == 'ForStmt' else ln.get('rangestmt', -1)
                fe = anchor if anchor in f.pos else _first_elem(f, anchor if anchor >= 0 else loops[-1][0])
                good, dep = _base_region_ok(ctx, fe)
                # inside the loop the call itself must be unconditional
                extra = ctx.region(nid) - ctx.region(_first_elem(f, ln['body']) or nid)
                if not good:
                    why = 'the in-edge removal loop is skipped when `%s` is %s: a vertex with in-edges keeps them' % (
                        f.expr_text(f.branch_atom(dep[0])), dep[1] == 0)
                elif extra:
                    why = 'the removal of (i, vertex) is conditional inside the loop'
                else:
                    ok = True
            if ok:
                res.ok(dict(function=disp, part='in-entries (i, vertex) for every i', form='unconditional full-range loop over a '
                            'remove-all helper') if len(res.samples) < 14 else None, fn=disp)
            else:
                res.fail(Finding('F-BULK', disp, 'removal of the in-edges', f.where(), why))
        # ---- removeSelfLoops / clearEdges / removeDuplicateEdges: the vertex loop is unconditional
        for name in ('removeSelfLoops', 'clearEdges', 'removeDuplicateEdges'):
            for f in m.by_tname.get(cls + '::' + name, []):
                ctx = Ctx(m, f)
                res.sites += 1
                from .rules_pair import _is_full_vertex_loop
                loops = [n for n in f.nodes if n['k'] in ('CXXForRangeStmt', 'ForStmt')]
                full = []
                for n in loops:
                    inner = _first_elem(f, n['body'])
                    if inner is None:
                        continue
                    fl = _is_full_vertex_loop(ctx, inner)
                    if fl and fl[0][0] == n['i']:
                        full.append(n)
                delegates = [g for nid, g in m.callees(f) if g.name == name and g.record != cls and
                             ctx.tt.t(f.nodes[nid].get('obj', -1)) == ('this',) and not ctx.region(nid)]
                ok = False
                why = 'no full-range loop over the vertices'
                for n in full:
                    anchor = n.get('cond', -1) if n['k'] == 'ForStmt' else n.get('rangestmt', -1)
                    fe = anchor if anchor in f.pos else _first_elem(f, anchor if anchor >= 0 else n['i'])
                    good, dep = _base_region_ok(ctx, fe)
                    if good:
                        ok = True
                    else:
                        why = 'the loop over the vertices is skipped when `%s` is %s' % (f.expr_text(f.branch_atom(dep[0])), dep[1] == 0)
                if name == 'removeSelfLoops' and ok:
                    # the loop body must call a remove-all callee for (i, i) unconditionally
                    ok = False
                    why = 'removeSelfLoops does not call a remove-all helper for (i, i) for every vertex'
                    for nid, g in m.callees(f):
                        n = f.nodes[nid]
                        if n['k'] == 'CXXMemberCallExpr' and not g.is_const and len(n['args']) >= 2:
                            a = [ctx.tt.t(x) for x in n['args']]
                            fl = _is_full_vertex_loop(ctx, nid)
                            if fl and a[0] == a[1] == ('var', fl[-1][1]) and _removes_all(m, g):
                                inner0 = _first_elem(f, f.nodes[fl[-1][0]]['body'])
                                if not (ctx.region(nid) - ctx.region(inner0 if inner0 is not None else nid)):
                                    ok = True
                if ok or delegates:
                    res.ok(dict(function=f.display(), form='delegates to the base implementation' if delegates and not ok else
                                'unconditional full-range loop') if len(res.samples) < 20 else None, fn=f.display())
                else:
                    res.fail(Finding('F-BULK', f.display(), name + ' loop', f.where(), why))
    res.require_sites(20, 'bulk mutators')
    return res


# ------------------------------------------------------------------------------------------------
def rule_setters(m):
    """F-SETTER: setEdgeWeight / setEdgeMultiplicity decide between overwrite and creation by hasEdge of the pair."""
    res = RuleResult('F-SETTER', 'setEdgeWeight / setEdgeMultiplicity overwrite the stored value exactly when hasEdge(x,y) of the '
                                 'pair is true and create the edge exactly when it is false (multiplicity 0 removes); existence is '
                                 'never inferred from the stored value (a weight may be 0)')
    for tn in (DWG + '::setEdgeWeight', UWG + '::setEdgeWeight', DMG + '::setEdgeMultiplicity', UMG + '::setEdgeMultiplicity'):
        for f in m.by_tname.get(tn, []):
            res.sites += 1
            ctx = Ctx(m, f)
            disp = f.display()
            x, y = ('var', f.params[0]), ('var', f.params[1])
            val = ('var', f.params[2])
            multi = 'Multiplicity' in tn
            two, three = _hasedge_terms(ctx, x, y)
            pe = PairEngine.__new__(PairEngine)
            pe.m = m

            class _W:
                def __init__(self, node):
                    self.node = node
            overwrites = [_W(w['node']) for w in PairEngine.label_sets(pe, ctx)]
            creates = []
            for nid, g in m.callees(f):
                n = f.nodes[nid]
                if n['k'] == 'CXXMemberCallExpr' and g.name in ('addEdge', 'addMultiedge') and ctx.tt.t(n.get('obj', -1)) == ('this',):
                    creates.append(nid)
            if len(overwrites) != 1 or len(creates) != 1:
                res.broken('F-SETTER: %s is not in the shape overwrite / create (found %d / %d)' % (disp, len(overwrites), len(creates)))
                continue
            # a branch that compares a stored label with 0 to decide existence
            zero_test = None
            for dep in ctx.region(overwrites[0].node) | ctx.region(creates[0]):
                t, pol = ctx.dep_term(dep)
                if t is None:
                    continue
                for st in subterms(resolve_locals(ctx, t, {})):
                    if st[0] == 'bin' and st[1] in ('!=', '==', '>', '<') and strip_cast(st[3]) in (('int', 0), ('float', '0.000000')):
                        if ctx.label_read(strip_cast(st[2])) is not None:
                            zero_test = f.branch_atom(dep[0])
            if zero_test is not None and not multi:
                res.fail(Finding('F-SETTER', disp, 'existence inferred from the stored weight', f.nloc(zero_test),
                                 'the branch between overwriting and creating the edge tests the stored weight against 0 (`%s`): an '
                                 'existing edge of weight 0 is treated as missing, so its weight cannot be changed'
                                 % f.expr_text(zero_test)[:80]))
                continue
            if not two:
                res.broken('F-SETTER: %s does not test hasEdge(%s,%s)' % (disp, show(x, f.unit), show(y, f.unit)))
                continue
            if not multi:
                # the weight given is stored whatever the weight was: no branch on the stored value guards the overwrite
                stored_dep = None
                for dep in ctx.region(overwrites[0].node):
                    t, pol = ctx.dep_term(dep)
                    if t is None:
                        continue
                    for st in subterms(resolve_locals(ctx, t, {})):
                        if ctx.label_read(strip_cast(st)) is not None or \
                                (st[0] == 'mcall' and st[1].endswith(('::getEdgeWeight', '::getEdgeLabel'))):
                            stored_dep = f.branch_atom(dep[0])
                if stored_dep is not None:
                    res.fail(Finding('F-SETTER', disp, 'overwrite depends on the stored weight', f.nloc(stored_dep),
                                     'whether the new weight is stored depends on `%s`, a test of the weight currently stored: for some '
                                     'pairs of old and new value the call leaves the old weight in place, so getEdgeWeight is not the '
                                     'value last set' % f.expr_text(stored_dep)[:80]))
                    continue
            bad = None
            for has, zero in itertools.product((True, False), (True, False) if multi else (False,)):
                env = {x: 0, y: 1}
                for h in two:
                    env[h] = has
                if multi:
                    env[val] = 0 if zero else 3
                ow = path_eval(ctx, overwrites[0].node, env)
                cr = path_eval(ctx, creates[0], env)
                if ow is None or cr is None:
                    bad = 'undecidable'
                    break
                want_ow = has and not zero
                want_cr = (not has) and not zero
                if ow != want_ow or cr != want_cr:
                    bad = 'edge %s%s: overwrite %s, create %s' % ('present' if has else 'absent', ', value 0' if zero else '',
                                                                'executed' if ow else 'skipped', 'executed' if cr else 'skipped')
                    break
            if bad == 'undecidable':
                res.broken('F-SETTER: the branch structure of %s cannot be evaluated' % disp)
            elif bad:
                res.fail(Finding('F-SETTER', disp, 'overwrite / create decision', f.where(),
                                 'the setter does not overwrite exactly when the edge exists and create exactly when it does not: ' + bad))
            else:
                res.ok(dict(function=disp, decision='hasEdge(%s,%s)' % (show(x, f.unit), show(y, f.unit))), fn=disp)
    res.require_sites(2, 'setters')
    return res


# ------------------------------------------------------------------------------------------------
def rule_label_subscripts(m):
    """F-LREF: operator[] on the label store inserts a default entry when the key is absent."""
    res = RuleResult('F-LREF', 'every subscript edgeLabels[k] that is not the target of a plain assignment sits where the '
                               'existence of the edge k is established (hasEdge true, a matching entry found in the adjacency '
                               'list, or count(k) != 0): operator[] would otherwise insert a default-constructed label for a '
                               'missing edge')
    for f in m.fns:
        if f.record not in GRAPH_CLASSES or f.is_lambda:
            continue
        ctx = Ctx(m, f)
        if not ctx.labelled:
            continue
        sets = {e.extra.get('lhs') for e in ctx.ev.events}
        for e in ctx.ev.of_kind('L.ref'):
            n = f.nodes[e.node]
            # plain assignment target?  parent chain: operator[] -> (casts) -> '=' with it as lhs
            par = f.parent.get(e.node)
            hops = 0
            plain = False
            while par is not None and hops < 3:
                pn = f.nodes[par]
                if pn['k'] == 'BinaryOperator' and pn.get('op') == '=' and f.strip(pn['c'][0]) == e.node:
                    plain = True
                if pn['k'] == 'CXXOperatorCallExpr' and 'callee' in pn and f.unit.decl(pn['callee']).get('op') == '=' and \
                        pn.get('args') and f.strip(pn['args'][0]) == e.node:
                    plain = True
                if pn['k'] in ('ImplicitCastExpr', 'ParenExpr', 'MaterializeTemporaryExpr'):
                    par = f.parent.get(par)
                    hops += 1
                    continue
                break
            if plain:
                continue
            res.sites += 1
            k = ctx.key_of(e.args[0], e.node)
            ok = False
            if k is not None:
                pos = f.cfg_pos(e.node)
                from .rules_wl import implied
                for (bb, ix) in f.dominating_edges(pos[0]) if pos else []:
                    a = f.branch_atom(bb)
                    if a is None:
                        continue
                    for (t, pol) in implied(resolve_locals(ctx, ctx.tt.t(a), {}), ix == 0):
                        t = resolve_locals(ctx, t, {})
                        while t[0] in ('conv', 'cast'):
                            t = t[2]
                        neg = False
                        while t[0] == 'un' and t[1] == '!':
                            t = t[3]
                            neg = not neg
                        truth = (pol != neg)
                        if t[0] == 'mcall' and t[1].endswith('::hasEdge') and len(t[3]) == 2 and truth:
                            if {t[3][0], t[3][1]} == {k.a, k.b}:
                                ok = True
                        if t[0] == 'bin' and t[1] in ('==', '!=') and ((t[1] == '==') == truth):
                            # *j == b  while iterating the list of a
                            for l, r in ((t[2], t[3]), (t[3], t[2])):
                                if l[0] == 'deref' and r in (k.a, k.b):
                                    ok = True
                        if t[0] == 'bin' and t[1] in ('!=', '>') and strip_cast(t[3]) == ('int', 0) and truth and \
                                t[2][0] == 'mcall' and t[2][1].endswith('::count'):
                            ok = True
                        # it != out(a).end() with it = std::find(out(a).begin(), out(a).end(), b)
                        if t[0] == 'bin' and t[1] in ('!=', '==') and ((t[1] == '!=') == truth):
                            for it, other in ((t[2], t[3]), (t[3], t[2])):
                                if it[0] in ('var', 'call') and other[0] == 'mcall' and other[1].endswith(('::end', '::cend')):
                                    if it[0] == 'var':
                                        defs = [d for d in var_defs(f, it[1]) if d[1] >= 0]
                                        dts = [ctx.tt.t(defs[0][1])] if len(defs) == 1 else []
                                    else:
                                        dts = [it]
                                    for dt in dts:
                                        if dt[0] == 'call' and dt[1] == 'std::find' and len(dt[2]) == 3 and dt[2][1][0] == 'mcall' \
                                                and dt[2][1][2] == other[2]:
                                            lst = other[2]
                                            owner = None
                                            if lst[0] == 'mcall' and lst[1].endswith(('::getOutNeighbours', '::getNeighbours')):
                                                owner = lst[3][0]
                                            elif lst[0] == 'idx':
                                                owner = lst[2]
                                            if owner is not None and {owner, dt[2][2]} == {k.a, k.b}:
                                                ok = True
            if ok:
                res.ok(dict(function=f.display(), subscript=f.expr_text(e.node)[:60], at=f.nloc(e.node), evidence='edge exists')
                       if len(res.samples) < 10 else None, fn=f.display())
            else:
                res.fail(Finding('F-LREF', f.display(), 'label-store subscript without existence evidence', f.nloc(e.node),
                                 '`%s` is evaluated on a path where the edge is not known to exist: for a missing edge operator[] '
                                 'inserts a default label entry, which getEdgeLabel / getEdgeMultiplicity / operator== then see'
                                 % f.expr_text(e.node)[:60]))
    res.require_sites(4, 'label-store subscripts')
    return res


# ------------------------------------------------------------------------------------------------
def rule_forwarding(m):
    """F-FWD: vertex arguments are forwarded in order (directed family and algorithms)."""
    from .model import DIRECTED_FAMILY
    from .rules_val import VERTEX_TYPES
    res = RuleResult('F-FWD', 'where a function of the directed family or an algorithm forwards two of its own vertex '
                              'arguments to another BaseGraph function, it forwards them in the same order (source stays '
                              'source, destination stays destination); the tabled exception is the second call of the '
                              'addReciprocal* functions, which must be exactly the reversed pair')
    for f in m.fns:
        if f.is_lambda:
            continue
        if not (f.record in DIRECTED_FAMILY or (f.record is None and f.tname.startswith(NS + 'algorithms::'))):
            continue
        vp = [pd for ix, pd in enumerate(f.params) if ix < len(f.ptypes) and f.ptypes[ix] in VERTEX_TYPES]
        if len(vp) < 2:
            continue
        tt = Terms(f)
        calls = []
        for nid, g in m.callees(f):
            n = f.nodes[nid]
            if n['k'] not in ('CXXMemberCallExpr', 'CallExpr') or 'args' not in n:
                continue
            seq = []
            for ax, a in enumerate(n['args']):
                if ax >= len(g.ptypes) or g.ptypes[ax] not in VERTEX_TYPES:
                    continue
                t = tt.t(a)
                if t[0] == 'var' and t[1] in vp:
                    seq.append((ax, vp.index(t[1])))
            if len(seq) >= 2:
                calls.append((nid, g, seq))
        if not calls:
            continue
        ordered = []
        reversed_ = []
        for nid, g, seq in calls:
            idx = [b for a, b in sorted(seq)]
            if idx == sorted(idx):
                ordered.append(nid)
            elif idx == sorted(idx, reverse=True):
                reversed_.append(nid)
            else:
                reversed_.append(nid)
        # a reciprocal operation: the same callee applied once to (a,b) and then once to (b,a), whatever its name
        by_nid = {nid: g for nid, g, seq in calls}
        reciprocal = f.name.startswith('addReciprocal') or (
            len(ordered) == 1 and len(reversed_) == 1 and by_nid[ordered[0]].key == by_nid[reversed_[0]].key)
        for nid, g, seq in calls:
            res.sites += 1
            is_rev = nid in reversed_
            if not is_rev:
                res.ok(dict(function=f.display(), call=f.expr_text(nid)[:70], order='preserved') if len(res.samples) < 10 else None,
                       fn=f.display())
            elif reciprocal and len(ordered) == 1 and len(reversed_) == 1 and f.can_reach_forward(ordered[0], nid):
                res.ok(dict(function=f.display(), call=f.expr_text(nid)[:70], order='reversed (reciprocal second call)'), fn=f.display())
            else:
                res.fail(Finding('F-FWD', f.display(), 'arguments of %s swapped' % g.name, f.nloc(nid),
                                 '`%s` forwards the vertex arguments of %s in swapped order: source and destination are '
                                 'exchanged in a directed operation' % (f.expr_text(nid)[:70], f.display())))
        if reciprocal:
            res.sites += 1
            delegates = [g for nid, g, seq in calls if g.name.startswith('addReciprocal')]
            if delegates and len(calls) == 1 and not reversed_:
                res.ok(None, fn=f.display())
            elif len(ordered) == 1 and len(reversed_) == 1:
                res.ok(None, fn=f.display())
            else:
                res.fail(Finding('F-FWD', f.display(), 'reciprocal pair of insertions', f.where(),
                                 'a reciprocal insertion must consist of one insertion of (a,b) and one of (b,a) (found %d ordered, '
                                 '%d reversed calls)' % (len(ordered), len(reversed_))))
    # ---- flags are handed on: a function that receives a boolean option and calls a library function that has an option of
    #      the same name does not leave it to the callee's default
    for f in m.fns:
        if f.is_lambda or not (f.record in GRAPH_CLASSES or (f.record is None and f.tname.startswith(NS))):
            continue
        flags = {f.pnames[ix]: ('var', pd) for ix, pd in enumerate(f.params)
                 if ix < len(f.cptypes) and f.cptypes[ix] == 'bool' and ix < len(f.pnames) and f.pnames[ix]}
        if not flags:
            continue
        tt = Terms(f)
        for nid, g in m.callees(f):
            n = f.nodes[nid]
            if n['k'] not in ('CXXMemberCallExpr', 'CallExpr') or 'args' not in n or g.is_lambda:
                continue
            for ix, pn in enumerate(g.pnames):
                if pn in flags and ix < len(g.cptypes) and g.cptypes[ix] == 'bool' and ix < len(n['args']):
                    res.sites += 1
                    an = f.nodes[n['args'][ix]]
                    if an['k'] == 'CXXDefaultArgExpr':
                        res.fail(Finding('F-FWD', f.display(), 'option %s not handed on to %s' % (pn, g.name), f.nloc(nid),
                                         '`%s` is called without the option `%s` that %s itself received: the callee falls back to '
                                         'its default, so the caller\'s `%s = %s` is honoured for part of the operation only'
                                         % (f.expr_text(nid)[:60], pn, f.display(), pn, 'true/false')))
                    else:
                        res.ok(dict(function=f.display(), call=f.expr_text(nid)[:60], option=pn, passed=f.expr_text(n['args'][ix])[:20])
                               if len(res.samples) < 14 else None, fn=f.display())
    res.require_sites(20, 'forwarding call sites')
    return res


def rule_observer_loops(m):
    """F-UNCOND: the tabulating loop of an observer runs on every path."""
    res = RuleResult('F-UNCOND', 'the loop in which an observer tabulates edges runs on every path; only a boolean flag '
                                 'parameter selecting an alternative computation, or an emptiness test of the size / edge '
                                 'count, may bypass it')
    names = set(OBS_TABLE) | {LUG + '::getDegree', LUG + '::getDegrees', UMG + '::getDegrees', LDG + '::getOutDegrees',
                              LDG + '::getReversedGraph', LUG + '::getDirectedGraph', LDG + '::operator=='}
    for tn in sorted(names):
        for f in m.by_tname.get(tn, []):
            ctx = Ctx(m, f)
            loops = [n for n in f.nodes if n['k'] in ('CXXForRangeStmt', 'ForStmt', 'WhileStmt')]
            outer = [n for n in loops if not any(n['i'] in f.descendants(o['i']) and o['i'] != n['i'] for o in loops)]
            if not outer:
                continue
            flags = {('var', p) for ix, p in enumerate(f.params) if f.cptypes[ix] == 'bool'}
            for n in outer:
                res.sites += 1
                anchor = n.get('cond', -1) if n['k'] in ('ForStmt', 'WhileStmt') else n.get('rangestmt', -1)
                fe = _first_elem(f, anchor if anchor >= 0 else n['i'])

                def allowed(t, pol):
                    x = t
                    while x[0] == 'un' and x[1] == '!':
                        x = x[3]
                    if x in flags:
                        return True
                    if x[0] == 'bin' and x[1] in ('==', '!=', '>') and strip_cast(x[3]) == ('int', 0):
                        l = strip_cast(x[2])
                        if is_size_term(m, f, l, ctx.tt) or (l[0] in ('field', 'member') and m.role_of_field(l[-1]) == 'N') or \
                                (l[0] == 'mcall' and l[1].endswith('::getEdgeNumber')):
                            return True
                    return False
                def result_known(dep, f=f, ctx=ctx):
                    """a comparison operator may leave before its loops on a path that returns the literal `false`: the
                    answer is already known there (the fields compared are checked by F-EQ)"""
                    if not f.tname.endswith('::operator=='):
                        return False
                    blk = f.blocks[dep[0]]
                    other = blk.succs[1 - dep[1]] if len(blk.succs) == 2 else None
                    seen_b = set()
                    while other is not None and other >= 0 and other not in seen_b:
                        seen_b.add(other)
                        ob = f.blocks[other]
                        rets = [e for e in ob.elems if f.nodes[e]['k'] == 'ReturnStmt']
                        if rets:
                            ch = f.children(rets[0])
                            return bool(ch) and ctx.tt.t(ch[0]) == ('bool', False)
                        if len([x for x in ob.succs if x is not None and x >= 0]) != 1 or any(
                                f.nodes[e]['k'] in ('CallExpr', 'CXXMemberCallExpr', 'BinaryOperator') for e in ob.elems):
                            return False
                        other = [x for x in ob.succs if x is not None and x >= 0][0]
                    return False
                allowed.dep_ok = result_known
                good, dep = _base_region_ok(ctx, fe, allowed)
                if good:
                    res.ok(dict(function=f.display(), loop=f.nloc(n['i'])) if len(res.samples) < 8 else None, fn=f.display())
                else:
                    res.fail(Finding('F-UNCOND', f.display(), 'observer loop bypassed', f.nloc(n['i']),
                                     'the tabulating loop is skipped when `%s` is %s: the observer then reports a graph without '
                                     'those edges' % (f.expr_text(f.branch_atom(dep[0]))[:70], dep[1] == 0)))
    res.require_sites(20, 'observer loops')
    return res
