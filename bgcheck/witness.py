"""Witness translation units: small client programs that force instantiation of every documented
entry point for every label kind.  The same cells serve (a) fact extraction with bgx and (b) the
C20 compile matrix.

Entry-point specification: derived from the doxygen-documented public API, README.md, docs/*.rst and
examples/*.cpp.  rules_decl.check_witness_complete cross-checks it against the AST (every public
member / namespace-scope function template under /repo/include must have an analysed instantiation).
"""
import os

REPO_INCLUDE = '/repo/include'

ALL_HEADERS = [
    'BaseGraph/types.h',
    'BaseGraph/boost_hash.hpp',
    'BaseGraph/directed_graph.hpp',
    'BaseGraph/undirected_graph.hpp',
    'BaseGraph/directed_multigraph.hpp',
    'BaseGraph/undirected_multigraph.hpp',
    'BaseGraph/directed_weighted_graph.hpp',
    'BaseGraph/undirected_weighted_graph.hpp',
    'BaseGraph/fileio.hpp',
    'BaseGraph/algorithms/paths.hpp',
    'BaseGraph/algorithms/topology.hpp',
]

# label kinds: tag -> (C++ spelling, arithmetic?, binary-io capable?, has default text writer?)
KINDS = {
    'nolabel': dict(cpp='BaseGraph::NoLabel', arith=False, binary=True, sample='BaseGraph::NoLabel()'),
    'int': dict(cpp='int', arith=True, binary=True, sample='7'),
    'unsigned': dict(cpp='unsigned', arith=True, binary=True, sample='7u'),
    'double': dict(cpp='double', arith=True, binary=True, sample='0.5'),
    'char': dict(cpp='char', arith=True, binary=True, sample="'a'"),
    'string': dict(cpp='std::string', arith=False, binary=False, sample='std::string("a")'),
    'ustruct': dict(cpp='UserStruct', arith=False, binary=True, sample='UserStruct{1, 2.0}'),
    # a user class that is not an aggregate: explicit constructor with defaults (so `T()` is its only default
    # construction syntax - copy-list-initialisation `T x = {}` / `return {};` is ill-formed), non-trivial member
    'uclass': dict(cpp='UserClass', arith=False, binary=False, sample='UserClass(1, "x")'),
    # a user label without data members (a tag): a label type like any other - stored per edge, missing on a missing edge
    'utag': dict(cpp='UserTag', arith=False, binary=True, sample='UserTag()'),
}
QUICK_KINDS = list(KINDS)  # extraction is cheap and parallel; all kinds in both tiers

CONTAINERS = ['std::vector', 'std::list', 'std::deque', 'std::forward_list', 'std::set']

PRELUDE = r'''
#include <deque>
#include <forward_list>
#include <list>
#include <set>
#include <string>
#include <unordered_set>
#include <vector>
struct UserStruct {
    int a;
    double b;
    bool operator==(const UserStruct &o) const { return a == o.a && b == o.b; }
    bool operator<(const UserStruct &o) const { return a < o.a || (a == o.a && b < o.b); }
};
struct UserTag {
    bool operator==(const UserTag &) const { return true; }
    bool operator<(const UserTag &) const { return false; }
};
class UserClass {
    int a;
    std::string unit;
  public:
    explicit UserClass(int a = 0, std::string unit = "u") : a(a), unit(unit) {}
    bool operator==(const UserClass &o) const { return a == o.a && unit == o.unit; }
    bool operator<(const UserClass &o) const { return a < o.a || (a == o.a && unit < o.unit); }
};
'''


class Cell:
    def __init__(self, cid, family, entry, body, needs=None):
        self.id = cid
        self.family = family      # ctor | conv | copy | algo | sub | io.text | io.bin | method
        self.entry = entry        # documented entry point this cell exercises
        self.body = body          # C++ statements
        self.needs = needs or []


def _graph_classes(kind):
    K = KINDS[kind]['cpp']
    return [('LDG', 'BaseGraph::LabeledDirectedGraph', 'BaseGraph::LabeledDirectedGraph<%s>' % K),
            ('LUG', 'BaseGraph::LabeledUndirectedGraph', 'BaseGraph::LabeledUndirectedGraph<%s>' % K)]


def kind_cells(kind):
    """Cells for the two class templates instantiated with one label kind."""
    K = KINDS[kind]
    Kc = K['cpp']
    cells = []
    for tag, tmpl, G in _graph_classes(kind):
        p = '%s_%s' % (tag, kind)
        # ---- constructors
        cells.append(Cell(p + '_ctor_size', 'ctor', tmpl + '::ctor(size_t)', '%s g(3); %s e; (void)g; (void)e;' % (G, G)))
        for C in CONTAINERS:
            cn = C.split('::')[1]
            if kind == 'nolabel':
                cells.append(Cell('%s_ctor_edges_%s' % (p, cn), 'ctor', tmpl + '::ctor(Container<Edge>)',
                                  '%s<BaseGraph::Edge> c; %s g(c); (void)g;' % (C, G)))
            else:
                cells.append(Cell('%s_ctor_ledges_%s' % (p, cn), 'ctor', tmpl + '::ctor(Container<LabeledEdge>)',
                                  '%s<BaseGraph::LabeledEdge<%s>> c; %s g(c); (void)g;' % (C, Kc, G)))
        cells.append(Cell(p + '_copy', 'copy', tmpl + '::copy',
                          '%s g(3); %s h(g); h = g; %s m(std::move(h)); (void)(m == g); (void)(m != g);' % (G, G, G)))
        # ---- methods with label arguments and defaults (explicit instantiation covers the bodies;
        #      these cells check the documented call forms)
        if tag == 'LDG':
            cells.append(Cell(p + '_methods', 'method', tmpl + '::methods',
                              ('%s g(3); const %s &c = g; g.addEdge(0, 1); g.addEdge(0, 1, true); g.addEdge(0, 2, %s); '
                               'g.addEdge(0, 2, %s, true); g.addReciprocalEdge(1, 2); g.addReciprocalEdge(1, 2, %s); '
                               '(void)c.hasEdge(0, 1); (void)c.hasEdge(0, 1, %s); (void)c.getOutNeighbours(0); '
                               '(void)c.getEdgeLabel(0, 1); (void)c.getEdgeLabel(0, 1, false); g.setEdgeLabel(0, 1, %s); '
                               'g.setEdgeLabel(0, 1, %s, true); g.removeEdge(0, 1); (void)c.getReversedGraph(); '
                               'g.removeDuplicateEdges(); g.removeSelfLoops(); g.removeVertexFromEdgeList(0); g.clearEdges(); '
                               '(void)c.getInDegree(0); (void)c.getInDegrees(); (void)c.getOutDegree(0); (void)c.getOutDegrees(); '
                               '(void)c.getAdjacencyMatrix(); g.resize(5); (void)c.getSize(); (void)c.getEdgeNumber(); '
                               'for (auto v : c) (void)v; for (auto e : c.edges()) (void)e; c.assertVertexInRange(0); '
                               'std::cout << c;') % ((G, G) + (K['sample'],) * 6)))
        else:
            cells.append(Cell(p + '_methods', 'method', tmpl + '::methods',
                              ('%s g(3); const %s &c = g; g.addEdge(0, 1); g.addEdge(0, 1, true); g.addEdge(0, 2, %s); '
                               'g.addEdge(0, 2, %s, true); (void)c.hasEdge(0, 1); (void)c.hasEdge(0, 1, %s); '
                               '(void)c.getOutNeighbours(0); (void)c.getNeighbours(0); (void)c.getEdgeLabel(0, 1); '
                               '(void)c.getEdgeLabel(0, 1, false); g.setEdgeLabel(0, 1, %s); g.setEdgeLabel(0, 1, %s, true); '
                               'g.removeEdge(0, 1); (void)c.getDirectedGraph(); g.removeDuplicateEdges(); g.removeSelfLoops(); '
                               'g.removeVertexFromEdgeList(0); g.clearEdges(); (void)c.getDegree(0); (void)c.getDegree(0, false); '
                               '(void)c.getDegrees(); (void)c.getDegrees(false); (void)c.getAdjacencyMatrix(); '
                               '(void)c.getAdjacencyMatrix(false); g.resize(5); (void)c.getSize(); (void)c.getEdgeNumber(); '
                               'for (auto v : c) (void)v; for (auto e : c.edges()) (void)e; c.assertVertexInRange(0); '
                               'std::cout << c;') % ((G, G) + (K['sample'],) * 5)))
        # ---- the iterator protocol of vertices and edges, spelled out (range-for uses only pre-increment)
        cells.append(Cell(p + '_iterators', 'method', tmpl + '::iterators',
                          ('%s g(3); const %s &c = g; auto es = c.edges(); auto it = es.begin(); auto en = es.end(); '
                           '(void)(it == en); (void)(it != en); if (it != en) { (void)*it; ++it; } if (it != en) { it++; } '
                           'auto vi = c.begin(); auto ve = c.end(); (void)(vi != ve); (void)*vi; ++vi; vi++;') % (G, G)))
        if 'Undirected' in tmpl:
            cells.append(Cell(p + '_from_directed', 'conv', tmpl + '::ctor(const Directed&)',
                              'BaseGraph::LabeledDirectedGraph<%s> d(3); %s u(d); (void)u;' % (Kc, G)))
        # ---- algorithms
        A = 'BaseGraph::algorithms::'
        cells.append(Cell(p + '_findVertexPredecessors', 'algo', A + 'findVertexPredecessors',
                          '%s g(3); auto r = %sfindVertexPredecessors(g, 0); (void)r;' % (G, A)))
        cells.append(Cell(p + '_findAllVertexPredecessors', 'algo', A + 'findAllVertexPredecessors',
                          '%s g(3); auto r = %sfindAllVertexPredecessors(g, 0); (void)r;' % (G, A)))
        cells.append(Cell(p + '_findGeodesics', 'algo', A + 'findGeodesics',
                          '%s g(3); auto r = %sfindGeodesics(g, 0, 1); (void)r;' % (G, A)))
        cells.append(Cell(p + '_findAllGeodesics', 'algo', A + 'findAllGeodesics',
                          '%s g(3); auto r = %sfindAllGeodesics(g, 0, 1); (void)r;' % (G, A)))
        cells.append(Cell(p + '_findGeodesicsFromVertex', 'algo', A + 'findGeodesicsFromVertex',
                          '%s g(3); auto r = %sfindGeodesicsFromVertex(g, 0); (void)r;' % (G, A)))
        cells.append(Cell(p + '_findAllGeodesicsFromVertex', 'algo', A + 'findAllGeodesicsFromVertex',
                          '%s g(3); auto r = %sfindAllGeodesicsFromVertex(g, 0); (void)r;' % (G, A)))
        cells.append(Cell(p + '_findPathToVertexFromPredecessors', 'algo', A + 'findPathToVertexFromPredecessors',
                          ('%s g(3); auto pr = %sfindVertexPredecessors(g, 0); '
                           'auto a = %sfindPathToVertexFromPredecessors(g, 0, 1, pr); '
                           'auto b = %sfindPathToVertexFromPredecessors(g, 1, pr); (void)a; (void)b;') % (G, A, A, A)))
        cells.append(Cell(p + '_findMultiplePathsToVertexFromPredecessors', 'algo',
                          A + 'findMultiplePathsToVertexFromPredecessors',
                          ('%s g(3); auto pr = %sfindAllVertexPredecessors(g, 0); '
                           'auto a = %sfindMultiplePathsToVertexFromPredecessors(g, 0, 1, pr); '
                           'auto b = %sfindMultiplePathsToVertexFromPredecessors(g, 1, pr); (void)a; (void)b;') % (G, A, A, A)))
        cells.append(Cell(p + '_getSubgraph', 'sub', A + 'getSubgraph',
                          '%s g(3); std::unordered_set<BaseGraph::VertexIndex> s{0, 1}; auto r = %sgetSubgraph(g, s); (void)r;' % (G, A)))
        cells.append(Cell(p + '_getSubgraphWithRemap', 'sub', A + 'getSubgraphWithRemap',
                          '%s g(3); std::unordered_set<BaseGraph::VertexIndex> s{0, 1}; auto r = %sgetSubgraphWithRemap(g, s); (void)r;' % (G, A)))
        # ---- text IO
        IO = 'BaseGraph::io::'
        if K['arith'] or kind == 'nolabel':
            cells.append(Cell(p + '_writeText_default', 'io.text', IO + 'writeTextEdgeList(default)',
                              '%s g(3); %swriteTextEdgeList(g, "f.txt");' % (G, IO)))
        if kind != 'nolabel':
            cells.append(Cell(p + '_writeText_explicit', 'io.text', IO + 'writeTextEdgeList(explicit)',
                              '%s g(3); %swriteTextEdgeList<%s, %s>(g, "f.txt", [](const %s &) { return std::string("x"); });'
                              % (G, IO, tmpl, Kc, Kc)))
        cells.append(Cell(p + '_loadText_default', 'io.text', IO + 'loadTextEdgeList(default)',
                          'auto r = %sloadTextEdgeList<%s, %s>("f.txt"); (void)r;' % (IO, tmpl, Kc)))
        cells.append(Cell(p + '_loadText_explicit', 'io.text', IO + 'loadTextEdgeList(explicit)',
                          'auto r = %sloadTextEdgeList<%s, %s>("f.txt", [](const std::string &) { return %s(); }); (void)r;'
                          % (IO, tmpl, Kc, Kc)))
        cells.append(Cell(p + '_loadTextVL_default', 'io.text', IO + 'loadTextVertexLabeledEdgeList(default)',
                          'auto r = %sloadTextVertexLabeledEdgeList<%s, %s>("f.txt"); (void)r;' % (IO, tmpl, Kc)))
        cells.append(Cell(p + '_loadTextVL_explicit', 'io.text', IO + 'loadTextVertexLabeledEdgeList(explicit)',
                          ('auto r = %sloadTextVertexLabeledEdgeList<%s, %s>("f.txt", [](const std::string &) { return %s(); }, '
                           '%sVertexCountMapper()); (void)r;') % (IO, tmpl, Kc, Kc, IO)))
        # ---- binary IO
        if K['binary']:
            cells.append(Cell(p + '_writeBinary_default', 'io.bin', IO + 'writeBinaryEdgeList(default)',
                              '%s g(3); %swriteBinaryEdgeList(g, "f.bin");' % (G, IO)))
            cells.append(Cell(p + '_loadBinary_default', 'io.bin', IO + 'loadBinaryEdgeList(default)',
                              'auto r = %sloadBinaryEdgeList<%s, %s>("f.bin"); (void)r;' % (IO, tmpl, Kc)))
            if kind != 'nolabel':
                cells.append(Cell(p + '_writeBinary_explicit', 'io.bin', IO + 'writeBinaryEdgeList(explicit)',
                                  '%s g(3); %swriteBinaryEdgeList<%s, %s>(g, "f.bin", [](std::ofstream &s, %s v) { %swriteBinaryValue(s, v); });'
                                  % (G, IO, tmpl, Kc, Kc, IO)))
                cells.append(Cell(p + '_loadBinary_explicit', 'io.bin', IO + 'loadBinaryEdgeList(explicit)',
                                  ('auto r = %sloadBinaryEdgeList<%s, %s>("f.bin", [](std::ifstream &s, %s &v) -> std::ifstream & '
                                   '{ return %sreadBinaryValue(s, v); }); (void)r;') % (IO, tmpl, Kc, Kc, IO)))
    return cells


def fixed_cells():
    """Cells for the four non-template classes (multigraphs, weighted graphs)."""
    cells = []
    A = 'BaseGraph::algorithms::'
    for cls, lab, single in (('BaseGraph::DirectedMultigraph', 'BaseGraph::EdgeMultiplicity', False),
                             ('BaseGraph::UndirectedMultigraph', 'BaseGraph::EdgeMultiplicity', False),
                             ('BaseGraph::DirectedWeightedGraph', 'BaseGraph::EdgeWeight', True),
                             ('BaseGraph::UndirectedWeightedGraph', 'BaseGraph::EdgeWeight', True)):
        p = cls.split('::')[1]
        cells.append(Cell(p + '_ctor_size', 'ctor', cls + '::ctor(size_t)', '%s g(3); %s e; (void)g; (void)e;' % (cls, cls)))
        for C in CONTAINERS:
            cn = C.split('::')[1]
            cells.append(Cell('%s_ctor_ledges_%s' % (p, cn), 'ctor', cls + '::ctor(Container<LabeledEdge>)',
                              '%s<BaseGraph::LabeledEdge<%s>> c; %s g(c); (void)g;' % (C, lab, cls)))
        cells.append(Cell(p + '_copy', 'copy', cls + '::copy',
                          '%s g(3); %s h(g); h = g; %s m(std::move(h)); (void)(m == g); (void)(m != g);' % (cls, cls, cls)))
        directed = 'Directed' in cls
        common = ('%s g(3); const %s &c = g; (void)c.getSize(); (void)c.getEdgeNumber(); g.resize(5); '
                  '(void)c.hasEdge(0, 1); (void)c.getOutNeighbours(0); g.removeEdge(0, 1); g.removeDuplicateEdges(); '
                  'g.removeSelfLoops(); g.removeVertexFromEdgeList(0); g.clearEdges(); (void)c.asLabeledGraph(); '
                  '(void)c.getAdjacencyMatrix(); for (auto v : c) (void)v; for (auto e : c.edges()) (void)e; std::cout << c; ') % (cls, cls)
        if 'Multigraph' in cls:
            common += ('g.addEdge(0, 1); g.addEdge(0, 1, true); g.addMultiedge(0, 1, 2); g.addMultiedge(0, 1, 2, true); '
                       'g.removeMultiedge(0, 1, 2); (void)c.getEdgeMultiplicity(0, 1); g.setEdgeMultiplicity(0, 1, 3); '
                       '(void)c.getTotalEdgeNumber(); ')
            if directed:
                common += ('g.addReciprocalEdge(0, 1); g.addReciprocalMultiedge(0, 1, 2); (void)c.getOutDegree(0); '
                           '(void)c.getOutDegrees(); (void)c.getInDegree(0); (void)c.getInDegrees(); ')
            else:
                common += '(void)c.getDegree(0); (void)c.getDegree(0, false); (void)c.getDegrees(); (void)c.getAdjacencyMatrix(false); '
        else:
            common += ('g.addEdge(0, 1, 0.5); g.addEdge(0, 1, 0.5, true); (void)c.getEdgeWeight(0, 1); '
                       '(void)c.getEdgeWeight(0, 1, false); g.setEdgeWeight(0, 1, 2.0); (void)c.getTotalWeight(); '
                       '(void)c.getWeightMatrix(); ')
            if directed:
                common += ('(void)c.getInDegree(0); (void)c.getInDegrees(); (void)c.getOutDegree(0); '
                           '(void)c.getOutDegrees(); g.addReciprocalEdge(0, 1, 0.5); g.addReciprocalEdge(0, 1, 0.5, true); ')
            else:
                common += '(void)c.getDegree(0); (void)c.getDegrees(); '
            cells.append(Cell(p + '_dijkstra', 'algo', A + 'findGeodesicsDijkstra',
                              '%s g(3); auto r = %sfindGeodesicsDijkstra(g, 0); (void)r;' % (cls, A)))
        cells.append(Cell(p + '_methods', 'method', cls + '::methods', common))
    return cells


def render_tu(cells, kind=None, headers=None, extra_prelude=''):
    """Source text of a witness TU.  Each cell is one function on exactly one line so that
    diagnostics can be attributed to cells by line number."""
    lines = []
    for h in (headers or ALL_HEADERS):
        lines.append('#include "%s"' % h)
    lines.append(PRELUDE)
    if extra_prelude:
        lines.append(extra_prelude)
    if kind is not None:
        Kc = KINDS[kind]['cpp']
        lines.append('template class BaseGraph::LabeledDirectedGraph<%s>;' % Kc)
        lines.append('template class BaseGraph::LabeledUndirectedGraph<%s>;' % Kc)
    text = '\n'.join(lines) + '\n'
    line_of = {}
    cur = text.count('\n') + 1
    out = [text]
    for c in cells:
        body = ' '.join(c.body.split())
        out.append('void cell_%s() { %s }\n' % (c.id, body))
        line_of[cur] = c
        cur += 1
    return ''.join(out), line_of


def units():
    """name -> (kind or None, cells)"""
    us = {}
    for k in KINDS:
        us['k_' + k] = (k, kind_cells(k))
    us['fixed'] = (None, fixed_cells())
    return us
