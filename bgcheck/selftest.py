"""python3 -m bgcheck selftest [--only NAME] [--jobs N] [--seeded] [--all-props] [--neutral-dir DIR] [--props C01,C02]

Tests the checker both ways on scratch copies of /repo (never on /repo itself):
  selftest/break/<name>.diff    one rule instance broken, still compiling and passing the test suite;
                                <name>.json lists the properties (and rules) that must report it
  selftest/neutral/<name>.diff  behaviour-preserving edits: every check must stay silent (exit 0)
  seeded/<id>/patch.diff        changes written by independent sub-agents (meta.json: which property)
"""
import json
import os
import re
import shutil
import subprocess
import sys
import tempfile
from concurrent.futures import ThreadPoolExecutor

VERIF = os.path.dirname(os.path.dirname(os.path.abspath(__file__)))
ALL = ['C%02d' % i for i in range(1, 21)]


def run_case(kind, name, patch, expect, props):
    tmp = tempfile.mkdtemp(prefix='bgcheck_selftest_')
    try:
        repo = os.path.join(tmp, 'repo')
        os.makedirs(repo)
        for d in ('include', 'examples'):
            if os.path.isdir(os.path.join('/repo', d)):
                shutil.copytree(os.path.join('/repo', d), os.path.join(repo, d))
        r = subprocess.run(['patch', '-p1', '-s', '-d', repo, '-i', patch], stdout=subprocess.PIPE, stderr=subprocess.STDOUT, text=True)
        if r.returncode != 0:
            return dict(kind=kind, name=name, status='PATCH-DOES-NOT-APPLY', detail=r.stdout[-300:])
        env = dict(os.environ, BGCHECK_REPO=repo, BGCHECK_OUT=os.path.join(tmp, 'out'),
                   BGCHECK_CACHE=os.path.join(tmp, 'cache'))
        results = {}
        for p in props:
            r = subprocess.run([sys.executable, '-m', 'bgcheck', p, '--tier', 'quick'], cwd=VERIF, env=env,
                               stdout=subprocess.PIPE, stderr=subprocess.STDOUT, text=True)
            rules = sorted(set(re.findall(r'^  rule (\S+) in', r.stdout, re.M)))
            results[p] = dict(rc=r.returncode, rules=rules,
                              first=(re.findall(r'^  rule .*$', r.stdout, re.M) or re.findall(r'^INCONCLUSIVE.*$', r.stdout, re.M) or [''])[0][:300])
        if kind == 'neutral':
            bad = {p: v for p, v in results.items() if v['rc'] != 0}
            return dict(kind=kind, name=name, status='OK' if not bad else 'FALSE-ALARM', detail=bad)
        missing = {}
        for p, rules in expect.items():
            got = results.get(p)
            if got is None or got['rc'] != 1 or (rules and not (set(rules) & set(got['rules']))):
                missing[p] = got
        caught = sorted(p for p, v in results.items() if v['rc'] == 1)
        incon = sorted(p for p, v in results.items() if v['rc'] == 2)
        return dict(kind=kind, name=name, status='OK' if not missing else 'MISSED', caught=caught, inconclusive=incon,
                    detail=missing, rules={p: results[p]['rules'] for p in caught})
    finally:
        shutil.rmtree(tmp, ignore_errors=True)


def main(args):
    only = None
    jobs = 4
    seeded = False
    allprops = False
    extra_neutral = None
    i = 0
    while i < len(args):
        if args[i] == '--only':
            only = args[i + 1]
            i += 2
        elif args[i] == '--jobs':
            jobs = int(args[i + 1])
            i += 2
        elif args[i] == '--seeded':
            seeded = True
            i += 1
        elif args[i] == '--all-props':
            allprops = True
            i += 1
        elif args[i] == '--props':
            # restrict the neutral cases to these properties (e.g. after a change to the rules of a few properties)
            global ALL
            ALL = args[i + 1].split(',')
            i += 2
        elif args[i] == '--neutral-dir':
            extra_neutral = args[i + 1]
            i += 2
        else:
            i += 1
    cases = []
    if extra_neutral:
        for f in sorted(os.listdir(extra_neutral)):
            if f.endswith('.diff'):
                cases.append(('neutral', f[:-5], os.path.abspath(os.path.join(extra_neutral, f)), {}, ALL))
    bdir = os.path.join(VERIF, 'selftest', 'break')
    ndir = os.path.join(VERIF, 'selftest', 'neutral')
    if extra_neutral:
        pass
    elif not seeded:
        for f in sorted(os.listdir(bdir)) if os.path.isdir(bdir) else []:
            if f.endswith('.diff'):
                name = f[:-5]
                meta = {}
                mp = os.path.join(bdir, name + '.json')
                if os.path.exists(mp):
                    meta = json.load(open(mp))
                expect = meta.get('expect', {})
                cases.append(('break', name, os.path.join(bdir, f), expect, ALL if allprops else sorted(expect) or ALL))
        for f in sorted(os.listdir(ndir)) if os.path.isdir(ndir) else []:
            if f.endswith('.diff'):
                cases.append(('neutral', f[:-5], os.path.join(ndir, f), {}, ALL))
    else:
        sdir = os.path.join(VERIF, 'seeded')
        for d in sorted(os.listdir(sdir)) if os.path.isdir(sdir) else []:
            pp = os.path.join(sdir, d, 'patch.diff')
            if os.path.exists(pp):
                meta = json.load(open(os.path.join(sdir, d, 'meta.json'))) if os.path.exists(os.path.join(sdir, d, 'meta.json')) else {}
                expect = {meta['property']: []} if 'property' in meta else {}
                if meta.get('undetected'):
                    # recorded as not reported by its property (DESIGN.md 13 / 14): run it, expect nothing
                    cases.append(('break', 'seeded/' + d + ' (documented miss)', pp, {}, [meta['property']]))
                    continue
                cases.append(('break', 'seeded/' + d, pp, expect, ALL if allprops else sorted(expect) or ALL))
    if only:
        cases = [c for c in cases if only in c[1]]
    bad = 0
    with ThreadPoolExecutor(max_workers=jobs) as ex:
        for res in ex.map(lambda c: run_case(*c), cases):
            line = '%-8s %-46s %s' % (res['kind'], res['name'], res['status'])
            if res['kind'] == 'break':
                line += '  caught by %s %s' % (','.join(res.get('caught', [])) or '-', json.dumps(res.get('rules', {})))
                if res.get('inconclusive'):
                    line += '  inconclusive: %s' % ','.join(res['inconclusive'])
            print(line)
            if res['status'] != 'OK':
                bad += 1
                print('    ', json.dumps(res.get('detail'))[:(100000 if os.environ.get('BGCHECK_FULL') else 600)])
    print('selftest: %d cases, %d not as expected' % (len(cases), bad))
    return 1 if bad else 0
