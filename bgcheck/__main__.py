"""python3 -m bgcheck <Cnn> [--tier quick|thorough] [--only-rule R]
   python3 -m bgcheck setup | selftest | dump <function-substring>"""
import os
import sys
import time
import traceback

from . import facts, props
from .ir import AnalysisBroken


def main(argv):
    if not argv:
        print(__doc__)
        return 2
    cmd = argv[0]
    tier = os.environ.get('VERIF_TIER', 'quick')
    only = None
    i = 1
    rest = []
    while i < len(argv):
        a = argv[i]
        if a == '--tier':
            tier = argv[i + 1]
            i += 2
        elif a == '--only-rule':
            only = argv[i + 1]
            i += 2
        else:
            rest.append(a)
            i += 1
    if tier not in ('quick', 'thorough'):
        tier = 'quick'
    if cmd == 'setup':
        facts.build_bgx(force=False)
        p = facts.load_program()
        print('bgx built; %d witness units, %d function bodies extracted' % (
            len(p.units), sum(len(u.functions) for u in p.units)))
        return 0
    if cmd == 'manifest':
        man = props.manifest()
        print('MANIFEST.json written: %d checks, %d not applicable' % (len(man['checks']), len(man['not_applicable'])))
        return 0
    if cmd == 'dump':
        from . import debug
        return debug.dump(rest)
    if cmd == 'selftest':
        from . import selftest
        return selftest.main(rest)
    if cmd in props.PROPERTIES:
        t0 = time.time()
        try:
            return props.run(cmd, tier, only, t0)
        except AnalysisBroken as e:
            print('INCONCLUSIVE property=%s analysis broken: %s' % (cmd, e))
            props.write_broken_evidence(cmd, tier, t0, str(e))
            return 2
        except Exception:
            traceback.print_exc()
            print('INCONCLUSIVE property=%s internal error in the checker' % cmd)
            props.write_broken_evidence(cmd, tier, t0, 'internal error')
            return 2
    print('unknown command', cmd)
    return 2


if __name__ == '__main__':
    sys.exit(main(sys.argv[1:]))
