"""Declaration-level rules: D-ENC, D-VALSEM, D-PURE, D-GUARD, D-ODR, D-THROW, coverage."""
import re

from .model import GRAPH_CLASSES, LDG, LUG, DMG, UMG, DWG, UWG, NS, short
from .report import Finding, RuleResult
from .terms import Terms, subterms
from .ir import short_type

NONREENTRANT = {'rand', 'srand', 'strtok', 'localtime', 'gmtime', 'asctime', 'ctime', 'setlocale', 'tmpnam',
                'strerror', 'getlogin', 'ttyname', 'setenv', 'putenv', 'unsetenv', 'sync_with_stdio', 'set_terminate',
                'set_new_handler', 'signal', 'chdir', 'umask'}
# functions that replace process-wide state (qualified names): a const operation that calls one changes what every other
# thread observes, and a save / set / restore pair around it is not atomic
PROCESS_GLOBAL = {'std::locale::global', 'std::ios_base::sync_with_stdio', 'std::set_terminate', 'std::set_new_handler'}

# re-exported non-const members allowed in the classes that inherit non-publicly (D-ENC)
USING_ALLOW = {
    'resize': 'grows the vertex set only; orientation-free and total-free',
}
USING_ALLOW_PER_CLASS = {
    (LUG, 'clearEdges'): 'the storage-class implementation clears all lists, the count and the label store; '
                         'nothing in it depends on orientation',
}


def _records(m, std=None):
    seen = set()
    for u in m.p.units:
        if std is not None and u.std != std:
            continue
        for r in u.records:
            k = (r['tname'], r['args'], r['dependent'])
            if k in seen:
                continue
            seen.add(k)
            yield u, r


def _loc(u, loc):
    return u.fmt_loc(loc)


def is_iterator_nonconst(ctype):
    if '_List_iterator<' in ctype and '_List_const_iterator' not in ctype:
        return True
    if '_Node_iterator<' in ctype and '_Node_const_iterator' not in ctype:
        return True
    m = re.search(r'__normal_iterator<([^,]*)\*', ctype)
    if m and 'const' not in m.group(1):
        return True
    return False


def is_pointerlike(ctype):
    return bool(re.match(r'(const )?std::(shared_ptr|unique_ptr|weak_ptr|reference_wrapper|span|basic_string_view)<', ctype))


def rule_pure(m):
    res = RuleResult('D-PURE', 'no mutable field, no const-removing cast, no writable static/thread storage, no '
                               'pointer-like member to non-const, no non-reentrant C library call')
    # fields
    for u, r in _records(m):
        if r['lambda']:
            continue
        for f in r['fields']:
            res.sites += 1
            nm = '%s::%s' % (short(r['tname']), f['name'])
            if f['mutable']:
                res.fail(Finding('D-PURE', short(r['tname']), 'mutable field ' + f['name'], _loc(u, f['loc']),
                                 'field %s is declared mutable: a const member function can write it, so concurrent '
                                 'const calls race' % nm))
            elif (f['isptr'] or f['isref']) and not f.get('pointeeconst', False):
                res.fail(Finding('D-PURE', short(r['tname']), 'pointer/reference field ' + f['name'], _loc(u, f['loc']),
                                 'field %s (%s) gives const member functions a non-const access path to shared state'
                                 % (nm, f['type'])))
            elif is_pointerlike(f['ctype']) or is_iterator_nonconst(f['ctype']):
                res.fail(Finding('D-PURE', short(r['tname']), 'pointer-like field ' + f['name'], _loc(u, f['loc']),
                                 'field %s (%s) is a pointer-like handle through which a const member function can '
                                 'write shared state' % (nm, f['type'])))
            else:
                res.ok(dict(field=nm, type=f['type'], mutable=False) if len(res.samples) < 5 else None)
    # variables with static / thread storage
    seenv = set()
    for u in m.p.units:
        for v in u.vars:
            k = (v['tname'], tuple(v['loc'][1:]))
            if k in seenv:
                continue
            seenv.add(k)
            res.sites += 1
            if v['constq'] or v['constexpr']:
                if v['isptr'] and 'const' not in v['type'].split('*')[0]:
                    res.fail(Finding('D-PURE', short(v['tname']), 'static pointer to non-const', _loc(u, v['loc']),
                                     'variable %s with static storage points to writable shared memory' % v['tname']))
                else:
                    res.ok(dict(static_variable=short(v['tname']), type=v['type'], const=True))
            else:
                kind = 'static local' if v['staticlocal'] else 'static data member' if v['staticmember'] else \
                    'thread_local' if v['threadlocal'] else 'namespace-scope'
                res.fail(Finding('D-PURE', short(v['tname']), 'writable %s variable' % kind, _loc(u, v['loc']),
                                 '%s variable %s (%s) is not const: shared writable state reachable from const code'
                                 % (kind, v['tname'], v['type'])))
    # casts (patterns + instantiations)
    seenc = set()
    for u in m.p.units:
        for c in u.casts:
            k = tuple(c['loc'][1:]) + (u.file_of(c['loc']),)
            if k in seenc:
                continue
            seenc.add(k)
            res.sites += 1
            if c['constcast'] or c['dropsconst']:
                res.fail(Finding('D-PURE', u.file_of(c['loc']).replace('/repo/', ''), 'const-removing cast',
                                 _loc(u, c['loc']), 'cast from %s to %s removes const' % (c['from'], c['to'])))
            else:
                res.ok(None)
    for f in m.fns:
        for n in f.nodes:
            if n.get('dropsconst') or n['k'] == 'CXXConstCastExpr':
                res.sites += 1
                res.fail(Finding('D-PURE', f.display(), 'const-removing cast', f.nloc(n['i']),
                                 'cast to %s removes const in %s' % (n.get('towritten'), f.display())))
            if n['k'] == 'CallExpr' and 'callee' in n:
                d = f.unit.decl(n['callee'])
                if d and d.get('tname') in ('std::async', 'std::thread::thread') or (d and d.get('tname', '').startswith(('std::thread::', 'std::jthread'))):
                    res.sites += 1
                    res.fail(Finding('D-PURE', f.display(), 'thread started by the library', f.nloc(n['i']),
                                     '%s starts another thread (%s): whatever that thread shares with its creator (locals captured by '
                                     'reference, the graph) is accessed concurrently inside a single call' % (f.display(), d.get('tname'))))
                if d and d.get('tname') in PROCESS_GLOBAL:
                    res.sites += 1
                    res.fail(Finding('D-PURE', f.display(), 'call to ' + d['tname'], f.nloc(n['i']),
                                     '%s replaces process-wide state from inside a library operation: every other thread - including '
                                     'concurrent read-only calls on the same graph - observes the change, and setting and restoring '
                                     'it is not atomic (two overlapping calls can leave the replaced value behind)' % d['tname']))
                    continue
                if d and d.get('name') in NONREENTRANT and not d.get('inroots'):
                    res.sites += 1
                    res.fail(Finding('D-PURE', f.display(), 'call to ' + d['name'], f.nloc(n['i']),
                                     'call to non-reentrant library function %s() uses hidden shared state' % d['name']))
    # callables handed to the file routines are taken by value: a reference would make concurrent calls that were given the same
    # converter object invoke that one object (std::function::operator() const calls its target non-const)
    seen_sig = set()
    for f in m.fns:
        if not f.tname.startswith(NS + 'io::') or f.is_lambda or (f.tname, tuple(f.cptypes)) in seen_sig:
            continue
        seen_sig.add((f.tname, tuple(f.cptypes)))
        for ix, ct in enumerate(f.cptypes):
            if 'std::function<' in ct:
                res.sites += 1
                if ct.rstrip().endswith('&'):
                    res.fail(Finding('D-PURE', f.display(), 'callable parameter by reference', f.where(),
                                     'parameter `%s` of %s is a reference to the caller\'s std::function: two threads that write '
                                     'different files with the same converter object run that object concurrently (its call operator '
                                     'is invoked non-const through std::function), where a by-value parameter gives every call its own '
                                     'copy' % (f.pnames[ix] if ix < len(f.pnames) else ix, f.display())))
                else:
                    res.ok(dict(function=f.display(), parameter=f.pnames[ix] if ix < len(f.pnames) else ix, passed='by value')
                           if len(res.samples) < 12 else None, fn=f.display())
    res.require_sites(10, 'fields / variables / casts')
    return res


def rule_const_closure(m):
    """Every const entry point reaches only functions that take the shared graph through a const
    access path: a call to a non-const member function on `this` or on a const&-parameter graph is
    impossible without a cast (D-PURE) - confirmed here on the resolved call graph."""
    res = RuleResult('D-CONST', 'from const entry points (const members of the graph classes and their iterator '
                                'helpers, algorithms, subgraph extraction, writers) only const members are invoked on '
                                'the shared graph, and no field of it is written')
    entries = []
    for f in m.fns:
        if f.is_lambda:
            continue
        if f.record and (f.record in GRAPH_CLASSES or '::Edges' in f.record or f.record == NS + 'VertexIterator'):
            if f.is_const and f.access == 'public':
                entries.append(f)
        elif f.record is None and (f.tname.startswith(NS + 'algorithms::') or
                                   (f.tname.startswith(NS + 'io::') and 'write' in f.name)):
            entries.append(f)
    visited = {}
    for e in entries:
        for g in m.closure(e):
            visited[id(g)] = g
    res.sites = len(entries)
    for g in visited.values():
        shared_roots = set()
        if g.is_const:
            shared_roots.add('this')
        for pi, pd in enumerate(g.params):
            d = g.unit.decl(pd)
            ct = d['ctype']
            if ct.startswith('const ') and ct.endswith('&') and (NS in ct):
                shared_roots.add(pd)
        bad = False
        for n in g.nodes:
            k = n['k']
            target = None
            what = None
            if k == 'CXXMemberCallExpr' and 'callee' in n:
                cd = g.unit.decl(n['callee'])
                if cd and cd.get('inroots') and not cd.get('const') and not cd.get('static'):
                    target = n.get('obj')
                    what = 'non-const member call ' + cd['name']
            elif k in ('BinaryOperator', 'CompoundAssignOperator') and n.get('op', '').endswith('=') and \
                    n['op'] not in ('==', '!=', '<=', '>='):
                target = n['c'][0]
                what = 'assignment'
            elif k == 'UnaryOperator' and n['op'] in ('++', '--'):
                target = n['c'][0]
                what = n['op']
            if target is None or target < 0:
                continue
            root = _root_of(g, target)
            if root is None:
                continue
            if root in shared_roots:
                # only reachable through a field of the shared object
                if _touches_field(g, target) or root != 'this':
                    res.fail(Finding('D-CONST', g.display(), what + ' on shared graph state', g.nloc(n['i']),
                                     '%s on state reached from the const access path in %s' % (what, g.display())))
                    bad = True
        if not bad:
            res.ok(dict(function=g.display(), const=g.is_const, shared_roots=len(shared_roots))
                   if len(res.samples) < 6 else None, fn=g.display())
    res.notes.append('%d const entry points, %d functions in their closure' % (len(entries), len(visited)))
    res.extra = dict(entry_points=len(entries), closure=len(visited),
                     entry_sample=sorted({e.display() for e in entries})[:40])
    res.require_sites(30, 'const entry points')
    return res


def _root_of(g, nid):
    """'this' / param decl id / None for the object an lvalue expression is rooted in."""
    seen = 0
    while nid is not None and nid >= 0 and seen < 50:
        seen += 1
        nid = g.strip(nid)
        n = g.nodes[nid]
        k = n['k']
        if k == 'CXXThisExpr':
            return 'this'
        if k == 'DeclRefExpr':
            d = g.unit.decl(n['d'])
            if d['dk'] == 'ParmVar':
                return n['d']
            if d['dk'] == 'Var' and d.get('isref'):
                # local reference: follow its initialiser
                init = _var_init(g, n['d'])
                if init is None:
                    return None
                nid = init
                continue
            return None
        if k == 'MemberExpr':
            nid = n['c'][0] if n['c'] else -1
            continue
        if k == 'CXXOperatorCallExpr':
            a = n.get('args', [])
            nid = a[0] if a else -1
            continue
        if k == 'CXXMemberCallExpr':
            # value returned by a member call: reference into the object only if it returns a reference
            if n.get('lv'):
                nid = n.get('obj', -1)
                continue
            return None
        if k == 'UnaryOperator' and n['op'] == '*':
            nid = n['c'][0]
            continue
        if k == 'ArraySubscriptExpr':
            nid = n['c'][0]
            continue
        return None
    return None


def _touches_field(g, nid):
    for dn in g.descendants(nid):
        n = g.nodes[dn]
        if n['k'] == 'MemberExpr' and g.unit.decl(n['d'])['dk'] == 'Field':
            return True
    return False


def _var_init(g, did):
    for n in g.nodes:
        if n['k'] == 'DeclStmt' and did in n['decls']:
            ix = n['decls'].index(did)
            if ix < len(n['c']) and n['c'][ix] >= 0:
                return n['c'][ix]
    return None


def rule_guard(m):
    res = RuleResult('D-GUARD', 'every header under include/ is protected against multiple inclusion '
                                '(clang multiple-include optimisation: #ifndef/#define or #pragma once)')
    seen = {}
    for u in m.p.units:
        for h in u.headers:
            seen.setdefault(h['file'], h['guarded'])
            seen[h['file']] = seen[h['file']] and h['guarded']
    for f, g in sorted(seen.items()):
        res.sites += 1
        if g:
            res.ok(dict(header=f, guarded=True) if len(res.samples) < 3 else None)
        else:
            res.fail(Finding('D-GUARD', f.replace('/repo/', ''), 'no include guard', f + ':1',
                             'header has no include guard / #pragma once: including it twice redefines its contents'))
    res.require_sites(5, 'headers')
    return res


def rule_odr(m):
    res = RuleResult('D-ODR', 'every namespace-scope function definition in a header is a template, inline, '
                              'constexpr or has internal linkage; every namespace-scope variable has internal linkage '
                              'or is inline')
    seen = set()
    for u in m.p.units:
        for p in u.patternfns:
            k = (p['tname'], tuple(p['loc'][1:]), u.file_of(p['loc']))
            if k in seen or p.get('implicit') or p.get('lambda'):
                continue
            seen.add(k)
            if p['method']:
                if p['inclass'] or p.get('classtemplate') or p['templ']:
                    continue
            res.sites += 1
            ok = p['templ'] or p['inlinespec'] or p['inlined'] or p['constexpr'] or p['static'] or p['anonns'] or \
                p.get('friendinline')
            if ok:
                res.ok(dict(function=short(p['tname']), template=p['templ'], inline=p['inlined'])
                       if len(res.samples) < 4 else None)
            else:
                res.fail(Finding('D-ODR', short(p['tname']), 'non-inline definition in header', _loc(u, p['loc']),
                                 'namespace-scope function %s is defined in a header without inline/template/static: '
                                 'a program with two translation units including it has a multiple definition'
                                 % p['tname']))
    seenv = set()
    for u in m.p.units:
        for v in u.vars:
            if v['staticlocal'] or v['staticmember'] or v['dependent']:
                continue
            k = (v['tname'], tuple(v['loc'][1:]))
            if k in seenv:
                continue
            seenv.add(k)
            res.sites += 1
            if v['external'] and not v['inline']:
                res.fail(Finding('D-ODR', short(v['tname']), 'external variable in header', _loc(u, v['loc']),
                                 'namespace-scope variable %s has external linkage and is not inline' % v['tname']))
            else:
                res.ok(dict(variable=short(v['tname']), external=v['external'], inline=v['inline']))
    res.require_sites(2, 'namespace-scope definitions')
    return res


EXPECTED_THROWS = [
    # (function tname, exception, description)
    (LDG + '::assertVertexInRange', 'std::out_of_range', 'range sanitizer'),
    (LDG + '::resize', 'std::invalid_argument', 'shrinking resize'),
    (LDG + '::setEdgeLabel', 'std::invalid_argument', 'label of a missing edge'),
    (LDG + '::_getLabel', 'std::invalid_argument', 'label of a missing edge'),
    (NS + 'io::verifyStreamOpened', 'std::runtime_error', 'file cannot be opened'),
]


def rule_throw(m):
    res = RuleResult('D-THROW', 'every throw under include/ throws a class derived from std::exception; the '
                                'documented exception types are thrown by the documented functions')
    thrown_by = {}
    for f in m.fns:
        for n in f.nodes:
            if n['k'] != 'CXXThrowExpr':
                continue
            res.sites += 1
            if n.get('rethrow'):
                res.ok(None)
                continue
            bases = n.get('thrownbases', [])
            if m.thrower_type(f) is None:
                thrown_by.setdefault(f.tname, set()).add(n.get('thrown', ''))
            if 'std::exception' in bases:
                res.ok(dict(function=f.display(), throws=n.get('thrown')) if len(res.samples) < 6 else None,
                       fn=f.display())
            else:
                res.fail(Finding('D-THROW', f.display(), 'throw of ' + n.get('thrown', '?'), f.nloc(n['i']),
                                 'throws %s, which does not derive from std::exception' % n.get('thrown')))
    for f in m.fns:
        for (nid, ty, bases) in m.throw_sites(f):
            if f.nodes[nid]['k'] != 'CXXThrowExpr':
                thrown_by.setdefault(f.tname, set()).add(ty or '')
    for tn, exc, what in [((m.label_helpers()[1] if t0 == LDG + '::_getLabel' else t0), e0, w0) for (t0, e0, w0) in EXPECTED_THROWS]:
        res.sites += 1
        got = thrown_by.get(tn, set())
        if not m.by_tname.get(tn):
            res.broken('D-THROW: anchor vanished: %s has no analysed instantiation' % tn)
            continue
        if got == {exc}:
            res.ok(dict(function=short(tn), documented=exc, case=what))
        else:
            f = m.by_tname[tn][0]
            res.fail(Finding('D-THROW', short(tn), 'documented exception ' + exc, f.where(),
                             '%s must throw exactly %s for "%s" but throws %s' % (short(tn), exc, what, sorted(got) or 'nothing')))
    res.require_sites(5, 'throw expressions')
    return res


def rule_encapsulation(m):
    res = RuleResult('D-ENC', 'state fields are non-public; no public member hands out a mutable reference, pointer '
                              'or iterator into them; non-publicly inherited mutators are re-exported only from the '
                              'allow-list')
    nonpublic_derived = {LUG, DMG, UMG, DWG, UWG}
    seen = set()
    by_tname = {}
    for u, r in _records(m, m.std):
        if r['tname'] in GRAPH_CLASSES and not r['dependent']:
            by_tname.setdefault(r['tname'], r)
    for u, r in _records(m, m.std):
        if r['tname'] not in GRAPH_CLASSES or r['dependent']:
            continue
        k = (r['tname'], r['args'])
        if k in seen:
            continue
        seen.add(k)
        cname = short(r['tname']) + ('<%s>' % r['args'] if r['args'] else '')
        for f in r['fields']:
            res.sites += 1
            if f['access'] == 'public':
                res.fail(Finding('D-ENC', cname, 'public field ' + f['name'], _loc(u, f['loc']),
                                 'state field %s is public: clients can desynchronise lists, counters and labels' % f['name']))
            else:
                res.ok(dict(cls=cname, field=f['name'], access=f['access']) if len(res.samples) < 3 else None)
        for b in r['bases']:
            if b.get('tname') in GRAPH_CLASSES:
                res.sites += 1
                if b['access'] == 'public':
                    res.fail(Finding('D-ENC', cname, 'public base ' + short(b['tname']), _loc(u, r['loc']),
                                     'inherits publicly from %s: every base mutator (which ignores the mirror half-edge '
                                     'or the running total) becomes callable' % short(b['tname'])))
                else:
                    res.ok(dict(cls=cname, base=short(b['tname']), access=b['access']))
        for me in r['methods']:
            if me['access'] != 'public' or me.get('kind', 'method') != 'method':
                continue
            res.sites += 1
            rt = me.get('crtype', me.get('rtype', ''))
            if _mutable_handle(rt):
                res.fail(Finding('D-ENC', cname, 'public method %s returns mutable handle' % me['name'],
                                 _loc(u, me['loc']),
                                 'public %s returns %s: a mutable handle into the graph state' % (me['name'], rt)))
            else:
                res.ok(None)
        for us in r['usings']:
            if us['access'] != 'public':
                continue
            for t in us['targets']:
                if t['dk'] not in ('CXXMethod', 'FunctionTemplate'):
                    continue
                res.sites += 1
                # a re-export names the member its direct base offers under that name: naming a base further up skips the
                # redefinition in between (e.g. the undirected edges() that yields one orientation per edge)
                skipped = None
                for b in r['bases']:
                    if b.get('tname') in GRAPH_CLASSES:
                        offered = _resolve_member(by_tname, b['tname'], us['name'])
                        if offered and t['tname'] not in offered:
                            skipped = (b['tname'], sorted(offered)[0])
                if skipped:
                    res.fail(Finding('D-ENC', cname, 'using %s bypasses the direct base' % us['name'], _loc(u, us['loc']),
                                     '%s re-exports %s, but its direct base %s offers %s under that name: the re-export skips the '
                                     'base\'s own definition' % (cname, t['tname'].replace(NS, ''), short(skipped[0]),
                                                                 skipped[1].replace(NS, ''))))
                    continue
                rt = t.get('crtype', '')
                if _mutable_handle(rt):
                    res.fail(Finding('D-ENC', cname, 'using %s returns mutable handle' % us['name'], _loc(u, us['loc']),
                                     're-exported %s returns %s' % (us['name'], rt)))
                    continue
                if r['tname'] in nonpublic_derived and not t.get('const', True) and not t.get('static', False):
                    why = USING_ALLOW.get(us['name']) or USING_ALLOW_PER_CLASS.get((r['tname'], us['name']))
                    if why:
                        res.ok(dict(cls=cname, using=us['name'], allowed_because=why))
                        if why not in res.exclusions:
                            res.exclusions.append('%s::%s re-export allowed: %s' % (short(r['tname']), us['name'], why))
                    else:
                        res.fail(Finding('D-ENC', cname, 'using of base mutator ' + us['name'], _loc(u, us['loc']),
                                         '%s re-exports the base-class mutator %s, which does not maintain this class\'s '
                                         'mirror half-edge / running total' % (cname, us['name'])))
                else:
                    res.ok(None)
    res.require_sites(30, 'fields / methods / using declarations')
    return res


def _resolve_member(by_tname, cls, name, depth=0):
    """qualified names of the member functions class `cls` offers under `name`: its own, else what its using-declaration
    names, else what its graph-class bases offer"""
    r = by_tname.get(cls)
    if r is None or depth > 4:
        return set()
    own = {cls + '::' + me['name'] for me in r['methods'] if me['name'] == name}
    if own:
        return own
    via = {t['tname'] for us in r['usings'] if us['name'] == name for t in us['targets']}
    if via:
        return via
    out = set()
    for b in r['bases']:
        if b.get('tname') in by_tname:
            out |= _resolve_member(by_tname, b['tname'], name, depth + 1)
    return out


def _mutable_handle(rt):
    rt = rt.strip()
    if not rt:
        return False
    if rt.endswith('&') and not rt.startswith('const ') and 'std::basic_ostream' not in rt and 'std::basic_istream' not in rt:
        # reference to non-const; `T &` where T is a graph class (operator=) is fine
        inner = rt[:-1].strip()
        if inner.replace(NS, '').split('<')[0] in ('LabeledDirectedGraph', 'LabeledUndirectedGraph',
                                                   'DirectedMultigraph', 'UndirectedMultigraph',
                                                   'DirectedWeightedGraph', 'UndirectedWeightedGraph'):
            return False
        return True
    if rt.endswith('*') and not rt.startswith('const '):
        return True
    return is_iterator_nonconst(rt) or is_pointerlike(rt)


def rule_valsem(m):
    res = RuleResult('D-VALSEM', 'graph classes follow the rule of zero and hold only value-semantic members, so '
                                 'implicit copies are deep and independent')
    seen = set()
    for u, r in _records(m, m.std):
        if r['tname'] not in GRAPH_CLASSES or r['dependent']:
            continue
        k = (r['tname'], r['args'])
        if k in seen:
            continue
        seen.add(k)
        cname = short(r['tname']) + ('<%s>' % r['args'] if r['args'] else '')
        res.sites += 1
        provided = r.get('provided')
        if provided is None:
            provided = [s for s in ('userdtor', 'usercopyctor', 'usercopyassign', 'usermovector', 'usermoveassign') if r[s]]
        if provided:
            # a special member with a body written by hand: member-wise semantics must be shown, not assumed (D-COPY)
            bad, unknown = _special_members_transfer(m, r, provided)
            if bad:
                res.fail(Finding('D-VALSEM', cname, 'user-provided %s' % bad[0][0], bad[0][2],
                                 '%s has a hand-written %s that does not take the member `%s` from its source: the copy / moved-to '
                                 'object is not the member-wise copy C06/C09/C10 rely on' % (cname, bad[0][0], bad[0][1])))
            elif unknown:
                res.broken('D-VALSEM: expected the hand-written %s of %s to be instantiated by a witness cell and to read every '
                           'member of its source' % (unknown[0], cname))
            else:
                res.ok(dict(cls=cname, special_members='hand-written, member-wise: ' + ', '.join(provided)))
        else:
            res.ok(dict(cls=cname, rule_of_zero=True) if len(res.samples) < 4 else None)
        for f in r['fields']:
            res.sites += 1
            ct = f['ctype']
            if f['isptr'] or f['isref'] or is_pointerlike(ct) or '*' in ct:
                res.fail(Finding('D-VALSEM', cname, 'non-value field ' + f['name'], _loc(u, f['loc']),
                                 'field %s has type %s: a copy of the graph would share it with its source' % (f['name'], f['type'])))
            else:
                res.ok(dict(cls=cname, field=f['name'], type=f['type']) if len(res.samples) < 8 else None)
    res.require_sites(10, 'classes / fields')
    return res


def _special_members_transfer(m, r, provided):
    """for the user-provided copy / move constructors and assignments of record r: the fields of the source object that the
    body (or the initialiser list) never reads.  Returns ([(kind, field, where)], [kinds that could not be examined])."""
    bad, unknown = [], []
    fields = [fl['name'] for fl in r['fields']]
    for kind in provided:
        if kind == 'dtor' or kind == 'userdtor':
            fs = [f for f in m.fns if f.record == r['tname'] and f.name.startswith('~') and (f.recordargs or '') == (r['args'] or '')]
            if not fs or any(n['k'] in ('CallExpr', 'CXXMemberCallExpr', 'CXXDeleteExpr', 'BinaryOperator', 'CXXOperatorCallExpr')
                             for f in fs for n in f.nodes):
                unknown.append('destructor')
            continue
        fs = [f for f in m.fns if f.record == r['tname'] and (f.recordargs or '') == (r['args'] or '') and f.unit.decl(f.decl).get('special') == kind]
        if not fs:
            # the member of a class template is one piece of source: any analysed instantiation speaks for it
            fs = [f for f in m.fns if f.record == r['tname'] and f.unit.decl(f.decl).get('special') == kind]
        if not fs:
            unknown.append(kind)
            continue
        for f in fs[:1]:
            src = ('var', f.params[0]) if f.params else None
            tt = Terms(f)
            read = set()
            nodes = list(f.nodes)
            for t in [tt.t(n['i']) for n in nodes if n['k'] in ('MemberExpr',)]:
                for st in subterms(t):
                    if st[0] == 'member' and st[1] == src:
                        read.add(st[2].split('::')[-1])
            # whole-object forms: `*this = other`-style delegation or a base-class / delegating initialiser taking the source
            whole = any(i.get('delegating') for i in f.d.get('inits', []))
            for name in fields:
                if name not in read and not whole:
                    bad.append((kind.replace('-', ' ').replace('ctor', 'constructor').replace('assign', 'assignment'), name, f.where()))
    return bad, unknown


SCALARS = ('unsigned', 'int', 'long', 'short', 'char', 'bool', 'double', 'float', 'size_t')


def _is_scalar(ct):
    ct = ct.replace('const ', '').strip()
    return ct.split(' ')[0] in SCALARS or ct.endswith('*')


def rule_init(m):
    """D-INIT: no constructor of a library class leaves a scalar member indeterminate."""
    res = RuleResult('D-INIT', 'every user-written constructor of a library class initialises every scalar data member '
                               '(default member initialiser, member-initialiser list, delegation, or an assignment in its '
                               'body): no observer or update reads an indeterminate value')
    fields_of = {}
    for u, r in _records(m, m.std):
        if not r['tname'].startswith(NS):
            continue
        for fl in r['fields']:
            fields_of.setdefault(r['tname'], {}).setdefault(fl['name'], (fl['ctype'], _loc(u, fl['loc'])))
    for f in m.fns:
        if not f.is_ctor or not (f.record or '').startswith(NS) or f.is_lambda:
            continue
        inits = f.d.get('inits', [])
        if any(i.get('delegating') for i in inits):
            continue
        done = {f.unit.decl(i['field'])['name'] for i in inits if 'field' in i}
        tt = Terms(f)
        for n in f.nodes:
            if n['k'] == 'BinaryOperator' and n.get('op') == '=':
                t = tt.t(n['c'][0])
                if t[0] == 'field':
                    done.add(t[1].split('::')[-1])
        for name, (ct, loc) in sorted(fields_of.get(f.record, {}).items()):
            if not _is_scalar(ct):
                continue
            res.sites += 1
            if name in done:
                res.ok(dict(constructor=f.display(), member=name) if len(res.samples) < 10 else None, fn=f.display())
            else:
                res.fail(Finding('D-INIT', f.display(), 'member ' + name, f.where(),
                                 'constructor %s(%s) leaves the %s member `%s` (declared at %s) without an initial value: it has no '
                                 'default member initialiser and is not in this constructor\'s initialiser list, so objects built '
                                 'through it read an indeterminate value' % (f.display(), ', '.join(short_type(c) for c in f.cptypes)[:80],
                                                                          ct, name, loc)))
    res.require_sites(10, 'constructor x scalar member')
    return res


STD_THROWERS = ('at', 'substr', 'stoi', 'stol', 'stoul', 'stoll', 'stoull', 'stof', 'stod', 'stold')


def rule_noexcept(m):
    """D-NOEXCEPT: a function whose exceptions are part of the contract is not declared non-throwing."""
    from .rules_ts import _fixture_functions, _fixture_verdict
    res = RuleResult('D-NOEXCEPT', 'no library function that can raise an exception - it contains a throw, calls a library function '
                                   'that does, or calls a standard function specified to throw on bad input (at, substr, sto*) - has a '
                                   'non-throwing exception specification: the exception the callers and the documentation rely on '
                                   'would become std::terminate')
    may = {}

    def may_throw(f, depth=0):
        k = id(f)
        if k in may:
            return may[k]
        may[k] = None
        why = None
        if m.throw_sites(f):
            why = 'contains a throw'
        for n in f.nodes:
            if why:
                break
            if n['k'] == 'CXXThrowExpr':
                why = 'contains a throw'
            elif n['k'] in ('CallExpr', 'CXXMemberCallExpr') and 'callee' in n:
                cd = f.unit.decl(n['callee'])
                if cd.get('tname', '').startswith('std::') and cd.get('name') in STD_THROWERS and not cd.get('nothrow'):
                    why = 'calls %s, which throws on bad input' % cd['tname']
                elif depth < 6:
                    g = f.unit.function_for_decl(n['callee'])
                    if g is not None and g.tname.startswith(NS) and not g.unit.decl(g.decl).get('nothrow'):
                        w = may_throw(g, depth + 1)
                        if w:
                            why = 'calls %s, which %s' % (g.display(), w)
        if any(n['k'] == 'CXXTryStmt' for n in f.nodes):
            why = None          # (handled locally: not judged)
        may[k] = why
        return why
    for f in list(m.fns) + _fixture_functions('noexcept'):
        if not f.tname.startswith(NS) or f.is_lambda:
            continue
        res.sites += 1
        d = f.unit.decl(f.decl)
        if not d.get('nothrow') or f.name.startswith('~'):
            res.ok(None, fn=f.display())
            continue
        why = may_throw(f)
        if why:
            res.fail(Finding('D-NOEXCEPT', f.display(), 'noexcept', f.where(),
                             '%s is declared non-throwing but %s: the exception never reaches the caller, the process is '
                             'terminated instead' % (f.display(), why[:200])))
        else:
            res.ok(dict(function=f.display(), nothrow=True, throws=False) if len(res.samples) < 6 else None, fn=f.display())
    _fixture_verdict(res, 'noexcept')
    res.require_sites(100, 'functions')
    return res


def rule_no_recursion(m):
    """D-REC: the library's functions do not call themselves, directly or through each other."""
    res = RuleResult('D-REC', 'the call graph of the library is acyclic: no function reaches itself (the path reconstruction and '
                              'the searches keep their work lists on the heap; a recursive formulation uses call-stack depth '
                              'proportional to the length of a path / the size of the graph and overflows the stack on long ones)')
    edges = {}
    byk = {}
    for f in m.fns:
        if not f.tname.startswith(NS):
            continue
        byk[f.key] = f
        for nid, g in m.callees(f):
            if g.tname.startswith(NS):
                edges.setdefault(f.key, set()).add(g.key)
    state = {}
    cyc = []

    def dfs(k, stack):
        state[k] = 1
        for k2 in edges.get(k, ()):
            if state.get(k2) == 1:
                cyc.append(stack[stack.index(k2):] + [k2] if k2 in stack else [k, k2])
            elif k2 not in state:
                dfs(k2, stack + [k2])
        state[k] = 2
    import sys
    sys.setrecursionlimit(10000)
    for k in list(byk):
        if k not in state:
            dfs(k, [k])
    res.sites += len(byk)
    reported = set()
    for c in cyc:
        f = byk.get(c[0])
        if f is None or f.tname in reported:
            continue
        reported.add(f.tname)
        res.fail(Finding('D-REC', f.display(), 'recursive call', f.where(),
                         '%s reaches itself through %s: the depth of the call stack grows with the input (hop distance, number of '
                         'vertices), so a long path or a large graph ends in a stack overflow instead of a result'
                         % (f.display(), ' -> '.join(byk[x].display() if x in byk else x for x in c[1:]) or 'a direct call')))
    for _ in range(len(byk) - len(reported)):
        res.ok(None)
    res.require_sites(100, 'functions')
    return res


def rule_sibling_totals(m):
    """D-SIB: sibling classes keep their running totals in the same type."""
    res = RuleResult('D-SIB', 'the running totals of sibling classes have one type (both weighted classes, both multigraphs): the '
                              'directed and the undirected variant accumulate the same quantity, and a narrower accumulator in one of '
                              'them loses what the other keeps (long double vs double: partial sums beyond 53 bits)')
    types = {}
    for u, r in _records(m, m.std):
        if r['tname'] in (DWG, UWG, DMG, UMG) and not r['dependent']:
            for fl in r['fields']:
                tn = u.decl(fl['d'])['tname'] if 'd' in fl else r['tname'] + '::' + fl['name']
                if m.role_of_field(tn) == 'T':
                    types[r['tname']] = (fl['ctype'], _loc(u, fl['loc']))
    for a, b in ((DWG, UWG), (DMG, UMG)):
        if a in types and b in types:
            res.sites += 1
            if types[a][0] == types[b][0]:
                res.ok(dict(classes=[short(a), short(b)], total_type=types[a][0]))
            else:
                res.fail(Finding('D-SIB', short(b), 'type of the running total', types[b][1],
                                 'the running total of %s is `%s`, that of its sibling %s is `%s`: the same sequence of insertions '
                                 'and removals leaves different totals in the two classes once a partial sum does not fit the '
                                 'narrower type' % (short(b), types[b][0], short(a), types[a][0])))
    res.require_sites(2, 'sibling pairs')
    return res


def rule_defaults(m):
    """D-DEFAULT: sibling agreement of boolean default arguments."""
    res = RuleResult('D-DEFAULT', 'a boolean parameter of the same name has the same default value in every public declaration '
                                  'of the library that gives it one (force = false, throwIfInexistent = true, countSelfLoopsTwice = '
                                  'true are not frozen here: the majority of the sibling declarations is the reference), so that a '
                                  'call that omits the flag means the same thing on every class and overload')
    groups = {}
    seen = set()
    by_loc = {}
    for f in m.fns:
        by_loc.setdefault((f.tname, f.loc[1]), f)
    for u in m.p.units:
        if u.std != m.std:
            continue
        for pf in u.patternfns:
            d = pf.get('defaults') or []
            if not any(x in ('true', 'false') for x in d) or pf.get('access') not in ('public', None, 'none'):
                continue
            k = (pf['tname'], pf['loc'][1], u.file_of(pf['loc']))
            if k in seen:
                continue
            seen.add(k)
            f = by_loc.get((pf['tname'], pf['loc'][1]))
            names = f.pnames if f is not None and len(f.pnames) == len(d) else [None] * len(d)
            for ix, dv in enumerate(d):
                if dv in ('true', 'false') and names[ix]:
                    groups.setdefault(names[ix], []).append((short(pf['tname']), dv, '%s:%d' % (u.file_of(pf['loc']), pf['loc'][1])))
    for name, members in sorted(groups.items()):
        vals = [v for _, v, _ in members]
        for fn, v, loc in members:
            res.sites += 1
        if len(set(vals)) == 1:
            for fn, v, loc in members:
                res.ok(dict(parameter=name, default=v, declarations=len(members)) if len(res.samples) < 6 and fn == members[0][0] else None)
            continue
        maj = max(set(vals), key=vals.count)
        if vals.count(maj) * 2 <= len(vals) or len(members) < 3:
            for fn, v, loc in members:
                res.ok(None)
            res.broken('D-DEFAULT: the declarations of `%s` disagree on its default (%s) and there is no majority to take as the '
                       'reference' % (name, ', '.join('%s=%s' % (fn, v) for fn, v, _ in members)))
            continue
        for fn, v, loc in members:
            if v == maj:
                res.ok(None)
            else:
                res.fail(Finding('D-DEFAULT', fn, 'default of ' + name, loc,
                                 '`%s` defaults to %s in %s but to %s in the other %d declarations that have this parameter: a call '
                                 'that omits it behaves differently here (e.g. force=true inserts a parallel edge for an existing pair; '
                                 'throwIfInexistent=false returns a default label for a missing edge instead of throwing)'
                                 % (name, v, fn, maj, vals.count(maj))))
    res.require_sites(8, 'boolean default arguments')
    return res


def _dead_helper(m, p):
    tn = p['tname']
    if tn.startswith((NS + 'io::', NS + 'algorithms::')) or p.get('record'):
        return False
    if not tn.startswith(NS):
        return False
    if not hasattr(m, '_called_tnames'):
        called = set()
        for f in m.fns:
            for n in f.nodes:
                if 'callee' in n:
                    called.add(f.unit.decl(n['callee'])['tname'])
        m._called_tnames = called
    return tn not in m._called_tnames


def rule_coverage(m):
    """Every function definition under include/ has at least one analysed instantiation."""
    res = RuleResult('COVERAGE', 'every function definition under include/ has an analysed instantiation '
                                 '(a static tool sees only what was parsed)')
    have = set()
    for f in m.p.functions(m.std, dedupe=False):
        n = f.nodes[f.body]
        have.add((f.unit.file_of(n['l']), n['l'][1], n['l'][2]))
    seen = set()
    dropped_entries = {d[2].entry for d in m.p.dropped if d[2] is not None}
    for u in m.p.units:
        if u.std != m.std:
            continue
        for p in u.patternfns:
            if p.get('implicit') or p.get('deleted') or p.get('defaulted') or 'bodyloc' not in p:
                continue
            bl = p['bodyloc']
            k = (u.file_of(bl), bl[1], bl[2])
            if k in seen:
                continue
            seen.add(k)
            res.sites += 1
            if k in have:
                res.ok(None)
            elif _dead_helper(m, p):
                # a namespace-level helper template that nothing in the library calls any more and that is not part of
                # the documented surface: no instantiation exists to analyse and none can affect a property
                res.ok(None)
                res.notes.append('unused helper without instantiation: %s at %s:%d' % (short(p['tname']), k[0], k[1]))
            else:
                res.uncovered = getattr(res, 'uncovered', [])
                res.uncovered.append((short(p['tname']), '%s:%d' % (k[0], k[1])))
    unc = getattr(res, 'uncovered', [])
    res.notes.append('%d definitions, %d uncovered' % (res.sites, len(unc)))
    for name, where in unc:
        res.notes.append('uncovered: %s at %s' % (name, where))
    res.uncovered = unc
    return res
