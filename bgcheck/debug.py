"""python3 -m bgcheck dump <substring of display name> : print CFG and terms of matching functions."""
from . import props
from .terms import Terms, show


def dump(args):
    m = props.model('quick')
    pat = args[0] if args else ''
    for f in m.fns:
        if pat not in f.display() and pat not in f.key:
            continue
        print('=' * 100)
        print(f.key, f.where(), 'const' if f.is_const else '', f.access)
        tt = Terms(f)
        for bid in sorted(f.blocks, reverse=True):
            b = f.blocks[bid]
            print('  B%d -> %s  region=%s' % (bid, b.succs, sorted(f.region_of_block(bid))))
            for e in b.elems:
                n = f.nodes[e]
                if n['k'] in ('ImplicitCastExpr', 'DeclRefExpr', 'MemberExpr', 'CXXThisExpr', 'IntegerLiteral',
                              'MaterializeTemporaryExpr', 'CXXBindTemporaryExpr'):
                    continue
                print('      %4d %-24s %s' % (e, n['k'], show(tt.t(e, resolve_refs=False), f.unit)[:140]))
            if b.term >= 0:
                a = f.branch_atom(bid)
                print('      T: %s on %s' % (f.nodes[b.term]['k'], f.expr_text(a) if a is not None else None))
    return 0
