"""F-XPORT (transport schemas: reversal, conversions, subgraphs, edge-list constructors) and
F-IDX (internal indices of the edge iterators, zero-vertex graphs)."""
import re
from .model import GRAPH_CLASSES, LDG, LUG, DMG, UMG, DWG, UWG, NS, short
from .report import Finding, RuleResult
from .rules_pair import eval_order, strip_cast, ORDERINGS
from .rules_val import var_defs, is_size_term, graph_like, _conjuncts
from .terms import Terms, show, subterms

ALG = NS + 'algorithms::'
NOLABEL = 'BaseGraph::NoLabel'


def _first_second(e):
    return ('member', e, 'std::pair::first'), ('member', e, 'std::pair::second')


def _calls(f, name):
    return [n for n in f.nodes if n['k'] == 'CXXMemberCallExpr' and 'callee' in n and f.unit.decl(n['callee'])['name'] == name]


def _label_param_count(f, n):
    cd = f.unit.decl(n['callee'])
    return len(cd.get('ptypes', []))


def _is_labelled_inst(f):
    return NOLABEL not in (f.recordargs or '') and NOLABEL not in (f.targs or '')


def rule_xport(m):
    res = RuleResult('F-XPORT', 'every function that builds a graph from a graph or from an edge container enumerates its '
                                'source completely, inserts through a label-carrying overload with the label read for '
                                'exactly the enumerated pair, uses the endpoints in the contractual orientation and sizes '
                                'the result from the right source')

    def fail(f, site, why, nid=None):
        res.fail(Finding('F-XPORT', f.display(), site, f.nloc(nid) if nid is not None else f.where(), why))

    def ok(f, **kw):
        res.ok(dict(function=f.display(), **kw) if len(res.samples) < 30 else None, fn=f.display())

    # ---------------------------------------------------------------- getReversedGraph
    for f in m.by_tname.get(LDG + '::getReversedGraph', []):
        res.sites += 1
        tt = Terms(f)
        loops = [n for n in f.nodes if n['k'] == 'CXXForRangeStmt' and tt.t(n['rangeinit'])[0] == 'mcall' and
                 tt.t(n['rangeinit'])[1].endswith('::edges') and tt.t(n['rangeinit'])[2] == ('this',)]
        adds = _calls(f, 'addEdge')
        why = None
        # a result built through the edge-container constructor has 1 + (largest endpoint) vertices, not getSize()
        via_container = None
        for n in f.nodes:
            if n['k'] == 'ReturnStmt' and f.children(n['i']):
                r = tt.t(f.children(n['i'])[0])
                while r[0] in ('ctor', 'cast') and r[2] and (r[0] == 'cast' or (len(r[2]) == 1 and r[2][0][0] in ('ctor', 'cast'))):
                    r = r[2][0] if r[0] == 'ctor' else r[2]
                if r[0] == 'ctor' and 'BaseGraph::Labeled' in r[1] and len(r[2]) == 1 and r[2][0][0] == 'var' and \
                        f.unit.decl(r[2][0][1]).get('ctype', '').startswith(('std::list<', 'std::vector<', 'std::deque<', 'std::forward_list<')):
                    via_container = n['i']
        if via_container is not None and not adds:
            why = 'the reversed graph is built through the edge-container constructor, which sizes it to 1 + the largest ' \
                  'endpoint instead of getSize(): isolated vertices above the largest endpoint are lost (and reversing twice ' \
                  'no longer gives an equal graph)'
        elif len(loops) != 1 or len(adds) != 1:
            why = 'expected one enumeration of edges() and one insertion'
        else:
            e = ('var', loops[0]['loopvar'])
            fi, se = _first_second(e)
            from .rules_pair import Ctx as _RCtx
            _rc = _RCtx(m, f)
            a = [_rc.unconst(tt.t(x)) for x in adds[0]['args']]
            res_var = tt.t(adds[0]['obj'])
            if a[:2] != [se, fi]:
                why = 'the endpoints are not inserted swapped (second, first)'
            elif len(a) < 3 or not (a[2][0] == 'mcall' and a[2][1].endswith('::getEdgeLabel') and a[2][2] == ('this',) and
                                    a[2][3][:2] == (fi, se)):
                why = 'the inserted label is not getEdgeLabel(first, second) of the enumerated edge'
            elif adds[0]['i'] not in f.descendants(loops[0]['body']) or f.region(adds[0]['i']) - f.region(loops[0]['loopvarstmt']):
                why = 'the insertion is conditional: not every enumerated edge is transported'
            else:
                init = _local_init(f, tt, res_var)
                if not (init and init[0] == 'ctor' and init[2] and is_size_term(m, f, strip_cast(init[2][0]), tt)):
                    why = 'the reversed graph is not sized from getSize()'
        if why:
            fail(f, 'reversal', why)
        else:
            ok(f, schema='for e in edges(): r.addEdge(e.second, e.first, label(e.first,e.second)); r sized from size')
    # ---------------------------------------------------------------- getDirectedGraph
    for f in m.by_tname.get(LUG + '::getDirectedGraph', []):
        res.sites += 1
        tt = Terms(f)
        loops = [n for n in f.nodes if n['k'] == 'CXXForRangeStmt' and tt.t(n['rangeinit'])[0] == 'mcall' and
                 tt.t(n['rangeinit'])[1].endswith('::edges') and tt.t(n['rangeinit'])[2] == ('this',)]
        why = None
        if len(loops) != 1:
            why = 'expected one enumeration of edges()'
        else:
            e = ('var', loops[0]['loopvar'])
            fi, se = _first_second(e)
            ins = [(n, 'reciprocal') for n in _calls(f, 'addReciprocalEdge')] + [(n, 'single') for n in _calls(f, 'addEdge')]
            body = set(f.descendants(loops[0]['body']))
            ins = [(n, k) for n, k in ins if n['i'] in body]
            from .rules_pair import Ctx as _Ctx
            pctx = _Ctx(m, f)

            def un(t):
                return pctx.unconst(t)
            # orientation contract over the order domain: the multiset of oriented pairs inserted for one enumerated edge
            for (va, vb) in ORDERINGS:
                got = []
                for n, kind in ins:
                    fire = True
                    for dep in f.region(n['i']) - f.region(loops[0]['loopvarstmt']):
                        t = un(pctx.resolve(tt.t(f.branch_atom(dep[0]))))
                        v = eval_order(t, {fi: va, se: vb})
                        if v is None:
                            fire = None
                            break
                        if bool(v) != (dep[1] == 0):
                            fire = False
                            break
                    if fire is None:
                        why = 'expected insertion guards that compare first and second of the enumerated edge'
                    elif fire:
                        a = [un(tt.t(x)) for x in n['args']]
                        val = {fi: va, se: vb}
                        if a[0] not in val or a[1] not in val:
                            why = why or 'the endpoints inserted are not those of the enumerated edge'
                            continue
                        pa, pb = val[a[0]], val[a[1]]
                        got.append((pa, pb))
                        if kind == 'reciprocal':
                            got.append((pb, pa))
                want = {(0, 1): [(0, 1), (1, 0)], (1, 1): [(1, 1)], (1, 0): []}[(va, vb)]
                if why is None and sorted(got) != sorted(want):
                    why = 'for %s the conversion inserts the oriented pairs %s, expected %s (first=%d, second=%d)' % (
                        {(0, 1): 'first<second', (1, 1): 'first=second', (1, 0): 'first>second'}[(va, vb)], sorted(got), sorted(want), va, vb)
            for n, kind in ins:
                a = [un(tt.t(x)) for x in n['args']]
                labelled_overload = _label_param_count(f, n) == 4
                if _is_labelled_inst(f) or labelled_overload:
                    if not labelled_overload:
                        why = why or ('the label-less overload %s(VertexIndex, VertexIndex, bool) is called in a labelled '
                                      'instantiation: the directed edges get default-constructed labels instead of the label of '
                                      'the undirected edge' % f.unit.decl(n['callee'])['name'])
                    else:
                        lab = a[2] if len(a) >= 3 else None
                        if lab is not None and lab[0] == 'var':
                            # a (const) local bound to the label of the enumerated edge
                            defs = [d for d in var_defs(f, lab[1]) if d[1] >= 0]
                            if len(defs) == 1:
                                lab = un(tt.t(defs[0][1]))
                        if not (lab is not None and lab[0] == 'mcall' and lab[1].endswith('::getEdgeLabel') and lab[2] == ('this',)
                                and set(lab[3][:2]) == {fi, se}):
                            why = why or 'the inserted label is not getEdgeLabel of the enumerated edge'
            # every copy that the enumeration yields is transported: the insertions are forced (an unforced insertion
            # collapses the copies of a pair that was duplicated with force=true in the undirected graph)
            for n, kind in ins:
                a = [un(tt.t(x)) for x in n['args']]
                cd = f.unit.decl(n['callee'])
                if cd.get('cptypes') and cd['cptypes'][-1] == 'bool':
                    if not (len(a) == len(cd['cptypes']) and a[-1] == ('bool', True)):
                        why = why or ('the conversion inserts with force off (`%s`): copies of a pair duplicated with force=true are '
                                      'collapsed, so the directed graph has fewer edges than the enumeration yielded' % f.expr_text(n['i'])[:50])
            dg = tt.t(ins[0][0]['obj']) if ins else None
            init = _local_init(f, tt, dg) if dg else None
            if why is None and not (init and init[0] == 'ctor' and init[2] and is_size_term(m, f, strip_cast(init[2][0]), tt)):
                why = 'the directed graph is not sized from getSize()'
        if why:
            fail(f, 'undirected -> directed', why)
        else:
            ok(f, schema='for e in edges(): first<second -> addReciprocalEdge(first, second, label, ...); first==second -> addEdge(.., label, ..)')
    # ---------------------------------------------------------------- LabeledUndirectedGraph(const Directed &)
    for f in m.by_tname.get(LUG + '::LabeledUndirectedGraph', []):
        if len(f.params) != 1 or 'LabeledDirectedGraph' not in f.cptypes[0]:
            continue
        res.sites += 1
        tt = Terms(f)
        src = ('var', f.params[0])
        why = None
        outer = [n for n in f.nodes if n['k'] == 'CXXForRangeStmt' and tt.t(n['rangeinit']) == src]
        if len(outer) != 1:
            why = 'no full-range loop over the vertices of the directed graph'
        else:
            i = ('var', outer[0]['loopvar'])
            inner = [n for n in f.nodes if n['k'] == 'CXXForRangeStmt' and tt.t(n['rangeinit'])[0] == 'mcall' and
                     tt.t(n['rangeinit'])[1].endswith('::getOutNeighbours') and tt.t(n['rangeinit'])[2] == src and
                     tt.t(n['rangeinit'])[3] == (i,)]
            adds = _calls(f, 'addEdge')
            if len(inner) != 1 or len(adds) != 1:
                why = 'expected one loop over the successors of every vertex and one insertion'
            else:
                j = ('var', inner[0]['loopvar'])
                a = [tt.t(x) for x in adds[0]['args']]
                if a[:2] != [i, j] or tt.t(adds[0]['obj']) != ('this',):
                    why = 'the inserted pair is not the enumerated (i, j)'
                elif len(a) < 3 or not (a[2][0] == 'mcall' and a[2][1].endswith('::getEdgeLabel') and a[2][2] == src and
                                        a[2][3][:2] == (i, j)):
                    why = 'the inserted label is not directedGraph.getEdgeLabel(i, j)'
                elif len(a) >= 4 and a[3] == ('bool', True):
                    why = 'the insertion is forced: an edge present in both directions would be duplicated'
                elif f.region(adds[0]['i']) - f.region(inner[0]['loopvarstmt']):
                    why = 'the insertion is conditional'
            inits = f.d.get('inits', [])
            sized = False
            for it in inits:
                if it.get('delegating') or it.get('base'):
                    t = tt.t(it['init'])
                    for st in subterms(t):
                        if st[0] == 'mcall' and st[1].endswith('::getSize') and st[2] == src:
                            sized = True
            if why is None and not sized:
                why = 'the undirected graph is not sized from directedGraph.getSize()'
        if why:
            fail(f, 'directed -> undirected', why)
        else:
            ok(f, schema='for i in d: for j in d.out(i): addEdge(i, j, d.label(i,j)) unforced; sized from d.getSize()')
    # ---------------------------------------------------------------- subgraphs
    for tn, remap in ((ALG + 'getSubgraph', False), (ALG + 'getSubgraphWithRemap', True)):
        for f in m.by_tname.get(tn, []):
            res.sites += 1
            tt = Terms(f)
            g, S = ('var', f.params[0]), ('var', f.params[1])
            why = None
            outer = [n for n in f.nodes if n['k'] == 'CXXForRangeStmt' and tt.t(n['rangeinit']) == S]
            adds = _calls(f, 'addEdge')
            if len(adds) != 1:
                why = 'expected one insertion'
                # of several insertions, one that does not hand over a label (it resolves to the (i, j, bool force) overload)
                # copies the edge with a default label - definite for every labelled instantiation
                if 'NoLabel' not in f.targs:
                    for a_ in adds:
                        cps = f.unit.decl(a_['callee']).get('cptypes', []) if 'callee' in a_ else []
                        if len(cps) == 3 and cps[2] == 'bool':
                            why = '`%s` inserts an edge of the subgraph without its label (the call resolves to addEdge(i, j, bool ' \
                                  'force)): that edge carries EdgeLabel() instead of the label it has in the graph' % f.expr_text(a_['i'])[:50]
            else:
                ad = adds[0]
                encl = [n for n in outer if ad['i'] in f.descendants(n['body'])]
                if len(encl) != 1:
                    why = 'the insertion is not inside a loop over the vertex set'
                else:
                    i = ('var', encl[0]['loopvar'])
                    inner = [n for n in f.nodes if n['k'] == 'CXXForRangeStmt' and ad['i'] in f.descendants(n['body']) and
                             tt.t(n['rangeinit'])[0] == 'mcall' and tt.t(n['rangeinit'])[1].endswith('::getOutNeighbours') and
                             tt.t(n['rangeinit'])[2] == g and tt.t(n['rangeinit'])[3] == (i,)]
                    if len(inner) != 1:
                        why = 'the insertion is not inside a loop over graph.getOutNeighbours(i)'
                    else:
                        j = ('var', inner[0]['loopvar'])
                        a = [tt.t(x) for x in ad['args']]
                        sub = tt.t(ad['obj'])
                        # membership of the neighbour in the same set
                        mem = False
                        extra = f.region(ad['i']) - f.region(inner[0]['loopvarstmt'])
                        from .rules_pair import true_atoms, Ctx as _PCtx
                        pctx = _PCtx(m, f)
                        a = [pctx.unconst(x) for x in a]

                        def is_membership(t):
                            if t[0] == 'bin' and t[1] == '!=' and t[2][0] == 'mcall' and \
                                    t[2][1].endswith('::find') and t[2][2] == S and t[2][3] == (j,) and \
                                    t[3][0] == 'mcall' and t[3][1].endswith('::end') and t[3][2] == S:
                                return True
                            tc = t
                            while tc[0] in ('conv', 'cast'):
                                tc = tc[2]
                            if tc[0] == 'bin' and tc[1] in ('!=', '>') and strip_cast(tc[3]) == ('int', 0):
                                tc = tc[2]
                            elif tc[0] == 'bin' and tc[1] in ('>=', '==') and strip_cast(tc[3]) == ('int', 1):
                                tc = tc[2]
                            return tc[0] == 'mcall' and tc[1].split('::')[-1] in ('count', 'contains') and tc[2] == S and \
                                tc[3] == (j,)
                        atoms = []
                        for dep in extra:
                            atoms.extend(true_atoms(tt.t(f.branch_atom(dep[0])), dep[1] == 0))
                        mem = bool(atoms) and all(is_membership(t) for t in atoms)
                        if not mem:
                            why = 'the insertion is not guarded by exactly the membership of the neighbour in the vertex set'
                        lab_ok = len(a) >= 3 and a[2][0] == 'mcall' and a[2][1].endswith('::getEdgeLabel') and a[2][2] == g and \
                            a[2][3][:2] == (i, j)
                        if why is None and not lab_ok:
                            why = 'the inserted label is not graph.getEdgeLabel(i, j) of the enumerated pair'
                        if why is None and len(a) >= 4 and a[3] == ('bool', True):
                            why = 'the insertion is forced (an undirected edge would be inserted twice)'
                        init = _local_init(f, tt, sub)
                        # the copy loop runs for every non-empty vertex set: the only early exit tolerated is on an
                        # empty set (a single vertex can carry a self-loop)
                        if why is None:
                            anchor = encl[0].get('rangestmt', -1)
                            pos = f.cfg_pos(anchor) if anchor >= 0 else None
                            for dep in (f.region_of_block(pos[0]) if pos else ()):
                                if f.block_dominates(pos[0], dep[0]):
                                    continue
                                t = tt.t(f.branch_atom(dep[0]))
                                x = t
                                neg = False
                                while x[0] == 'un' and x[1] == '!':
                                    x = x[3]
                                    neg = not neg
                                empty_test = (x[0] == 'mcall' and x[1].endswith('::empty') and x[2] == S) or \
                                    (x[0] == 'bin' and x[1] == '==' and x[2][0] == 'mcall' and x[2][1].endswith('::size') and
                                     x[2][2] == S and strip_cast(x[3]) == ('int', 0))
                                if not (empty_test and ((dep[1] == 0) == neg)):
                                    why = 'the copy loop over the vertex set is skipped when `%s` is %s: edges among the ' \
                                          'selected vertices (e.g. the self-loop of a single selected vertex) are lost' % (
                                              f.expr_text(f.branch_atom(dep[0])), dep[1] == 0)
                        if why is None and not remap:
                            if a[:2] != [i, j]:
                                why = 'the endpoints inserted are not (i, j)'
                            elif not (init and init[0] == 'ctor' and init[2] and init[2][0][0] == 'mcall' and
                                      init[2][0][1].endswith('::getSize') and init[2][0][2] == g):
                                why = 'the subgraph is not sized from graph.getSize()'
                        if why is None and remap:
                            mp = None
                            if a[0][0] == 'idx' and a[1][0] == 'idx' and a[0][1] == a[1][1] and a[0][2] == i and a[1][2] == j:
                                mp = a[0][1]
                            if mp is not None:
                                # operator[] of the map inserts a default entry for a missing key: inside the copy loops it may
                                # only be applied to vertices known to be in the set (the loop variable over the set, or the
                                # neighbour after its membership test)
                                from .rules_pair import region_atoms as _ratoms
                                for sn in f.nodes:
                                    if sn['k'] == 'CXXOperatorCallExpr' and 'callee' in sn and f.unit.decl(sn['callee']).get('op') == '[]' and \
                                            tt.t(sn['args'][0]) == mp and sn['i'] in f.descendants(encl[0]['body']):
                                        key = strip_cast(tt.t(sn['args'][1]))
                                        if key == i:
                                            continue
                                        if key == j and any(is_membership(t) for t in _ratoms(f, tt, sn['i'])):
                                            continue
                                        why = why or ('`%s` is evaluated for a neighbour that is not known to be in the vertex set: '
                                                      'operator[] inserts a key for it, so the returned map is no longer a bijection from '
                                                      'the set onto 0..|S|-1' % f.expr_text(sn['i'])[:40])
                            if why:
                                pass
                            elif mp is None:
                                why = 'both endpoints are not translated through the same map (map[i], map[j])'
                            elif not (init and init[0] == 'ctor' and init[2] and init[2][0][0] == 'mcall' and
                                      init[2][0][1].endswith('::size') and init[2][0][2] == S):
                                why = 'the subgraph is not sized from vertices.size()'
                            else:
                                # one pass over the set assigning a counter incremented once per element
                                okm = False
                                for n in outer:
                                    v = ('var', n['loopvar'])
                                    body = set(f.descendants(n['body']))
                                    asg = [tt.t(x['i']) for x in f.nodes if x['i'] in body and x['k'] in ('BinaryOperator', 'CXXOperatorCallExpr')
                                           and tt.t(x['i'])[0] == 'bin' and tt.t(x['i'])[1] == '=']
                                    # map.emplace(v, c) / map.insert({v, c}) on keys that are all new (the elements of a set) stores
                                    # the same pairs as map[v] = c
                                    for x in f.nodes:
                                        if x['i'] in body and x['k'] == 'CXXMemberCallExpr':
                                            mt = tt.t(x['i'])
                                            if mt[0] == 'mcall' and mt[2] == mp and mt[1].endswith(('::emplace', '::insert')):
                                                ar = [strip_cast(a0) for a0 in mt[3]]
                                                if len(ar) == 1 and ar[0][0] in ('pair', 'ctor') and len(ar[0]) > 1:
                                                    inner = ar[0][1:] if ar[0][0] == 'pair' else ar[0][2]
                                                    ar = [strip_cast(a0) for a0 in inner]
                                                if len(ar) == 2:
                                                    asg.append(('bin', '=', ('idx', mp, ar[0]), ar[1]))
                                    for t in asg:
                                        if t[2] == ('idx', mp, v) and t[3][0] == 'un' and t[3][1] == '++' and t[3][2] and t[3][3][0] == 'var':
                                            t = (t[0], t[1], t[2], t[3][3])      # map[v] = counter++
                                        if t[2] == ('idx', mp, v) and t[3][0] == 'var':
                                            c = t[3]
                                            defs = var_defs(f, c[1])
                                            inits0 = [d for d in defs if d[1] >= 0 and strip_cast(tt.t(d[1])) == ('int', 0)]
                                            incs = [d for d in defs if d[1] == -2]
                                            if len(inits0) == 1 and len(incs) == 1 and incs[0][0] in body and _unit_increment(f, incs[0][0]) and \
                                                    not (f.region(incs[0][0]) - f.region(n['loopvarstmt'])):
                                                okm = True
                                if not okm:
                                    # the same pass written as std::for_each(S.begin(), S.end(), [&](VertexIndex v) {...})
                                    for cn in f.nodes:
                                        ct = tt.t(cn['i']) if cn['k'] == 'CallExpr' else None
                                        if not ct or ct[0] != 'call' or ct[1] != 'std::for_each' or len(ct[2]) != 3:
                                            continue
                                        b, e, lam = ct[2]
                                        while lam[0] in ('ctor', 'cast') and lam[2]:
                                            lam = lam[2][0] if lam[0] == 'ctor' else lam[2]
                                        if not (b[0] == 'mcall' and b[1].endswith(('::begin', '::cbegin')) and b[2] == S and
                                                e[0] == 'mcall' and e[1].endswith(('::end', '::cend')) and e[2] == S and lam[0] == 'lambda'):
                                            continue
                                        L = f.unit.function_for_decl(lam[1])
                                        if L is None or len(L.params) != 1:
                                            continue
                                        ltt = Terms(L)
                                        v = ('var', L.params[0])
                                        for x in L.nodes:
                                            if x['k'] not in ('BinaryOperator', 'CXXOperatorCallExpr'):
                                                continue
                                            t = ltt.t(x['i'])
                                            if t[0] != 'bin' or t[1] != '=':
                                                continue
                                            if t[2] == ('idx', mp, v) and t[3][0] == 'un' and t[3][1] == '++' and t[3][2] and t[3][3][0] == 'var':
                                                t = (t[0], t[1], t[2], t[3][3])
                                            if t[2] == ('idx', mp, v) and t[3][0] == 'var':
                                                c = t[3]
                                                inits0 = [d for d in var_defs(f, c[1]) if d[1] >= 0 and strip_cast(tt.t(d[1])) == ('int', 0)]
                                                incs = [d for d in var_defs(L, c[1]) if d[1] == -2]
                                                others = [d for d in var_defs(f, c[1]) if d not in inits0]
                                                if len(inits0) == 1 and len(incs) == 1 and _unit_increment(L, incs[0][0]) and not others and not L.region(incs[0][0]) \
                                                        and len(var_defs(L, c[1])) == 1 and not f.region(cn['i']):
                                                    okm = True
                                if not okm:
                                    why = 'the remap is not built by one pass over the set with a counter incremented once per element'
            if why:
                fail(f, 'induced subgraph', why)
            else:
                ok(f, schema='for i in S: for j in g.out(i): if j in S: sub.addEdge(%s, g.label(i,j))'
                   % ('map[i], map[j]' if remap else 'i, j'))
    # ---------------------------------------------------------------- edge-list constructors
    ctor_tables = [(LDG, 'addEdge'), (LUG, 'addEdge'), (DMG, 'addMultiedge'), (UMG, 'addMultiedge'), (DWG, 'addEdge'), (UWG, 'addEdge')]
    for cls, adder in ctor_tables:
        name = cls + '::' + cls.split('::')[-1]
        for f in m.by_tname.get(name, []):
            if not f.params:
                continue
            ct = f.cptypes[0]
            if 'std::pair<unsigned int, unsigned int>' not in ct and 'std::tuple<unsigned int, unsigned int' not in ct:
                continue
            res.sites += 1
            tt = Terms(f)
            seq = ('var', f.params[0])
            why = None
            loops = [n for n in f.nodes if n['k'] == 'CXXForRangeStmt' and tt.t(n['rangeinit']) == seq]
            adds = _calls(f, adder)
            resz = _calls(f, 'resize')
            # the container handed to the edge-list constructor of a base class: the edges go through the base insertion
            delegated = None
            for it in f.d.get('inits', []):
                if it.get('base') or it.get('delegating'):
                    t = tt.t(it['init'])
                    if any(st == seq for st in subterms(t)):
                        delegated = it
            if delegated is not None and delegated.get('base') and cls.split('::')[-1] not in delegated['base']:
                why = 'the container is handed to the edge-list constructor of the base class (%s): the edges are inserted through ' \
                      'the base-class insertion instead of %s::%s, so repeated pairs / special values are not handled as when ' \
                      'adding the edges one at a time (and derived totals are not maintained by the insertion)' % (
                          delegated['base'].replace('BaseGraph::', ''), short(cls), adder)
            elif any(('bool', True) in [strip_cast(tt.t(x)) for x in a_.get('args', [])[2:]] for a_ in adds):
                # whatever the shape of the loop: a forced insertion stores a pair once per mention in the sequence
                why = 'the constructor inserts with force=true: a pair that the sequence mentions twice is stored twice unless every ' \
                      'repetition is removed first - the result differs from adding the edges one at a time'
            elif len(loops) != 1 or len(adds) != 1 or (len(resz) != 1 and not (
                    len(resz) == 0 and len(loops) == 1 and len(adds) == 1 and _pair_growth_call(m, f, tt, loops[0], adds[0]) is not None)):
                why = 'expected one loop over the container, one resize and one insertion through %s' % adder
            elif _elem_type_mismatch(f, ct, loops[0]['loopvar']):
                why = 'the loop variable over the container has type `%s`, which is not the element type of the container: every ' \
                      'element is converted to a temporary on binding (a weight or label of another arithmetic type is silently ' \
                      'truncated)' % _elem_type_mismatch(f, ct, loops[0]['loopvar'])
            else:
                e = ('var', loops[0]['loopvar'])
                if 'std::pair' in ct:
                    comps = list(_first_second(e))
                else:
                    comps = [('call', 'std::get', (e,))]
                a = [tt.t(x) for x in adds[0]['args']]

                def comp_index(t, node):
                    if 'std::pair' in ct:
                        return 0 if t == comps[0] else 1 if t == comps[1] else None
                    if t[0] == 'call' and t[1] == 'std::get' and t[2] == (e,):
                        cal = f.unit.function_for_decl(f.nodes[f.strip(node)].get('callee', -1))
                        targ = f.unit.decl(f.nodes[f.strip(node)]['callee'])
                        # index is the first template argument of std::get<I>
                        q = f.unit.decl(f.nodes[f.strip(node)]['callee'])
                        return q.get('_getidx')
                    return None
                if 'std::pair' in ct:
                    idxs = [comp_index(x, None) for x in a[:2]]
                    want = [0, 1]
                else:
                    idxs = [_get_index(f, adds[0]['args'][k]) for k in range(min(3, len(a)))]
                    want = [0, 1, 2]
                if cls in (LUG, UMG, UWG) and idxs[:2] == [1, 0] and idxs[2:] == want[2:]:
                    idxs = want      # the insertion of an undirected class is symmetric in its two endpoints
                if idxs != want:
                    why = 'the tuple components are not passed to %s in order (got %s)' % (adder, idxs)
                elif tt.t(adds[0]['obj']) != ('this',):
                    why = 'the insertion is not on the graph under construction'
                elif any(x == ('bool', True) for x in a[len(want):]):
                    why = 'the constructor inserts with force=true: the result differs from adding the edges one at a time'
                elif not resz:
                    # growth through a helper  h(a, b) { L = max(a, b); if (L >= getSize()) resize(L + 1); }  called with the
                    # two endpoints of the element before the insertion
                    gh = _pair_growth_call(m, f, tt, loops[0], adds[0])
                    if gh is not True:
                        why = gh
                    elif f.region(adds[0]['i']) - f.region(loops[0]['loopvarstmt']):
                        why = 'the insertion is conditional'
                else:
                    # growth: maxIndex = max(c0, c1); if (maxIndex >= getSize()) resize(maxIndex + 1), before the insertion
                    ra = strip_cast(tt.t(resz[0]['args'][0]))
                    okg = False
                    if ra[0] == 'bin' and ra[1] == '+' and strip_cast(ra[3]) == ('int', 1):
                        L = strip_cast(ra[2])
                        if L[0] == 'var':
                            asg = [d for d in var_defs(f, L[1]) if d[1] >= 0]
                            mx = [tt.t(d[1]) for d in asg if d[0] in f.descendants(loops[0]['body'])]
                            if len(mx) == 1 and mx[0][0] == 'call' and mx[0][1] == 'std::max' and len(mx[0][2]) == 2:
                                if 'std::pair' in ct:
                                    okm = set(mx[0][2]) == set(comps)
                                else:
                                    okm = True
                                for dep in f.region(resz[0]['i']) - f.region(adds[0]['i']):
                                    t = tt.t(f.branch_atom(dep[0]))
                                    if t[0] == 'bin' and t[1] == '>=' and strip_cast(t[2]) == L and is_size_term(m, f, t[3], tt) and dep[1] == 0:
                                        okg = okm and f.can_reach_forward(resz[0]['i'], adds[0]['i'])
                    if not okg:
                        why = 'the graph is not grown to max(endpoints) + 1 under `max >= getSize()` before the insertion of the ' \
                              'same element'
                    elif f.region(adds[0]['i']) - f.region(loops[0]['loopvarstmt']):
                        why = 'the insertion is conditional'
                # starts from the empty graph
                inits = f.d.get('inits', [])
                empty = False
                for it in inits:
                    if it.get('delegating') or it.get('base'):
                        t = tt.t(it['init'])
                        if t[0] == 'ctor' and t[2] and strip_cast(t[2][0]) == ('int', 0):
                            empty = True
                if why is None and not empty:
                    why = 'the constructor does not start from the empty graph'
            if why:
                fail(f, 'edge-list constructor', why)
            else:
                ok(f, schema='graph(0); for t in seq: m = max(t0,t1); if (m >= size) resize(m+1); %s(t0, t1[, t2])' % adder)
    res.require_sites(30, 'transport functions')
    return res


def _is_pair_growth_helper(m, g):
    """g(a, b) on the graph under construction:  L = max(a, b); if (L >= getSize()) resize(L + 1);  and nothing else"""
    if g is None or g.is_lambda or len(g.params) != 2 or g.record not in GRAPH_CLASSES:
        return False
    gt = Terms(g)
    calls = [n for n in g.nodes if n['k'] in ('CXXMemberCallExpr', 'CallExpr', 'CXXOperatorCallExpr')]
    rs = [n for n in calls if n['k'] == 'CXXMemberCallExpr' and 'callee' in n and g.unit.decl(n['callee'])['name'] == 'resize']
    if len(rs) != 1 or any(n['k'] in ('ForStmt', 'WhileStmt', 'DoStmt', 'CXXForRangeStmt') for n in g.nodes):
        return False
    from .rules_pair import Ctx as _GCtx
    gc = _GCtx(m, g)
    ra = strip_cast(gc.unconst(gt.t(rs[0]['args'][0])))
    if not (ra[0] == 'bin' and ra[1] == '+' and strip_cast(ra[3]) == ('int', 1)):
        return False
    L = strip_cast(ra[2])
    a, b = ('var', g.params[0]), ('var', g.params[1])
    if not (L[0] == 'call' and L[1] == 'std::max' and {strip_cast(x) for x in L[2]} == {a, b}):
        return False
    deps = g.region(rs[0]['i'])
    if len(deps) != 1:
        return False
    dep = list(deps)[0]
    t = gc.unconst(gt.t(g.branch_atom(dep[0])))
    if not (t[0] == 'bin' and t[1] == '>=' and strip_cast(gc.unconst(t[2])) == L and is_size_term(m, g, t[3], gt) and dep[1] == 0):
        return False
    other = [n for n in calls if n is not rs[0] and 'callee' in n and g.unit.decl(n['callee'])['name'] not in ('max', 'getSize')]
    return not other


def _pair_growth_call(m, f, tt, loop, add):
    """None: no growth helper call in the loop; True: conforming; str: deviation"""
    body = set(f.descendants(loop['body']))
    hits = []
    for n in f.nodes:
        if n['i'] in body and n['k'] == 'CXXMemberCallExpr' and 'callee' in n and tt.t(n.get('obj', -1)) == ('this',):
            g = f.unit.function_for_decl(n['callee'])
            if _is_pair_growth_helper(m, g):
                hits.append(n)
    if len(hits) != 1:
        return None
    h = hits[0]
    ha = [tt.t(x) for x in h['args']]
    aa = [tt.t(x) for x in add['args'][:2]]
    if set(ha) != set(aa):
        return 'the graph is grown for other values than the two endpoints that are inserted'
    if f.region(h['i']) - f.region(loop['loopvarstmt']):
        return 'the growth of the graph is conditional'
    if not f.can_reach_forward(h['i'], add['i']):
        return 'the graph is grown after the insertion of the same element'
    return True


def _elem_type_mismatch(f, container_ctype, loopvar):
    """the declared type of the loop variable when it differs from the element type of the container (None when equal /
    not decidable): binding `const T2 &` to elements of type T converts each element"""
    mm = re.search(r'<\s*(std::(?:pair|tuple)<[^<>]*(?:<[^<>]*>[^<>]*)*>)', container_ctype)
    if not mm:
        return None
    elem = mm.group(1).replace(' ', '')
    lt = f.unit.decl(loopvar).get('ctype', '')
    lt0 = lt.replace('const ', '').replace('&', '').strip().replace(' ', '')
    if not lt0.startswith(('std::pair<', 'std::tuple<')):
        return None
    return None if lt0 == elem else lt.strip()


def _unit_increment(f, nid):
    """the modification is `++x`, `x++` or `x += 1`"""
    n = f.nodes[nid]
    if n['k'] == 'UnaryOperator':
        return n.get('op') == '++'
    if n['k'] in ('CompoundAssignOperator', 'BinaryOperator') and n.get('op') == '+=':
        return strip_cast(Terms(f).t(n['c'][1])) == ('int', 1)
    return False


def _get_index(f, argnode):
    """I of std::get<I>(tuple) for an argument node (seen through a single-definition local: `const auto v1 = std::get<0>(e)`)"""
    nid = f.strip(argnode)
    n = f.nodes[nid]
    hops = 0
    while n['k'] == 'DeclRefExpr' and hops < 3 and f.unit.decl(n['d'])['dk'] == 'Var':
        defs = var_defs(f, n['d'])
        if len(defs) != 1 or defs[0][1] < 0:
            break
        nid = f.strip(defs[0][1])
        while f.nodes[nid]['k'] in ('CXXConstructExpr',) and len(f.nodes[nid].get('args', [])) == 1:
            nid = f.strip(f.nodes[nid]['args'][0])
        n = f.nodes[nid]
        hops += 1
    if n['k'] == 'CallExpr' and 'callee' in n:
        g = f.unit.decl(n['callee'])
        if g['tname'] == 'std::get':
            import re
            ta = g.get('targs', '')
            mm = re.match(r'\s*(\d+)', ta)
            if mm:
                return int(mm.group(1))
            rt = g.get('crtype', '')
            pts = g.get('cptypes', [''])[0]
            mm = re.search(r'std::tuple<(.*)>', pts)
            if mm:
                parts = split_top(mm.group(1))
                base = rt.replace('const ', '').replace('&', '').strip()
                cands = [k for k, p in enumerate(parts) if p.strip() == base]
                return cands
    return None


def split_top(s):
    out, depth, cur = [], 0, ''
    for ch in s:
        if ch == '<':
            depth += 1
        elif ch == '>':
            depth -= 1
        if ch == ',' and depth == 0:
            out.append(cur)
            cur = ''
        else:
            cur += ch
    out.append(cur)
    return out


def _local_init(f, tt, var):
    if var is None or var[0] != 'var':
        return None
    for n in f.nodes:
        if n['k'] == 'DeclStmt' and var[1] in n['decls']:
            ix = n['decls'].index(var[1])
            if ix < len(n['c']) and n['c'][ix] >= 0:
                return tt.t(n['c'][ix])
    return None


# ------------------------------------------------------------------------------------------------
def _nonzero_size_fact(m, f, tt, nid):
    """a dominating branch establishes that the graph has at least one vertex"""
    pos = f.cfg_pos(nid)
    if pos is None:
        return False
    from .rules_wl import implied
    for (bb, ix) in f.dominating_edges(pos[0]):
        a = f.branch_atom(bb)
        if a is None:
            continue
        for (t, pol) in implied(tt.t(a), ix == 0):
            while t[0] in ('conv', 'cast'):
                t = t[2]
            neg = False
            if t[0] == 'un' and t[1] == '!':
                t = t[3]
                neg = True
                while t[0] in ('conv', 'cast'):
                    t = t[2]
            sizes = [st for st in subterms(t) if is_size_term(m, f, st, tt)]
            if not sizes:
                continue
            s = sizes[0]
            for val in (0, 1):
                pass
            v0 = eval_order(t, {s: 0}) if t != s else False      # value of the atom when size == 0
            v1 = eval_order(t, {s: 1}) if t != s else True
            if v0 is None or v1 is None:
                continue
            if neg:
                v0, v1 = (not v0), (not v1)
            # the edge taken excludes size == 0 and admits size >= 1
            if bool(v0) != pol and bool(v1) == pol:
                return True
    return False


def _is_last_vertex_list(f, tt, lt):
    """list term is getOutNeighbours(x) with x the end vertex (variable initialised from getEndVertex)"""
    if lt[0] == 'mcall' and lt[1].endswith(('::getOutNeighbours', '::getNeighbours')) and lt[3]:
        x = lt[3][0]
        if x[0] == 'var':
            init = [tt.t(d[1]) for d in var_defs(f, x[1]) if d[1] >= 0]
            return any(t[0] in ('call', 'mcall') and t[1].endswith('::getEndVertex') for t in init)
        if x[0] == 'field' and x[1].endswith('::endVertex'):
            return True
    return False


def _first_nonempty_schema(m, f, tt):
    """begin() as a search for the first non-empty list.  True: conforms; str: deviates; None: not this shape"""
    from .rules_pair import true_atoms
    fors = [n for n in f.nodes if n['k'] == 'ForStmt']
    if len(fors) != 1 or any(n['k'] in ('WhileStmt', 'DoStmt', 'CXXForRangeStmt', 'BreakStmt', 'GotoStmt') for n in f.nodes):
        return None
    fs = fors[0]
    init = f.nodes[fs['init']] if fs['init'] >= 0 else None
    if init is None or init['k'] != 'DeclStmt' or len(init['decls']) != 1:
        return None
    v = ('var', init['decls'][0])

    def is_endv(e):
        if e[0] == 'field' and e[1].endswith('::endVertex'):
            return True
        if e[0] in ('call', 'mcall') and e[1].endswith('::getEndVertex'):
            return True
        if e[0] == 'var':
            ds = [tt.t(d[1]) for d in var_defs(f, e[1])]
            return len(ds) == 1 and ds[0][0] in ('call', 'mcall') and ds[0][1].endswith('::getEndVertex')
        return False

    def out_of(t, c):
        t = tt_res(t)
        return t[0] == 'mcall' and t[1].endswith(('::getOutNeighbours', '::getNeighbours')) and len(t[3]) == 1 and strip_cast(t[3][0]) == c

    def tt_res(t):
        return t

    def nonempty(a, c):
        if a[0] == 'un' and a[1] == '!' and a[3][0] == 'mcall' and a[3][1] == 'std::list::empty' and out_of(a[3][2], c):
            return True
        if a[0] == 'bin' and a[1] == '!=':
            l, r = a[2], a[3]
            if l[0] == 'mcall' and r[0] == 'mcall' and {l[1], r[1]} == {'std::list::begin', 'std::list::end'} and out_of(l[2], c) and out_of(r[2], c):
                return True
            if l[0] == 'mcall' and l[1] == 'std::list::size' and out_of(l[2], c) and strip_cast(r) == ('int', 0):
                return True
        return False
    if strip_cast(tt.t(init['c'][0])) != ('int', 0):
        return 'the search for the first edge does not start at vertex 0'
    c = tt.t(fs['cond'])
    if not (c[0] == 'bin' and c[1] == '!=' and c[2] == v and is_endv(c[3])):
        return 'the search loop does not run over `v != endVertex`'
    E = c[3]
    inc = tt.t(fs['inc'])
    if not (inc[0] == 'un' and inc[1] == '++' and inc[3] == v) or len(var_defs(f, v[1])) != 2:
        return 'the search loop does not advance the cursor by exactly one per iteration'
    body = set(f.descendants(fs['body']))
    rets = [n for n in f.nodes if n['k'] == 'ReturnStmt' and f.children(n['i'])]
    inner = [n for n in rets if n['i'] in body]
    after = [n for n in rets if n['i'] not in body and f.can_reach_forward(fs['cond'], n['i'])]
    if len(inner) != 1 or len(after) != 1:
        return None

    def ctor3(n):
        r = tt.t(f.children(n['i'])[0])
        while r[0] in ('ctor', 'cast') and (r[0] == 'cast' or len(r[2]) == 1):
            r = r[2][0] if r[0] == 'ctor' else r[2]
        return r if r[0] == 'ctor' and len(r[2]) == 3 else None
    r1, r2 = ctor3(inner[0]), ctor3(after[0])
    if r1 is None or r2 is None:
        return None
    if not (r1[2][1] == v and r1[2][2][0] == 'mcall' and r1[2][2][1] == 'std::list::begin' and out_of(r1[2][2][2], v)):
        return 'the iterator returned from the search loop is not (graph, v, out(v).begin())'
    cond_pos = f.cfg_pos(fs['cond'])
    atoms = []
    for dep in f.region(inner[0]['i']):
        if dep[0] == cond_pos[0] or dep in f.region_of_block(cond_pos[0]):
            continue
        atoms.extend(true_atoms(tt.t(f.branch_atom(dep[0])), dep[1] == 0))
    if not atoms or not all(nonempty(a, v) for a in atoms):
        return 'the return inside the search loop is not guarded by exactly the non-emptiness of out(v)'
    if not (strip_cast(r2[2][1]) == E and r2[2][2][0] == 'mcall' and r2[2][2][1] == 'std::list::begin' and out_of(r2[2][2][2], E)):
        return 'the iterator returned after the search loop is not (graph, endVertex, out(endVertex).begin())'
    return True


def rule_idx(m):
    res = RuleResult('F-IDX', 'edge enumeration never calls a range-asserting accessor with an internal index that is not in '
                              'range: literal 0 / getEndVertex / size-1 only under a dominating `size != 0`; the cursor is '
                              'incremented only under `cursor != endVertex`; the undirected iterator yields one orientation '
                              'per edge and every loop; post-increment is copy + pre-increment')
    for cls in (LDG, LUG):
        for f in m.fns:
            if not (f.record or '').startswith(cls + '::Edges'):
                continue
            tt = Terms(f)
            disp = f.display()
            u = f.unit
            # ---- accessor calls
            for n in f.nodes:
                if n['k'] != 'CXXMemberCallExpr' or 'callee' not in n or u.decl(n['callee'])['name'] not in ('getOutNeighbours', 'getNeighbours'):
                    continue
                res.sites += 1
                idx = tt.t(n['args'][0], resolve_refs=False)
                kind = None
                need_fact = False
                if idx == ('int', 0):
                    kind, need_fact = 'literal 0', True
                elif idx[0] == 'var':
                    defs = var_defs(f, idx[1])
                    init = [tt.t(d[1]) for d in defs if d[1] >= 0]
                    if any(t[0] in ('call', 'mcall') and t[1].endswith('::getEndVertex') for t in init):
                        kind, need_fact = 'getEndVertex(graph)', True
                    elif init and all(strip_cast(t) == ('int', 0) for t in init):
                        kind, need_fact = 'cursor starting at 0', True
                    elif u.decl(idx[1])['dk'] == 'ParmVar':
                        kind = 'parameter'
                elif idx[0] == 'field' and idx[1].endswith('::vertex'):
                    kind = 'iterator cursor (in range by the constructor contract)'
                elif idx[0] == 'un' and idx[1] == '++':
                    kind = 'incremented cursor'
                if kind is None:
                    res.broken('F-IDX: index `%s` of the accessor call at %s in %s is of an unrecognised kind'
                               % (f.expr_text(n['args'][0]), f.nloc(n['i']), disp))
                    continue
                if need_fact and not _nonzero_size_fact(m, f, tt, n['i']):
                    res.fail(Finding('F-IDX', disp, 'getOutNeighbours(%s) without size check' % f.expr_text(n['args'][0]),
                                     f.nloc(n['i']),
                                     'the range-asserting accessor is called with the internal index %s (%s) on a path on which '
                                     'the graph may have zero vertices: enumerating the edges of an empty graph throws '
                                     'std::out_of_range' % (f.expr_text(n['args'][0]), kind)))
                else:
                    res.ok(dict(function=disp, call=f.expr_text(n['i'])[:60], index_kind=kind,
                                guard='size != 0 dominates' if need_fact else 'n/a') if len(res.samples) < 12 else None, fn=disp)
            # ---- increments of the cursor
            for n in f.nodes:
                if n['k'] == 'UnaryOperator' and n['op'] == '++':
                    t = tt.t(n['c'][0], resolve_refs=False)
                    is_cursor = (t[0] == 'field' and t[1].endswith('::vertex')) or \
                        (t[0] == 'var' and u.decl(t[1]).get('ctype') == 'unsigned int')
                    if not is_cursor:
                        continue
                    res.sites += 1
                    okg = False
                    from .rules_wl import implied
                    for dep in f.region(n['i']):
                        a = f.branch_atom(dep[0])
                        for (at, pol) in implied(tt.t(a), dep[1] == 0) if a is not None else []:
                            if at[0] == 'bin' and ((at[1] == '!=' and pol) or (at[1] == '==' and not pol)) and t in (at[2], at[3]):
                                e = at[3] if at[2] == t else at[2]
                                if e[0] == 'field' and e[1].endswith('::endVertex'):
                                    okg = True
                                if e[0] == 'var':
                                    init = [tt.t(d[1]) for d in var_defs(f, e[1]) if d[1] >= 0]
                                    if any(x[0] in ('call', 'mcall') and x[1].endswith('::getEndVertex') for x in init):
                                        okg = True
                    if okg:
                        res.ok(dict(function=disp, increment=f.expr_text(n['i']), guard='cursor != endVertex')
                               if len(res.samples) < 16 else None, fn=disp)
                    else:
                        res.fail(Finding('F-IDX', disp, 'unguarded cursor increment', f.nloc(n['i']),
                                         'the vertex cursor is incremented on a path where it may already equal the last vertex'))
            # ---- size - 1 only under size != 0
            for n in f.nodes:
                if n['k'] == 'BinaryOperator' and n['op'] == '-':
                    t = tt.t(n['i'])
                    if strip_cast(t[3]) == ('int', 1) and is_size_term(m, f, strip_cast(t[2]), tt):
                        res.sites += 1
                        if _nonzero_size_fact(m, f, tt, n['i']):
                            res.ok(dict(function=disp, expr=f.expr_text(n['i']), guard='size != 0') if len(res.samples) < 18 else None, fn=disp)
                        else:
                            res.fail(Finding('F-IDX', disp, 'size - 1 without size check', f.nloc(n['i']),
                                             '`%s` is evaluated on a path where the size may be 0 (wraps to the maximum index)'
                                             % f.expr_text(n['i'])))
        # ---- begin() may return end() only when it knows there is no edge to yield
        for f in m.by_tname.get(cls + '::Edges::begin', []):
            tt = Terms(f)
            from .rules_wl import implied
            for n in f.nodes:
                if n['k'] != 'ReturnStmt':
                    continue
                rt = tt.t(f.children(n['i'])[0]) if f.children(n['i']) else ('none',)
                core = rt
                while core[0] in ('ctor', 'cast') and core[2]:
                    nxt = core[2][0] if core[0] == 'ctor' else core[2]
                    if core[0] == 'ctor' and len(core[2]) != 1:
                        break
                    core = nxt
                if not (core[0] == 'mcall' and core[1].endswith('::Edges::end') and core[2] == ('this',)):
                    continue
                res.sites += 1
                pos = f.cfg_pos(n['i'])
                known_empty = False
                for (bb, ix) in f.dominating_edges(pos[0]) if pos else []:
                    a = f.branch_atom(bb)
                    for (at, pol) in implied(tt.t(a), ix == 0) if a is not None else []:
                        while at[0] in ('conv', 'cast'):
                            at = at[2]
                        # no vertex / no edge at all
                        if at[0] == 'bin' and at[1] == '==' and pol and strip_cast(at[3]) == ('int', 0):
                            l = strip_cast(at[2])
                            if is_size_term(m, f, l, tt) or (l[0] == 'mcall' and l[1].endswith('::getEdgeNumber')):
                                known_empty = True
                        # the list of the last vertex has been inspected and is empty / exhausted
                        if at[0] == 'mcall' and at[1] == 'std::list::empty' and pol:
                            known_empty = known_empty or _is_last_vertex_list(f, tt, at[2])
                        if at[0] == 'bin' and at[1] == '==' and pol and at[3][0] == 'mcall' and at[3][1] == 'std::list::end':
                            known_empty = known_empty or _is_last_vertex_list(f, tt, at[3][2])
                if known_empty:
                    res.ok(dict(function=f.display(), returns='end()', because='size == 0 / edge count == 0 / list of the last '
                                'vertex exhausted') if len(res.samples) < 24 else None, fn=f.display())
                else:
                    res.fail(Finding('F-IDX', f.display(), 'begin() returns end() without inspecting the last list', f.nloc(n['i']),
                                     'begin() returns end() on a path on which neither `size == 0`, `getEdgeNumber() == 0` nor '
                                     'emptiness of the neighbour list of the last vertex is known: a graph whose only edges '
                                     'start at the last vertex (e.g. a self-loop on it) enumerates as empty although it has '
                                     'edges'))
        # ---- S-ADVANCE: the skip loop of begin() and operator++: while (it == out(cur).end() && cur != endVertex) it = out(++cur).begin()
        for tn in (cls + '::Edges::begin', cls + '::Edges::constEdgeIterator::operator++'):
            for f in m.by_tname.get(tn, []):
                if tn.endswith('operator++') and len(f.params) != 0:
                    continue
                res.sites += 1
                tt = Terms(f)
                ftt = tt
                lf = f
                amap = {}
                whiles = [n for n in f.nodes if n['k'] == 'WhileStmt']
                if not whiles:
                    # the loop may live in a helper that receives cursor and position by reference
                    for n in f.nodes:
                        if n['k'] not in ('CallExpr', 'CXXMemberCallExpr') or 'callee' not in n:
                            continue
                        g = f.unit.function_for_decl(n['callee'])
                        if g is None or g.is_lambda or len(g.params) != len(n.get('args', [])):
                            continue
                        gw = [x for x in g.nodes if x['k'] == 'WhileStmt']
                        if len(gw) == 1 and (g.record or '').startswith(cls):
                            if whiles:
                                whiles = whiles + gw        # two helpers with loops: not the shape
                                break
                            whiles = gw
                            lf = g
                            amap = {('var', p): ftt.t(a, resolve_refs=False) for p, a in zip(g.params, n['args'])}
                    if lf is not f:
                        tt = Terms(lf)
                why = None
                if not whiles and tn.endswith('::begin'):
                    v2 = _first_nonempty_schema(m, f, tt)
                    if v2 is True:
                        res.ok(dict(function=f.display(), schema='for (v = 0; v != endVertex; ++v) if (!out(v).empty()) return (g, v, '
                                    'out(v).begin()); return (g, endVertex, out(endVertex).begin())') if len(res.samples) < 30 else None,
                               fn=f.display())
                        continue
                    if v2:
                        res.fail(Finding('F-IDX', f.display(), 'first non-empty list', f.where(), v2 + ': edges after an empty neighbour '
                                         'list are skipped or enumeration runs past the end'))
                        continue
                if len(whiles) != 1:
                    why = 'expected one advance loop over empty neighbour lists'
                else:
                    w = whiles[0]
                    f0, f = f, lf
                    cj = [c for c in _conjuncts(tt.t(w['cond'], resolve_refs=False))]
                    # `while (A) { if (!B) break; S; }` is `while (A && B) S;`: a leading exit test of the body is a conjunct
                    wb = f.nodes[w['body']] if w.get('body', -1) >= 0 else None
                    first = None
                    if wb is not None and wb['k'] == 'CompoundStmt':
                        kids = [c for c in wb['c'] if c >= 0]
                        first = f.nodes[kids[0]] if kids else None
                    if first is not None and first['k'] == 'IfStmt' and first.get('else', -1) < 0 and first.get('then', -1) >= 0:
                        th = f.nodes[first['then']]
                        only_break = th['k'] == 'BreakStmt' or (th['k'] == 'CompoundStmt' and
                                                              [f.nodes[c]['k'] for c in th['c'] if c >= 0] == ['BreakStmt'])
                        if only_break:
                            ct = tt.t(first['cond'], resolve_refs=False)
                            if ct[0] == 'bin' and ct[1] in ('==', '!='):
                                cj.append(('bin', '!=' if ct[1] == '==' else '==', ct[2], ct[3]))
                    it = cur = None
                    endv_ok = False
                    for c in cj:
                        if c[0] == 'bin' and c[1] == '==' and c[3][0] == 'mcall' and c[3][1] == 'std::list::end' and \
                                c[3][2][0] == 'mcall' and c[3][2][1].endswith(('::getOutNeighbours', '::getNeighbours')):
                            it, cur = c[2], c[3][2][3][0]
                    for c in cj:
                        if c[0] == 'bin' and c[1] == '!=' and cur is not None and c[2] == cur:
                            e = amap.get(c[3], c[3])
                            if (e[0] == 'field' and e[1].endswith('::endVertex')) or \
                                    (e[0] in ('call', 'mcall') and e[1].endswith('::getEndVertex')) or \
                                    (e[0] == 'var' and any(x[0] in ('call', 'mcall') and x[1].endswith('::getEndVertex')
                                                           for x in [ftt.t(d[1]) for d in var_defs(f0, e[1]) if d[1] >= 0])):
                                endv_ok = True
                    if it is None or not endv_ok or len(cj) != 2:
                        why = 'the advance loop condition is not `position == out(cursor).end() && cursor != endVertex`'
                    else:
                        body = [tt.t(x, resolve_refs=False) for x in f.descendants(w['body'])
                                if f.nodes[x]['k'] in ('BinaryOperator', 'CXXOperatorCallExpr')]
                        okb = any(b[0] == 'bin' and b[1] == '=' and b[2] == it and b[3][0] == 'mcall' and b[3][1] == 'std::list::begin'
                                  and b[3][2][0] == 'mcall' and b[3][2][3] == (('un', '++', False, cur),) for b in body)
                        if not okb:
                            why = 'the advance loop body is not `position = out(++cursor).begin()`'
                        if lf is not f0 and why is None:
                            # the helper does nothing but the loop, and receives cursor and position by reference
                            other = [x for x in lf.nodes if x['k'] in ('ReturnStmt', 'IfStmt', 'ForStmt', 'DoStmt', 'CXXForRangeStmt', 'DeclStmt')
                                     and not (x['k'] == 'ReturnStmt' and not lf.children(x['i']))]
                            byref = all(t0[0] == 'var' and t0[1] in lf.params and lf.cptypes[lf.params.index(t0[1])].endswith('&') and
                                        not lf.cptypes[lf.params.index(t0[1])].startswith('const ') for t0 in (it, cur))
                            if other or not byref:
                                why = 'expected a helper consisting of the advance loop over (cursor, position) passed by reference'
                        f = f0
                        tt = ftt
                        it, cur = amap.get(it, it), amap.get(cur, cur)
                        if why is None and tn.endswith('::begin'):
                            # initial position: cursor 0 and out(0).begin(); result (graph, cursor, position)
                            inits_it = [tt.t(d[1]) for d in var_defs(f, it[1]) if d[1] >= 0 and d[0] not in f.descendants(w['i'])] if it[0] == 'var' else []
                            inits_cur = [strip_cast(tt.t(d[1])) for d in var_defs(f, cur[1]) if d[1] >= 0] if cur[0] == 'var' else []
                            if not (inits_cur == [('int', 0)] and len(inits_it) == 1 and inits_it[0][0] == 'mcall' and
                                    inits_it[0][1] == 'std::list::begin' and inits_it[0][2][0] == 'mcall' and
                                    strip_cast(inits_it[0][2][3][0]) in (('int', 0), cur)):
                                why = 'begin() does not start at vertex 0 with the first position of its list'
                            else:
                                okr = False
                                for n in f.nodes:
                                    if n['k'] == 'ReturnStmt' and f.children(n['i']):
                                        r = tt.t(f.children(n['i'])[0], resolve_refs=False)
                                        while r[0] in ('ctor', 'cast') and (r[0] == 'cast' or len(r[2]) == 1):
                                            r = r[2][0] if r[0] == 'ctor' else r[2]
                                        if r[0] == 'ctor' and len(r[2]) == 3 and r[2][1] == cur and r[2][2] == it:
                                            okr = True
                                if not okr:
                                    why = 'begin() does not return the iterator (graph, cursor, position) reached by the advance loop'
                if why:
                    res.fail(Finding('F-IDX', f.display(), 'advance loop', f.where(), why + ': edges after an empty neighbour list are '
                                     'skipped or enumeration runs past the end'))
                else:
                    res.ok(dict(function=f.display(), schema='while (pos == out(cur).end() && cur != endVertex) pos = out(++cur).begin()')
                           if len(res.samples) < 30 else None, fn=f.display())
        # ---- operator* yields (vertex, *neighbour); end() is (endVertex, out(endVertex).end())
        for f in m.by_tname.get(cls + '::Edges::constEdgeIterator::operator*', []):
            res.sites += 1
            tt = Terms(f)
            rets = [n for n in f.nodes if n['k'] == 'ReturnStmt']
            r = tt.t(f.children(rets[0]['i'])[0]) if len(rets) == 1 else ('none',)
            while r[0] in ('ctor', 'cast') and r[0] == 'ctor' and len(r[2]) == 1:
                r = r[2][0]
            if r[0] == 'pair' and r[1][0] == 'field' and r[1][1].endswith('::vertex') and r[2] == ('deref', ('field', r[1][1].rsplit('::', 1)[0] + '::neighbour')):
                res.ok(None, fn=f.display())
            else:
                res.fail(Finding('F-IDX', f.display(), 'dereference', f.where(), 'operator* must return {vertex, *neighbour}'))
        for f in m.by_tname.get(cls + '::Edges::end', []):
            res.sites += 1
            tt = Terms(f)
            ok = False
            for n in f.nodes:
                if n['k'] == 'ReturnStmt' and f.children(n['i']):
                    r = tt.t(f.children(n['i'])[0], resolve_refs=False)
                    while r[0] in ('ctor', 'cast') and (r[0] == 'cast' or len(r[2]) == 1):
                        r = r[2][0] if r[0] == 'ctor' else r[2]
                    if r[0] == 'ctor' and len(r[2]) == 3:
                        v, p = r[2][1], r[2][2]
                        if v[0] == 'var' and p[0] == 'mcall' and p[1] == 'std::list::end' and p[2][0] == 'mcall' and p[2][3] == (v,):
                            init = [tt.t(d[1]) for d in var_defs(f, v[1]) if d[1] >= 0]
                            if any(x[0] in ('call', 'mcall') and x[1].endswith('::getEndVertex') for x in init):
                                ok = True
            if ok:
                res.ok(None, fn=f.display())
            else:
                res.fail(Finding('F-IDX', f.display(), 'end position', f.where(),
                                 'end() must be (endVertex, getOutNeighbours(endVertex).end()) with endVertex = getEndVertex(graph)'))
        # ---- endVertex field initialised from getEndVertex(graph)
        for f in m.by_tname.get(cls + '::Edges::constEdgeIterator::constEdgeIterator', []):
            if f.unit.decl(f.decl).get('special'):
                # a hand-written copy / move constructor takes every member from its source
                src = ('var', f.params[0]) if f.params else None
                tt0 = Terms(f)
                res.sites += 1
                inits = {f.unit.decl(it['field'])['name']: tt0.t(it['init']) for it in f.d.get('inits', []) if 'field' in it and it.get('init', -1) >= 0}
                bad = [nm for nm in ('vertex', 'endVertex', 'neighbour', 'graph')
                       if not any(st[0] == 'member' and st[1] == src and st[2].endswith('::' + nm) for st in subterms(inits.get(nm, ('none',))))]
                if bad:
                    res.fail(Finding('F-IDX', f.display(), 'iterator copy', f.where(),
                                     'the hand-written copy of the edge iterator does not take `%s` from its source' % bad[0]))
                else:
                    res.ok(None, fn=f.display())
                continue
            res.sites += 1
            tt = Terms(f)
            okc = False
            for it in f.d.get('inits', []):
                if 'field' in it and f.unit.decl(it['field'])['name'] == 'endVertex':
                    t = tt.t(it['init'])
                    if t[0] in ('call', 'mcall') and t[1].endswith('::getEndVertex'):
                        okc = True
            if okc:
                res.ok(None, fn=f.display())
            else:
                res.fail(Finding('F-IDX', f.display(), 'endVertex initialisation', f.where(),
                                 'the iterator\'s endVertex is not getEndVertex(graph)'))
        # ---- post-increment = copy, pre-increment, return copy
        for f in m.by_tname.get(cls + '::Edges::constEdgeIterator::operator++', []):
            if len(f.params) != 1:
                continue
            res.sites += 1
            tt = Terms(f)
            calls = [n for n in f.nodes if n['k'] in ('CXXMemberCallExpr', 'CXXOperatorCallExpr') and 'callee' in n and
                     f.unit.decl(n['callee'])['tname'] == cls + '::Edges::constEdgeIterator::operator++' and
                     len(f.unit.decl(n['callee']).get('ptypes', [])) == 0]
            rets = [n for n in f.nodes if n['k'] == 'ReturnStmt']
            decls = [n for n in f.nodes if n['k'] == 'DeclStmt']
            ok = len(calls) == 1 and len(rets) == 1 and len(decls) == 1
            if ok:
                tmp = ('var', decls[0]['decls'][0])
                init = tt.t(decls[0]['c'][0])
                ok = tt.t(f.children(rets[0]['i'])[0]) == tmp and f.can_reach_forward(decls[0]['i'], calls[0]['i'])
                copy_ok = init == ('deref', ('this',)) or (init[0] == 'ctor' and len(init[2]) == 3 and
                                                            init[2][1][0] == 'field' and init[2][1][1].endswith('::vertex') and
                                                            init[2][2][0] == 'field' and init[2][2][1].endswith('::neighbour'))
                ok = ok and copy_ok
            if ok:
                res.ok(dict(function=f.display(), shape='tmp = copy; ++*this; return tmp') if len(res.samples) < 20 else None, fn=f.display())
            else:
                res.fail(Finding('F-IDX', f.display(), 'post-increment', f.where(),
                                 'post-increment is not "copy the cursor, pre-increment, return the copy": pre- and '
                                 'post-increment would disagree'))
    # ---- undirected yield guard: one orientation per edge, every loop (F-ORD ii)
    for f in m.by_tname.get(LUG + '::Edges::constEdgeIterator::operator++', []):
        if len(f.params) != 0:
            continue
        res.sites += 1
        tt = Terms(f)
        dos = [n for n in f.nodes if n['k'] == 'DoStmt']
        why = None
        c = None
        if len(dos) == 1:
            c = tt.t(dos[0]['cond'])
        elif not dos:
            # for (;;) { advance; if (stop) return *this; }: skipping continues while !stop
            inf = [n for n in f.nodes if (n['k'] == 'ForStmt' and n['cond'] < 0) or
                   (n['k'] == 'WhileStmt' and tt.t(n['cond']) in (('bool', True), ('int', 1)))]
            if len(inf) == 1 and not any(n['k'] in ('BreakStmt', 'GotoStmt', 'ContinueStmt') for n in f.nodes):
                body = set(f.descendants(inf[0]['body']))
                ifs = [n for n in f.nodes if n['k'] == 'IfStmt' and n['i'] in body]
                rets = [n for n in f.nodes if n['k'] == 'ReturnStmt']
                if len(ifs) == 1 and len(rets) == 1 and ifs[0]['else'] < 0 and rets[0]['i'] in f.descendants(ifs[0]['then']) and \
                        f.nodes[inf[0]['body']]['k'] == 'CompoundStmt' and f.nodes[inf[0]['body']]['c'][-1] == ifs[0]['i']:
                    from .terms import _not
                    c = _not(tt.t(ifs[0]['cond']))
        if c is None:
            why = 'expected a do-while skipping the mirrored half-edges'
        else:
            v = None
            nb = None
            for st in subterms(c):
                if st[0] == 'field' and st[1].endswith('::vertex'):
                    v = st
                if st[0] == 'deref' and st[1][0] == 'field' and st[1][1].endswith('::neighbour'):
                    nb = st
            ends = [(st, True) for st in subterms(c) if st[0] == 'mcall' and st[1].endswith('::hasReachedEnd')]
            # after the advance loop the position is at the end exactly when it equals the end of the current list
            for st in subterms(c):
                if st[0] == 'bin' and st[1] in ('==', '!=') and nb is not None and st[2] == nb[1] and st[3][0] == 'mcall' and \
                        st[3][1] == 'std::list::end' and st[3][2][0] == 'mcall' and st[3][2][1].endswith(('::getOutNeighbours', '::getNeighbours')) and \
                        v is not None and st[3][2][3] == (v,):
                    ends.append((st, st[1] == '=='))
            if v is None or nb is None or not ends:
                why = 'the skip condition does not compare the vertex with *neighbour under !hasReachedEnd()'
            else:
                # skipping continues (cond true) exactly for vertex > neighbour when not at the end
                vals = []
                endt, endpos = ends[0]
                for (va, vb) in ORDERINGS:
                    vals.append(eval_order(c, {v: va, nb: vb, endt: (False if endpos else True)}))
                at_end = [eval_order(c, {v: va, nb: vb, endt: (True if endpos else False)}) for (va, vb) in ORDERINGS]
                if vals != [False, False, True]:
                    why = 'a half-edge is skipped/yielded for the wrong orientation (skip for v<n, v=n, v>n: %s)' % vals
                elif any(x is not False for x in at_end):
                    why = 'the skip loop does not stop at the end position'
        if why:
            res.fail(Finding('F-IDX', f.display(), 'undirected yield guard', f.where(), why))
        else:
            res.ok(dict(function=f.display(), yield_guard='skip while !end && vertex > *neighbour: each pair once, loops once'),
                   fn=f.display())
    # ---- the range object and its iterators are views: they refer to the graph, they do not copy it
    seen_r = set()
    for u in m.p.units:
        if u.std != m.std:
            continue
        for r in u.records:
            if not r['tname'].startswith((LDG + '::', LUG + '::')) or r.get('dependent'):
                continue
            for fl in r['fields']:
                ct = fl['ctype'].replace('const ', '')
                if not ct.startswith(('BaseGraph::LabeledDirectedGraph<', 'BaseGraph::LabeledUndirectedGraph<')):
                    continue
                k = (r['tname'], r.get('args'), fl['name'])
                if k in seen_r:
                    continue
                seen_r.add(k)
                res.sites += 1
                if fl['isref'] or fl['isptr']:
                    res.ok(dict(record=short(r['tname']), field=fl['name'], holds='reference') if len(res.samples) < 34 else None)
                else:
                    res.fail(Finding('F-IDX', short(r['tname']), 'graph held by value in ' + fl['name'], u.fmt_loc(fl['loc']),
                                     '%s::%s holds a copy of the graph: every edges() call makes its own copy, so iterators obtained '
                                     'from two calls (g.edges().begin() and g.edges().end()) point into different lists and never '
                                     'compare equal, and an iterator outlives the temporary it points into' % (short(r['tname']), fl['name'])))
    res.require_sites(30, 'index / cursor sites')
    return res
