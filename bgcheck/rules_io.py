"""IO rules: F-IO.OPEN, F-IO.READ, F-IO.WRAP, F-IO.SIGN, F-IO.GROW, F-IO.SCHEMA (binary, text),
F-IO.ENDIAN (AST symmetry + IR probes on a little- and a big-endian target)."""
import os
import re
import shutil
import subprocess
import tempfile

from .facts import INCLUDE, sh
from .model import NS, LDG, LUG
from .report import Finding, RuleResult
from .rules_pair import strip_cast, region_atoms
from .rules_val import var_defs, is_size_term
from .terms import Terms, show, subterms

IO = NS + 'io::'
WRITERS_TEXT = IO + 'writeTextEdgeList'
WRITERS_BIN = IO + 'writeBinaryEdgeList'
LOADER_TEXT = IO + 'loadTextVertexLabeledEdgeList'
LOADER_BIN = IO + 'loadBinaryEdgeList'
READ = IO + 'readBinaryValue'
WRITE = IO + 'writeBinaryValue'


def io_functions(m, tname):
    return m.by_tname.get(tname, [])


def _stream_var(f):
    for n in f.nodes:
        if n['k'] == 'DeclStmt':
            for d in n['decls']:
                ct = f.unit.decl(d).get('ctype', '')
                if ct in ('std::basic_ofstream<char>', 'std::basic_ifstream<char>', 'std::ofstream', 'std::ifstream'):
                    return d, n
    return None, None


def _resolve_consts(f, tt, t, depth=0):
    """replace const-qualified locals that are initialised once and never written by their initialiser"""
    if depth > 4 or not isinstance(t, tuple):
        return t
    if t and t[0] == 'var':
        d = f.unit.decl(t[1])
        if d and d.get('dk') == 'Var' and d.get('local') and d.get('constq') and not d.get('isref'):
            sdn = tt._single_def(t[1])
            if sdn is not None:
                return _resolve_consts(f, tt, tt.t(sdn), depth + 1)
        return t
    return tuple(_resolve_consts(f, tt, x, depth + 1) if isinstance(x, tuple) else x for x in t)


def _stream_init(f, tt, sd, decl):
    """the term the stream is opened with: its constructor arguments, or - when it is default-constructed and opened with one
    `stream.open(name, mode)` call - the arguments of that call (returned as a constructor term), plus the node that opens it"""
    init = tt.t(decl['c'][decl['decls'].index(sd)]) if decl['decls'].index(sd) < len(decl['c']) and decl['c'][decl['decls'].index(sd)] >= 0 \
        else ('ctor', '', ())
    args = [x for x in init[2] if not (x[0] == 'ctor' and 'allocator' in x[1])] if init[0] == 'ctor' else None
    if args == []:
        opens = [n for n in f.nodes if n['k'] == 'CXXMemberCallExpr' and 'callee' in n and f.unit.decl(n['callee'])['name'] == 'open' and
                 tt.t(n.get('obj', -1)) == ('var', sd)]
        if len(opens) == 1:
            return ('ctor', init[1], tuple(_resolve_consts(f, tt, tt.t(a)) for a in opens[0].get('args', []))), opens[0]
    return _resolve_consts(f, tt, init), decl


def _is_nolabel(f):
    return 'BaseGraph::NoLabel' in (f.targs or '')


# ------------------------------------------------------------------------------------------------
def _opens_and_verifies(g):
    """g constructs a file stream from its string parameter (and a mode parameter), passes it to verifyStreamOpened and
    returns it"""
    sd, decl = _stream_var(g)
    if sd is None:
        return False
    tt = Terms(g)
    fname = [('var', p) for ix, p in enumerate(g.params) if 'basic_string' in g.cptypes[ix]]
    init = tt.t(decl['c'][decl['decls'].index(sd)])
    if not fname or not any(st == fname[0] for st in subterms(init)):
        return False
    modes = [('var', p) for ix, p in enumerate(g.params) if 'Ios_Openmode' in g.cptypes[ix] or 'openmode' in g.cptypes[ix]]
    if modes and not any(st == modes[0] for st in subterms(init)):
        return False
    verify = [n for n in g.nodes if n['k'] == 'CallExpr' and 'callee' in n and
              g.unit.decl(n['callee'])['tname'] == IO + 'verifyStreamOpened' and tt.t(n['args'][0]) == ('var', sd)]
    rets = [n for n in g.nodes if n['k'] == 'ReturnStmt']
    if len(verify) != 1 or not rets:
        return False
    for r in rets:
        rt = tt.t(g.children(r['i'])[0]) if g.children(r['i']) else ('none',)
        if not any(st == ('var', sd) for st in subterms(rt)) or not g.node_dominates(verify[0]['i'], r['i']):
            return False
    return True


def rule_open(m):
    res = RuleResult('F-IO.OPEN', 'every IO routine constructs its stream from the caller\'s file name, calls '
                                  'verifyStreamOpened before any other use of the stream, binary routines open with '
                                  'std::ios::binary, and verifyStreamOpened throws std::runtime_error exactly when '
                                  '!is_open()')
    named = {WRITERS_TEXT: False, WRITERS_BIN: True, LOADER_TEXT: False, LOADER_BIN: True}
    for tn in named:
        if not io_functions(m, tn):
            res.broken('F-IO.OPEN: anchor vanished: no analysed instantiation of ' + tn)
    todo = []
    for f in m.fns:
        if not f.tname.startswith(IO) or f.is_lambda:
            continue
        sd, decl = _stream_var(f)
        if sd is not None:
            binary = named.get(f.tname)
            if binary is None:
                binary = 'Binary' in f.name
            todo.append((f, binary))
        elif f.tname in named:
            # a documented routine without a stream of its own must hand its file name to one that opens it
            tt0 = Terms(f)
            fname0 = [('var', p) for ix, p in enumerate(f.params) if 'basic_string' in f.cptypes[ix]]
            deleg = [n for n in f.nodes if n['k'] == 'CallExpr' and 'callee' in n and
                     f.unit.decl(n['callee'])['tname'].startswith(IO) and fname0 and
                     any(tt0.t(a) == fname0[0] for a in n['args'])]
            res.sites += 1
            if deleg:
                res.ok(dict(function=f.display(), delegates_to=f.unit.decl(deleg[0]['callee'])['name']) if len(res.samples) < 6 else None,
                       fn=f.display())
            else:
                res.fail(Finding('F-IO.OPEN', f.display(), 'stream', f.where(), 'no file stream is opened and the file name is not handed on'))
    for f, binary in todo:
        if True:
            res.sites += 1
            tt = Terms(f)
            sd, decl = _stream_var(f)
            disp = f.display()
            fname = [('var', p) for ix, p in enumerate(f.params) if f.pnames[ix] == 'fileName' or
                     'basic_string' in f.cptypes[ix]]
            init, opener_node = _stream_init(f, tt, sd, decl)
            why = None
            if not fname or not any(st == fname[0] for st in subterms(init)):
                why = 'the stream is not opened on the caller\'s file name'
            else:
                # ... and on that name itself (`fileName`, `fileName.c_str()`), not on a name computed from it: a derived
                # name (another extension, a scratch file renamed afterwards) can coincide for two distinct targets
                path = init
                while path[0] in ('ctor', 'cast') and path[2]:
                    path = strip_cast(path[2][0] if path[0] == 'ctor' else path[2])
                if path[0] == 'mcall' and path[1].endswith(('::c_str', '::data')):
                    path = strip_cast(path[2])
                is_opener = False
                if path[0] == 'call' and path[1].startswith(IO):
                    gs = m.by_tname.get(path[1], [])
                    is_opener = any('stream' in (g_.unit.decl(g_.decl).get('crtype', '') or '') for g_ in gs)
                if is_opener:
                    pass        # (an opening helper that returns the stream: examined below)
                elif path != fname[0]:
                    why = 'the stream is opened on `%s`, a name computed from the caller\'s file name and not that name itself: ' \
                          'calls with distinct file names can end up writing the same file, and an observer of the documented ' \
                          'target sees it appear by another route' % show(path, f.unit)[:80]
            reg0 = f.region(opener_node['i'])
            if reg0 and not why:
                dep0 = sorted(reg0)[0]
                a0 = f.branch_atom(dep0[0])
                why = 'the stream is opened only when `%s` is %s: on the other paths the routine returns without creating / ' \
                      'truncating the file and without reporting a path that cannot be opened' % (
                          f.expr_text(a0)[:50] if a0 is not None else '?', 'true' if dep0[1] == 0 else 'false')
            fsys = [n for n in f.nodes if n['k'] == 'CallExpr' and 'callee' in n and
                    f.unit.decl(n['callee'])['tname'] in ('rename', 'remove', 'std::rename', 'std::remove', 'tmpnam', 'std::tmpnam',
                                                         'tmpfile', 'std::tmpfile', 'mkstemp', 'unlink') and
                    len(n.get('args', [])) in (0, 1, 2) and 'basic_string' not in str(f.unit.decl(n['callee']).get('cptypes', ''))]
            if fsys and not why:
                why = '`%s` moves / removes files behind the stream: the routine touches more of the file system than the file it ' \
                      'is given' % f.expr_text(fsys[0]['i'])[:50]
            if binary and not any(st[0] == 'global' and st[1].endswith('::binary') for st in subterms(init)):
                why = why or 'the stream of a binary routine is not opened with std::ios::binary'
            verify = [n for n in f.nodes if n['k'] == 'CallExpr' and 'callee' in n and
                      f.unit.decl(n['callee'])['tname'] == IO + 'verifyStreamOpened']
            # the stream may come from an opening helper that constructs it from (file name, mode) and verifies it itself
            opener = None
            core = init
            while core[0] in ('ctor', 'cast') and core[2] and (core[0] == 'cast' or len(core[2]) == 1):
                core = core[2][0] if core[0] == 'ctor' else core[2]
            if core[0] == 'call' and core[1].startswith(IO):
                for n in f.nodes:
                    if n['k'] == 'CallExpr' and 'callee' in n and f.unit.decl(n['callee'])['tname'] == core[1] and \
                            n['i'] in f.descendants(decl['i']):
                        g = f.unit.function_for_decl(n['callee'])
                        if g is not None and _opens_and_verifies(g):
                            opener = g
            if opener is not None and not verify:
                pass
            elif len(verify) != 1 or tt.t(verify[0]['args'][0]) != ('var', sd):
                why = why or 'verifyStreamOpened(stream, fileName) is not called'
            else:
                for n in f.nodes:
                    if n['k'] == 'DeclRefExpr' and n['d'] == sd and n['i'] not in f.descendants(verify[0]['i']):
                        if opener_node is not decl and n['i'] in f.descendants(opener_node['i']):
                            continue
                        if not f.node_dominates(verify[0]['i'], n['i']):
                            why = why or 'the stream is used at %s before verifyStreamOpened' % f.nloc(n['i'])
            if why:
                res.fail(Finding('F-IO.OPEN', disp, 'open check', f.where(), why))
            else:
                res.ok(dict(function=disp, stream=f.unit.decl(sd)['name'], binary=binary) if len(res.samples) < 6 else None, fn=disp)
    for f in io_functions(m, IO + 'verifyStreamOpened'):
        res.sites += 1
        tt = Terms(f)
        throws = [n for n in f.nodes if n['k'] == 'CXXThrowExpr']
        ok = len(throws) == 1 and throws[0].get('thrown') == 'std::runtime_error'
        if ok:
            reg = f.region(throws[0]['i'])
            ok = len(reg) == 1
            for dep in reg:
                t = tt.t(f.branch_atom(dep[0]))
                ok = ok and t[0] == 'un' and t[1] == '!' and t[3][0] == 'mcall' and t[3][1].endswith('::is_open') and \
                    t[3][2] == ('var', f.params[0]) and dep[1] == 0
        if ok:
            res.ok(dict(function=f.display(), shape='if (!stream.is_open()) throw std::runtime_error') if len(res.samples) < 8 else None,
                   fn=f.display())
        else:
            res.fail(Finding('F-IO.OPEN', f.display(), 'verifyStreamOpened shape', f.where(),
                             'verifyStreamOpened must throw std::runtime_error exactly when !stream.is_open()'))
    res.require_sites(10, 'IO routines')
    return res


# ------------------------------------------------------------------------------------------------
_COMPOSITE = {}


def _composite_reader(H):
    """An io helper `std::ifstream &H(std::ifstream &s, T1 &a, T2 &b, ...)` built from the read primitive: returns the
    indices of the out parameters (in reading order) when a true result of H implies that every one of them was filled by a
    successful read.  The argument: failbit is sticky (H never touches the stream except through the primitive), so the
    stream returned is good only if no read failed; what is left to show is that every return is reached either after a
    read of each out parameter or on the failed edge of a read."""
    if id(H) in _COMPOSITE:
        return _COMPOSITE[id(H)]
    _COMPOSITE[id(H)] = None
    if H is None or not H.tname.startswith(IO) or H.tname == READ or len(H.params) < 2 or \
            'basic_ifstream' not in H.cptypes[0] or not H.cptypes[0].rstrip().endswith('&'):
        return None
    from .rules_pair import true_atoms
    tt = Terms(H)
    s = ('var', H.params[0])
    outs = [ix for ix in range(1, len(H.params)) if H.cptypes[ix].rstrip().endswith('&') and not H.cptypes[ix].startswith('const ')]
    if len(outs) != len(H.params) - 1:
        return None
    calls = []
    for n in H.nodes:
        if n['k'] == 'CallExpr' and 'callee' in n and H.unit.decl(n['callee'])['tname'] == READ:
            a = [tt.t(x) for x in n['args']]
            if a[0] != s or a[1][0] != 'var' or a[1][1] not in H.params:
                return None
            calls.append((n['i'], H.params.index(a[1][1])))
    rets = [n for n in H.nodes if n['k'] == 'ReturnStmt' and H.children(n['i'])]
    # the stream is used only as the first argument of the primitive or as the value returned
    for n in H.nodes:
        if n['k'] == 'DeclRefExpr' and n['d'] == H.params[0]:
            if any(n['i'] in H.descendants(c) for c, _ in calls):
                continue
            if any(H.strip(H.children(r['i'])[0]) == n['i'] for r in rets):
                continue
            return None
    if not rets or any(x['k'] in ('LambdaExpr', 'CXXTryStmt') for x in H.nodes):
        return None
    for r in rets:
        rv = strip_conv_call(tt.t(H.children(r['i'])[0]))
        in_ret = [c for c, _ in calls if c in H.descendants(r['i'])]
        if rv != s and not (len(in_ret) == 1 and rv == tt.t(in_ret[0])):
            return None
        pos = H.cfg_pos(r['i'])
        failed_edge = False
        for (bb, ix) in H.dominating_edges(pos[0]) if pos else []:
            a = H.branch_atom(bb)
            if a is None:
                continue
            for x in true_atoms(tt.t(a), ix == 0):
                if x[0] == 'un' and x[1] == '!' and any(strip_conv_call(x[3]) == tt.t(c) for c, _ in calls):
                    failed_edge = True
        if failed_edge:
            continue
        for ix in outs:
            if not any(px == ix and (c in in_ret or H.node_dominates(c, r['i'])) for c, px in calls):
                return None

    def key(c):
        return -sum(1 for o in calls if o is not c and H.can_reach_forward(c[0], o[0]))
    order = []
    for c, px in sorted(calls, key=key):
        if px not in order:
            order.append(px)
    _COMPOSITE[id(H)] = order
    return order


def _read_calls(f, tt, sd):
    """[(call node, out variable decl)] calls that fill a variable from the stream: readBinaryValue(stream, x) and
    the fromBinary callback (std::function returning the stream)"""
    out = []
    for n in f.nodes:
        if n['k'] == 'CallExpr' and 'callee' in n and f.unit.decl(n['callee'])['tname'] == READ:
            a = [tt.t(x) for x in n['args']]
            if a[0] == ('var', sd) and a[1][0] == 'var':
                out.append((n['i'], a[1][1], 'readBinaryValue'))
        elif n['k'] == 'CallExpr' and 'callee' in n and f.unit.decl(n['callee'])['tname'].startswith(IO):
            H = f.unit.function_for_decl(n['callee'])
            order = _composite_reader(H) if H is not None else None
            a = [tt.t(x) for x in n['args']]
            if order and a and a[0] == ('var', sd) and all(px < len(a) and a[px][0] == 'var' for px in order):
                for px in order:
                    out.append((n['i'], a[px][1], 'readBinaryValue'))
        elif n['k'] == 'CXXOperatorCallExpr' and 'callee' in n and f.unit.decl(n['callee']).get('op') == '()':
            a = [tt.t(x) for x in n['args']]
            if len(a) == 3 and a[0][0] == 'var' and 'std::function<std::basic_ifstream' in f.unit.decl(a[0][1]).get('ctype', '') \
                    and a[1] == ('var', sd) and a[2][0] == 'var':
                out.append((n['i'], a[2][1], 'fromBinary'))
    return out


def _block_reader(m, f, tt, sd, res, disp):
    """A loader that fills a buffer with one raw stream.read and takes the number of complete values from gcount():
    every element of the buffer that is used must lie below that count.  Returns True when the shape was recognised
    (and judged), False otherwise."""
    from .rules_wl import implied
    raw = [n for n in f.nodes if n['k'] == 'CXXMemberCallExpr' and 'callee' in n and f.unit.decl(n['callee'])['name'] == 'read' and
           tt.t(n.get('obj', -1)) == ('var', sd)]
    if len(raw) != 1:
        return False
    B = None
    for st in subterms(tt.t(raw[0]['args'][0])):
        if st[0] == 'mcall' and st[1].endswith('::data') and st[2][0] == 'var':
            B = st[2]
    N = None
    for n in f.nodes:
        if n['k'] == 'DeclStmt':
            for ix, d in enumerate(n['decls']):
                if ix < len(n['c']) and n['c'][ix] >= 0 and any(
                        st[0] == 'mcall' and st[1].endswith('::gcount') and st[2] == ('var', sd) for st in subterms(tt.t(n['c'][ix]))):
                    N = ('var', d)
    if B is None or N is None:
        return False

    def lin(t):
        t = strip_cast(t)
        if t[0] == 'var':
            return t, 0
        if t[0] == 'bin' and t[1] == '+':
            a, b = strip_cast(t[2]), strip_cast(t[3])
            if a[0] == 'var' and b[0] == 'int':
                return a, b[1]
            if b[0] == 'var' and a[0] == 'int':
                return b, a[1]
        return None, None
    subs = [n for n in f.nodes if n['k'] == 'CXXOperatorCallExpr' and 'callee' in n and f.unit.decl(n['callee']).get('op') == '[]' and
            tt.t(n['args'][0]) == B]
    if not subs:
        return False
    for sn in subs:
        res.sites += 1
        base, k = lin(tt.t(sn['args'][1]))
        best = None
        pos = f.cfg_pos(sn['i'])
        for (bb, ix) in (f.dominating_edges(pos[0]) if pos else []):
            a = f.branch_atom(bb)
            for (at, pol) in (implied(tt.t(a), ix == 0) if a is not None else []):
                at = strip_conv_call(at)
                if at[0] == 'bin' and at[1] == '<' and pol and strip_cast(at[3]) == N:
                    b2, c2 = lin(at[2])
                    if b2 is not None and b2 == base:
                        best = c2 if best is None else max(best, c2)
        if base is not None and best is not None and best >= k:
            res.ok(dict(function=disp, element=f.expr_text(sn['i']), bound='%s + %d < %s' % (show(base, f.unit), best, show(N, f.unit)))
                   if len(res.samples) < 8 else None, fn=disp)
        elif base is not None and best is not None:
            res.fail(Finding('F-IO.READ', disp, 'buffer element beyond the values read', f.nloc(sn['i']),
                             '`%s` is used where only `%s + %d < %s` is known (%s = complete values delivered by the read): when the '
                             'file ends inside a record the slot holds a value from the previous block or zero, and it becomes an '
                             'edge instead of the record being dropped or rejected'
                             % (f.expr_text(sn['i']), show(base, f.unit), best, show(N, f.unit), show(N, f.unit))))
        else:
            res.broken('F-IO.READ: %s uses `%s` of a raw read buffer without a recognisable bound by the count of values read'
                       % (disp, f.expr_text(sn['i'])))
    return True


def rule_checked_read(m):
    res = RuleResult('F-IO.READ', 'a variable filled by a read primitive is used only where a branch on the truth value of '
                                  'that very read (or of the stream right after it) has been taken on its true edge')
    for f in io_functions(m, LOADER_BIN):
        tt = Terms(f)
        sd, _ = _stream_var(f)
        disp = f.display()
        if sd is None:
            res.broken('F-IO.READ: no stream in ' + disp)
            continue
        reads = _read_calls(f, tt, sd)
        want = 2 if _is_nolabel(f) else 3
        if len(reads) < want and _block_reader(m, f, tt, sd, res, disp):
            continue
        if len(reads) < want:
            res.broken('F-IO.READ: expected %d read calls per record in %s, found %d' % (want, disp, len(reads)))
            continue
        for call, var, kind in reads:
            uses = [n['i'] for n in f.nodes if n['k'] == 'DeclRefExpr' and n['d'] == var and
                    not any(n['i'] in f.descendants(c) for c, _, _ in reads)]
            for u in uses:
                res.sites += 1
                pos = f.cfg_pos(u)
                ok = False
                if pos is not None:
                    from .rules_pair import true_atoms
                    for (bb, ix) in f.dominating_edges(pos[0]):
                        a = f.branch_atom(bb)
                        if a is None:
                            continue
                        # an atom true on this edge is (a conversion to bool of) the read call itself: the true edge of
                        # `read && ...`, or the false edge of `!read` (guard clause with break / return)
                        for x in true_atoms(tt.t(a), ix == 0):
                            if x == tt.t(call) or strip_conv_call(x) == tt.t(call):
                                ok = True
                vname = f.unit.decl(var)['name']
                if ok:
                    res.ok(dict(function=disp, variable=vname, read=f.nloc(call), use=f.nloc(u), checked='true edge of the read')
                           if len(res.samples) < 8 else None, fn=disp)
                else:
                    res.fail(Finding('F-IO.READ', disp, 'unchecked use of %s (%s)' % (vname, kind), f.nloc(u),
                                     '`%s` is filled by %s at %s but used at %s without the success of that read having '
                                     'been tested: on a file cut inside a record the stale / indeterminate value becomes '
                                     'an edge' % (vname, kind, f.nloc(call), f.nloc(u))))
    # ---- end-of-file look-ahead: the int_type of peek() / get() is compared with EOF as an int, never through a char
    from .rules_ts import _fixture_functions, _fixture_verdict
    for f in list(m.fns) + _fixture_functions('lookahead'):
        if not (f.tname.startswith(IO) or 'fixture::' in f.tname) or f.is_lambda:
            continue
        tt = Terms(f)

        def _is_look(t):
            t = strip_cast(t)
            return t[0] == 'mcall' and t[1].split('::')[-1] in ('peek', 'get') and not t[3]

        def _charvar(t):
            return t[0] == 'var' and f.unit.decl(t[1]).get('ctype', '').replace('const ', '') in ('char', 'signed char', 'unsigned char')
        for n in f.nodes:
            if n['k'] != 'BinaryOperator' or n.get('op') not in ('==', '!='):
                continue
            t = tt.t(n['i'])
            if t[0] != 'bin':
                continue
            for a, b in ((t[2], t[3]), (t[3], t[2])):
                b = strip_cast(b)
                if not (b == ('int', -1) or (b[0] == 'un' and b[1] == '-' and strip_cast(b[3]) == ('int', 1))):
                    continue
                a = strip_cast(a)
                narrowed = None
                if a[0] == 'bin' and a[1] == '=' and _charvar(a[2]) and _is_look(a[3]):
                    narrowed = a[2]
                elif _charvar(a) and any(d[1] >= 0 and _is_look(tt.t(d[1])) for d in var_defs(f, a[1])):
                    narrowed = a
                if narrowed is not None:
                    res.sites += 1
                    res.fail(Finding('F-IO.READ', f.display(), 'end-of-file look-ahead', f.nloc(n['i']),
                                     '`%s` compares the look-ahead with EOF after storing it in the %s variable `%s`: the data byte 0xFF '
                                     'converts to -1 and is taken for the end of the file, so loading stops silently at the first '
                                     'record that starts with that byte' % (f.expr_text(n['i'])[:60], f.unit.decl(narrowed[1])['ctype'],
                                                                              f.unit.decl(narrowed[1])['name'])))
    _fixture_verdict(res, 'lookahead')
    # ---- the read primitive itself reports every short read
    for f in io_functions(m, READ):
        res.sites += 1
        tt = Terms(f)
        disp = f.display()
        sparam = ('var', f.params[0])
        reads = [n for n in f.nodes if n['k'] == 'CXXMemberCallExpr' and 'callee' in n and f.unit.decl(n['callee'])['name'] == 'read' and
                 tt.t(n.get('obj', -1)) == sparam]
        sget = [n for n in f.nodes if n['k'] == 'CXXMemberCallExpr' and 'callee' in n and f.unit.decl(n['callee'])['name'] in ('sgetn', 'xsgetn', 'readsome')]
        if len(reads) == 1 and not sget:
            res.ok(dict(function=disp, primitive='istream::read(sizeof(T)): sets failbit when fewer bytes are available') if len(res.samples) < 9 else None,
                   fn=disp)
            continue
        if len(sget) == 1 and not reads:
            # unformatted buffer read: the function must fail the stream itself whenever count != sizeof(T)
            cnt = None
            for n in f.nodes:
                if n['k'] == 'DeclStmt':
                    for ix, d in enumerate(n['decls']):
                        if ix < len(n['c']) and n['c'][ix] >= 0 and sget[0]['i'] in f.descendants(n['c'][ix]):
                            cnt = ('var', d)
            sets = [n for n in f.nodes if n['k'] == 'CXXMemberCallExpr' and 'callee' in n and f.unit.decl(n['callee'])['name'] == 'setstate']
            if cnt is None or len(sets) != 1:
                res.broken('F-IO.READ: %s reads through the stream buffer without a recognisable failure report' % disp)
                continue
            from .rules_pair import region_atoms, eval_order as _ev
            size_t = ('sizeof',)
            bad_counts = []
            for c in (0, 1, 3):            # bytes delivered, all smaller than sizeof(T) >= 4 of the indices
                fails = True
                for at in region_atoms(f, tt, sets[0]['i']):
                    at = strip_conv_call(at)
                    env = {cnt: c}
                    for st in subterms(at):
                        if st[0] == 'sizeof':
                            env[st] = 4
                    v = _ev(at, env)
                    if v is None:
                        fails = None
                        break
                    if not v:
                        fails = False
                if fails is None:
                    bad_counts = None
                    break
                if not fails:
                    bad_counts.append(c)
            if bad_counts is None:
                res.broken('F-IO.READ: the failure condition of %s cannot be evaluated over the byte count' % disp)
            elif bad_counts:
                res.fail(Finding('F-IO.READ', disp, 'short read reported as success', f.nloc(sets[0]['i']),
                                 'the stream is put into the failed state only under `%s`: when the buffer delivers %s of the sizeof(T) '
                                 'bytes the read is reported as successful and the value keeps stale bytes - a file cut inside a value '
                                 'yields an invented field' % (f.expr_text(f.branch_atom(list(f.region(sets[0]['i']))[0][0]))[:40],
                                                              ' or '.join(str(c) for c in bad_counts))))
            else:
                res.ok(dict(function=disp, primitive='sgetn + setstate whenever count != sizeof(T)'), fn=disp)
            continue
        res.broken('F-IO.READ: expected readBinaryValue to read with one istream::read (or one sgetn with its own failure report)')
    res.require_sites(10, 'uses of read buffers')
    return res


def strip_conv_call(x):
    while isinstance(x, tuple) and x and x[0] in ('conv', 'cast'):
        x = x[2]
    return x


# ------------------------------------------------------------------------------------------------
def _file_derived(f, tt, sd):
    """variables whose value comes from file content"""
    vs = set()
    for call, var, kind in _read_calls(f, tt, sd) if sd is not None else []:
        vs.add(var)
    # results of the vertexFromString callback
    for n in f.nodes:
        if n['k'] == 'DeclStmt':
            for ix, d in enumerate(n['decls']):
                if ix < len(n['c']) and n['c'][ix] >= 0:
                    t = tt.t(n['c'][ix])
                    if t[0] == 'mcall' and t[1].endswith('::operator()') and t[2][0] == 'var' and \
                            'std::function<unsigned int' in f.unit.decl(t[2][1]).get('ctype', ''):
                        vs.add(d)
    changed = True
    while changed:
        changed = False
        for n in f.nodes:
            if n['k'] == 'DeclStmt':
                for ix, d in enumerate(n['decls']):
                    if d in vs or ix >= len(n['c']) or n['c'][ix] < 0:
                        continue
                    t = tt.t(n['c'][ix])
                    if t[0] == 'call' and t[1] in ('std::max', 'std::min') and any(
                            st[0] == 'var' and st[1] in vs for st in subterms(t)):
                        vs.add(d)
                        changed = True
    return vs


def rule_wrap(m):
    res = RuleResult('F-IO.WRAP', 'a file-derived index never feeds `+ 1` evaluated in a 32-bit type whose result becomes a '
                                  'container / graph size (0xFFFFFFFF + 1 wraps to 0 and the following raw subscript or '
                                  'insertion is out of bounds)')
    # Binary loaders are not in scope: a wrapped size there makes resize / the validated insertion throw
    # (std::invalid_argument / std::out_of_range), which C15 allows; in the text loader it is followed by raw
    # subscripts of the name table.
    for tn in (LOADER_TEXT,):
        for f in io_functions(m, tn):
            tt = Terms(f)
            sd, _ = _stream_var(f)
            disp = f.display()
            tainted = _file_derived(f, tt, sd)
            for n in f.nodes:
                if n['k'] != 'CXXMemberCallExpr' or 'callee' not in n or f.unit.decl(n['callee'])['name'] != 'resize':
                    continue
                for a in n['args'][:1]:
                    # the size expression, seen through single-definition locals (`const size_t newSize = ...`)
                    todo_nodes = list(f.descendants(a))
                    seen_nodes = set(todo_nodes)
                    depth = 0
                    frontier = todo_nodes
                    while frontier and depth < 3:
                        nxt = []
                        for dn in frontier:
                            x = f.nodes[dn]
                            if x['k'] == 'DeclRefExpr' and f.unit.decl(x['d'])['dk'] == 'Var':
                                defs = var_defs(f, x['d'])
                                if len(defs) == 1 and defs[0][1] >= 0:
                                    for d2 in f.descendants(defs[0][1]):
                                        if d2 not in seen_nodes:
                                            seen_nodes.add(d2)
                                            nxt.append(d2)
                        todo_nodes.extend(nxt)
                        frontier = nxt
                        depth += 1
                    for dn in todo_nodes:
                        x = f.nodes[dn]
                        if x['k'] == 'BinaryOperator' and x['op'] == '+':
                            ops = [tt.t(c) for c in x['c']]
                            if any(st[0] == 'var' and st[1] in tainted for o in ops for st in subterms(o)):
                                res.sites += 1
                                if x.get('t') in ('unsigned int', 'int', 'unsigned short', 'short'):
                                    res.fail(Finding('F-IO.WRAP', disp, 'resize(%s)' % f.expr_text(dn), f.nloc(dn),
                                                     'the new size `%s` is computed in %s from a file-derived index: the '
                                                     'index 4294967295 wraps it to 0, the container is not grown and the '
                                                     'following subscript / insertion is out of bounds' % (f.expr_text(dn), x.get('t'))))
                                else:
                                    res.ok(dict(function=disp, size=f.expr_text(dn), type=x.get('t'), at=f.nloc(dn))
                                           if len(res.samples) < 6 else None, fn=disp)
    res.require_sites(10, 'size computations from file-derived indices')
    return res


def rule_sign(m):
    res = RuleResult('F-IO.SIGN', 'a vertex index parsed from text with a signed conversion becomes a VertexIndex only '
                                  'after a non-negativity check (the default parser of loadTextEdgeList)')
    for f in io_functions(m, IO + 'loadTextEdgeList'):
        tt = Terms(f)
        disp = f.display()
        calls = [n for n in f.nodes if n['k'] == 'CallExpr' and 'callee' in n and f.unit.decl(n['callee'])['tname'] == LOADER_TEXT]
        if len(calls) != 1:
            res.broken('F-IO.SIGN: loadTextEdgeList of %s does not delegate to loadTextVertexLabeledEdgeList' % disp)
            continue
        lam = None
        for st in subterms(tt.t(calls[0]['args'][2])):
            if st[0] == 'lambda':
                lam = f.unit.function_for_decl(st[1])
            if st[0] == 'fn' and st[1].startswith(NS):
                cands = [g for g in m.by_tname.get(st[1], []) if g.unit is f.unit] or m.by_tname.get(st[1], [])
                if cands:
                    lam = cands[0]
            if st[0] == 'ctor' and st[1].startswith(NS):
                # a named function object of the library: its call operator is the parser
                ops = [g for g in m.fns if g.record == st[1] and g.name == 'operator()' and not g.is_lambda]
                ops = [g for g in ops if g.unit is f.unit] or ops
                if len({g.key for g in ops}) == 1:
                    lam = ops[0]
        res.sites += 1
        if lam is None:
            res.broken('F-IO.SIGN: the index parser passed by %s is not a lambda or a library function' % disp)
            continue
        ltt = Terms(lam)
        from .rules_pair import Ctx as _PCtx3
        _pc3 = _PCtx3(m, lam)
        parses = [n for n in lam.nodes if n['k'] == 'CallExpr' and 'callee' in n and
                  lam.unit.decl(n['callee'])['tname'] in ('std::stoi', 'std::stol', 'std::stoll', 'std::stoul', 'std::stoull',
                                                          'std::atoi', 'std::atol', 'std::strtol', 'std::strtoul')]
        rt = lam.unit.decl(lam.decl).get('crtype', '')
        why = None
        if len(parses) != 1:
            why = 'expected one numeric parse in the default index parser'
        else:
            pname = lam.unit.decl(parses[0]['callee'])['name']
            if pname in ('stoul', 'stoull', 'strtoul', 'atoi', 'atol'):
                why = '%s accepts a leading minus sign / does not report errors: "-1" becomes a huge index' % pname
            else:
                # result must be range-checked before it is returned as an unsigned index
                rets = [n for n in lam.nodes if n['k'] == 'ReturnStmt']
                checked = True
                for r in rets:
                    ok = False
                    pos = lam.cfg_pos(r['i'])
                    for (bb, ix) in (lam.dominating_edges(pos[0]) if pos else []):
                        a = lam.branch_atom(bb)
                        t = _pc3.unconst(ltt.t(a)) if a is not None else None
                        if t is None:
                            continue
                        for (at, pol) in _implied(t, ix == 0):
                            at = strip_conv_call(at)
                            if at[0] == 'bin' and at[1] in ('<', '>=') and strip_cast(at[3]) == ('int', 0):
                                if (at[1] == '<' and not pol) or (at[1] == '>=' and pol):
                                    ok = True
                    # a branch on `v < 0` whose true edge can only end in a throw also establishes it for every return
                    if not ok:
                        for bid, blk in lam.blocks.items():
                            a0 = lam.branch_atom(bid) if len(blk.succs) == 2 else None
                            if a0 is None:
                                continue
                            at = strip_conv_call(_pc3.unconst(ltt.t(a0)))
                            edge = None
                            if at[0] == 'bin' and at[1] == '<' and strip_cast(at[3]) == ('int', 0):
                                edge = 0
                            elif at[0] == 'bin' and at[1] == '>=' and strip_cast(at[3]) == ('int', 0):
                                edge = 1
                            if edge is None or blk.succs[edge] is None or blk.succs[edge] < 0:
                                continue
                            # every path from that edge ends in a throw before any return
                            stack, seen_b, escapes = [blk.succs[edge]], set(), False
                            while stack:
                                b2 = stack.pop()
                                if b2 in seen_b:
                                    continue
                                seen_b.add(b2)
                                kinds = [lam.nodes[e]['k'] for e in lam.blocks[b2].elems]
                                if 'CXXThrowExpr' in kinds:
                                    continue
                                if 'ReturnStmt' in kinds or b2 == lam.exit:
                                    escapes = True
                                    break
                                stack.extend(x for x in lam.blocks[b2].succs if x is not None and x >= 0)
                            if not escapes and lam.node_dominates(a0, r['i']):
                                ok = True
                    checked = checked and ok
                if not checked:
                    why = 'the signed result of %s is returned as an unsigned vertex index without a check for negative ' \
                          'values: the text index -1 becomes 4294967295' % pname
        if why:
            res.fail(Finding('F-IO.SIGN', generic(disp), 'default index parser', lam.where(), why))
        else:
            res.ok(dict(function=disp, parser=lam.unit.decl(parses[0]['callee'])['name'], check='negative values rejected'),
                   fn=disp)
    res.require_sites(5, 'default index parsers')
    return res


def generic(d):
    return d


def _implied(t, pol):
    from .rules_wl import implied
    return implied(t, pol)


def _implied_any(t, pol):
    """atoms one of which holds: (A || B) true => A or B; used for throw guards where each disjunct alone throws"""
    t0 = strip_conv_call(t)
    if t0[0] == 'bin' and t0[1] == '||' and pol:
        return _implied_any(t0[2], True) + _implied_any(t0[3], True)
    return [(t, pol)]


# ------------------------------------------------------------------------------------------------
def rule_grow(m, which='both'):
    """Text loader: graph and name table grow together to 1+largest index before the subscripts/insertion."""
    res = RuleResult('F-IO.GROW', 'the text loader grows graph and name table together to 1 + max(index) (in size_t) under '
                                  '`max >= getSize()` before the raw subscripts of the name table and the insertion of the '
                                  'same line; the binary loaders grow to index + 1 under `index >= getSize()`; nothing '
                                  'else resizes them')
    for f in (io_functions(m, LOADER_TEXT) if which in ('both', 'text') else []):
        res.sites += 1
        tt = Terms(f)
        disp = f.display()
        why = None
        G = None
        V = None
        for n in f.nodes:
            if n['k'] == 'DeclStmt':
                for d in n['decls']:
                    ct = f.unit.decl(d).get('ctype', '')
                    if ct.startswith('BaseGraph::Labeled'):
                        G = d
                    if ct.startswith('std::vector<std::basic_string<char>'):
                        V = d
        resizes = [n for n in f.nodes if n['k'] == 'CXXMemberCallExpr' and 'callee' in n and
                   f.unit.decl(n['callee'])['name'] == 'resize']
        if G is None or V is None:
            why = 'returned graph / name table not found'
        else:
            gr = [n for n in resizes if tt.t(n['obj']) == ('var', G)]
            vr = [n for n in resizes if tt.t(n['obj']) == ('var', V)]
            subs = [n for n in f.nodes if n['k'] == 'CXXOperatorCallExpr' and 'callee' in n and
                    f.unit.decl(n['callee']).get('op') == '[]' and tt.t(n['args'][0]) == ('var', V)]
            adds = [n for n in f.nodes if n['k'] == 'CXXMemberCallExpr' and 'callee' in n and
                    f.unit.decl(n['callee'])['name'] == 'addEdge' and tt.t(n['obj']) == ('var', G)]
            if len(gr) != 1 or len(vr) != 1 or len(adds) != 1 or len(subs) != 2:
                why = 'expected one resize of the graph, one of the name table, two name-table subscripts and one insertion'
                if len(adds) == 1:
                    pv = _growth_paths(m, f, tt, G, V, adds[0], subs)
                    if pv is True:
                        why = None
                    elif pv:
                        why = pv
            else:
                from .rules_pair import Ctx as _PCtx
                _pc = _PCtx(m, f)
                ga, va = strip_cast(_pc.unconst(tt.t(gr[0]['args'][0]))), strip_cast(_pc.unconst(tt.t(vr[0]['args'][0])))
                idx = [strip_cast(_pc.unconst(tt.t(s['args'][1]))) for s in subs]
                aa = [strip_cast(_pc.unconst(tt.t(a))) for a in adds[0]['args'][:2]]
                if ga != va or ga[0] != 'bin' or ga[1] != '+' or strip_cast(ga[3]) != ('int', 1):
                    why = 'graph and name table are not resized to the same `largest + 1`'
                else:
                    L = strip_cast(ga[2])
                    ldef = None
                    if L[0] == 'call' and L[1] == 'std::max':
                        ldef = L
                        defs_l = [('var', d) for nn in f.nodes if nn['k'] == 'DeclStmt' for ix2, d in enumerate(nn['decls'])
                                  if ix2 < len(nn['c']) and nn['c'][ix2] >= 0 and strip_cast(_pc.unconst(tt.t(nn['c'][ix2]))) == L]
                        Lvar = defs_l[0] if defs_l else None
                    if L[0] == 'var':
                        defs = var_defs(f, L[1])
                        if len(defs) == 1 and defs[0][1] >= 0:
                            ldef = tt.t(defs[0][1])
                    if ldef is not None:
                        ldef = _pc.unconst(ldef)
                    if not (ldef and ldef[0] == 'call' and ldef[1] == 'std::max' and {strip_cast(x) for x in ldef[2]} == set(aa)):
                        why = 'the size is not derived from max(source index, destination index) of the same line'
                    elif set(idx) != set(aa):
                        why = 'the name-table subscripts are not the two indices that are inserted'
                    else:
                        # guard: L >= G.getSize() true edge; resizes inside; subscripts/insertion after the if
                        reg = f.region(gr[0]['i']) - f.region(adds[0]['i'])
                        okg = False
                        for dep in reg:
                            t = tt.t(f.branch_atom(dep[0]))
                            if t[0] == 'bin' and t[1] == '>=' and strip_cast(_pc.unconst(t[2])) in (L, strip_cast(_pc.unconst(L))) and \
                                    t[3][0] == 'mcall' and t[3][1].endswith('::getSize') and t[3][2] == ('var', G) and dep[1] == 0:
                                okg = True
                        if not okg or f.region(gr[0]['i']) != f.region(vr[0]['i']):
                            why = 'the two resizes are not guarded together by `largest >= graph.getSize()`'
                        else:
                            for later in subs + adds:
                                if not f.can_reach_forward(gr[0]['i'], later['i']):
                                    why = 'a subscript / the insertion precedes the growth of the same line'
        if why:
            res.fail(Finding('F-IO.GROW', disp, 'growth schema', f.where(), why))
        else:
            res.ok(dict(function=disp, schema='L = max(v1,v2); if (L >= g.getSize()) { g.resize(L+1); names.resize(L+1); } '
                        'names[v1]; names[v2]; g.addEdge(v1, v2, ...)') if len(res.samples) < 3 else None, fn=disp)
    for f in (io_functions(m, LOADER_BIN) if which in ('both', 'binary') else []):
        res.sites += 1
        tt = Terms(f)
        disp = f.display()
        G = None
        for n in f.nodes:
            if n['k'] == 'DeclStmt':
                for d in n['decls']:
                    if f.unit.decl(d).get('ctype', '').startswith('BaseGraph::Labeled'):
                        G = d
        resizes = [n for n in f.nodes if n['k'] == 'CXXMemberCallExpr' and 'callee' in n and
                   f.unit.decl(n['callee'])['name'] == 'resize' and tt.t(n['obj']) == ('var', G)]
        adds = [n for n in f.nodes if n['k'] == 'CXXMemberCallExpr' and 'callee' in n and
                f.unit.decl(n['callee'])['name'] == 'addEdge' and tt.t(n['obj']) == ('var', G)]
        why = None
        if len(adds) != 1:
            why = 'expected one insertion per record'
        else:
            aa = [strip_cast(tt.t(a)) for a in adds[0]['args'][:2]]
            grown = set()
            extra_guard = False
            for r in resizes:
                ga = strip_cast(tt.t(r['args'][0]))
                if ga[0] == 'bin' and ga[1] == '+' and strip_cast(ga[3]) == ('int', 1):
                    v = strip_cast(ga[2])
                    guards = f.region(r['i']) - f.region(adds[0]['i'])
                    for dep in guards:
                        t = tt.t(f.branch_atom(dep[0]))
                        if t[0] == 'bin' and t[1] == '>=' and strip_cast(t[2]) == v and t[3][0] == 'mcall' and \
                                t[3][1].endswith('::getSize') and dep[1] == 0 and f.can_reach_forward(r['i'], adds[0]['i']):
                            if len(guards) == 1:
                                grown.add(v)
                            else:
                                extra_guard = True
            # growth through a helper whose whole body is the same guarded resize of its graph argument
            for n in f.nodes:
                if n['k'] != 'CallExpr' or 'callee' not in n:
                    continue
                g = f.unit.function_for_decl(n['callee'])
                gh = _grow_helper(g) if g is not None else None
                if gh is None:
                    continue
                a = n.get('args', [])
                if tt.t(a[gh[0]]) == ('var', G) and not (f.region(n['i']) - f.region(adds[0]['i'])) and \
                        f.can_reach_forward(n['i'], adds[0]['i']):
                    grown.add(strip_cast(tt.t(a[gh[1]])))
            if grown != set(aa):
                why = 'the graph is not grown to index + 1 under exactly `index >= getSize()` for both indices of the record ' \
                      'before the insertion' + (' (a growth step depends on a further condition, e.g. an else-branch of the '
                                                'other index\'s test: a record whose both endpoints are new is under-sized)'
                                                if extra_guard else '')
        if why:
            res.fail(Finding('F-IO.GROW', disp, 'growth schema', f.where(), why))
        else:
            res.ok(dict(function=disp, schema='if (v >= g.getSize()) g.resize(v+1) for both indices; g.addEdge(v1, v2, ...)')
                   if len(res.samples) < 6 else None, fn=disp)
    res.require_sites(20 if which == 'both' else 10, 'loaders')
    return res


def _growth_paths(m, f, tt, G, V, add, subs):
    """Path-sensitive version of the growth rule for the text loader: walk every path of one record from the point
    where both indices are known to the insertion, tracking  lt(x): x < graph.getSize(),  cover: names.size() >=
    graph.getSize()  (true at the start of every record: both start empty and every path must restore it).
    True: every subscript of the name table and the insertion are in range on every path and cover is restored;
    a string: a definite out-of-range path; None: not decided."""
    from .rules_wl import implied
    aa = [strip_cast(tt.t(a)) for a in add['args'][:2]]
    if any(a[0] != 'var' for a in aa):
        return None
    start = None
    for v in aa:
        defs = [d for d in var_defs(f, v[1])]
        if len(defs) != 1:
            return None
        pos = f.cfg_pos(defs[0][0])
        if pos is None:
            return None
        if start is None or f.can_reach_forward(f.blocks[start[0]].elems[start[1]], defs[0][0]):
            start = pos
    addpos = f.cfg_pos(add['i'])
    if addpos is None:
        return None
    maxdefs = {}
    for n in f.nodes:
        if n['k'] == 'DeclStmt':
            for ix, d in enumerate(n['decls']):
                if ix < len(n['c']) and n['c'][ix] >= 0:
                    t0 = tt.t(n['c'][ix])
                    if t0[0] == 'call' and t0[1] == 'std::max':
                        maxdefs[('var', d)] = [strip_cast(x) for x in t0[2]]

    def close(lt):
        out = set(lt)
        for L, parts in maxdefs.items():
            if L in out:
                out |= set(parts)
        return out

    def size_of(t, who):
        t = strip_cast(t)
        return t[0] == 'mcall' and t[1].endswith(('::getSize', '::size')) and t[2] == ('var', who)

    def plus1(t):
        t = strip_cast(t)
        if t[0] == 'bin' and t[1] == '+' and strip_cast(t[3]) == ('int', 1):
            return strip_cast(t[2])
        return None
    sub_nodes = {sn['i']: strip_cast(tt.t(sn['args'][1])) for sn in subs}
    verdict = {'bad': None, 'unknown': False, 'paths': 0}

    def walk(b, ix, st, depth):
        lt, ge, cover, sizeG, grown = st
        if depth > 60 or verdict['paths'] > 400:
            verdict['unknown'] = True
            return
        blk = f.blocks[b]
        for e in blk.elems[ix:]:
            n = f.nodes[e]
            if n['k'] == 'CXXMemberCallExpr' and 'callee' in n and f.unit.decl(n['callee'])['name'] == 'resize':
                obj = tt.t(n['obj'])
                arg = n['args'][0]
                x = plus1(tt.t(arg))
                if obj == ('var', G):
                    if x is not None and x in ge:
                        lt = close(lt | {x})
                        grown = grown | {x}
                    elif x is not None:
                        lt = close({x})
                    else:
                        lt = set()
                    ge = set()
                    cover = False
                    sizeG = x
                elif obj == ('var', V):
                    if size_of(tt.t(arg), G) or (x is not None and x == sizeG):
                        cover = True
                        grown = set()
                    elif x is not None and x in ge and cover:
                        pass            # names grow beyond the graph: still covering
                    else:
                        cover = False
            if e in sub_nodes:
                y = sub_nodes[e]
                if not (y in lt and cover):
                    if y in grown and not cover:
                        verdict['bad'] = verdict['bad'] or (
                            'on the path where `%s` is a new largest index the graph is grown to hold it but the name table is '
                            'not (%s): `%s` writes past the end of the table' % (show(y, f.unit), f.nloc(e), f.expr_text(e)[:40]))
                    else:
                        verdict['unknown'] = True
            if e == add['i']:
                if not all(a in lt for a in aa):
                    verdict['unknown'] = True
                if not cover:
                    if grown:
                        verdict['bad'] = verdict['bad'] or (
                            'on the path where `%s` is a new largest index the graph is grown but the name table is not resized '
                            'before the record is inserted (%s): the table returned to the caller is shorter than the graph and the '
                            'next record naming that vertex writes past its end' % (show(sorted(grown)[0], f.unit), f.nloc(e)))
                    else:
                        verdict['unknown'] = True
                verdict['paths'] += 1
                return
        succs = [(si, sx) for si, sx in enumerate(blk.succs) if sx is not None and sx >= 0]
        if not succs:
            return
        atom = f.branch_atom(b) if len(blk.succs) > 1 else None
        for si, sx in succs:
            lt2, ge2 = set(lt), set(ge)
            if atom is not None:
                for (at, pol) in implied(tt.t(atom), si == 0):
                    at2 = at
                    if at2[0] == 'bin' and at2[1] in ('>=', '<') and size_of(at2[3], G):
                        x = strip_cast(at2[2])
                        if (at2[1] == '>=') == pol:
                            ge2.add(x)
                        else:
                            lt2 = close(lt2 | {x})
            if not f.can_reach_forward(f.blocks[sx].elems[0] if f.blocks[sx].elems else add['i'], add['i']) and \
                    not (f.blocks[sx].elems and add['i'] in f.blocks[sx].elems):
                # leaves the record (continue / error exit): nothing to prove on it
                if not any(f.can_reach_forward(e2, add['i']) for e2 in f.blocks[sx].elems[:1]):
                    continue
            walk(sx, 0, (lt2, ge2, cover, sizeG, set(grown)), depth + 1)
    walk(start[0], start[1] + 1, (set(), set(), True, None, set()), 0)
    if verdict['bad']:
        return verdict['bad']
    if verdict['unknown'] or verdict['paths'] == 0:
        return None
    return True


def _grow_helper(g):
    """(graph parameter index, vertex parameter index) when g's body is  if (v >= G.getSize()) G.resize(v + 1);  only"""
    if g.is_lambda or len(g.params) != 2:
        return None
    tt = Terms(g)
    calls = [n for n in g.nodes if n['k'] in ('CXXMemberCallExpr', 'CallExpr', 'CXXOperatorCallExpr', 'CXXConstructExpr')]
    rs = [n for n in calls if n['k'] == 'CXXMemberCallExpr' and 'callee' in n and g.unit.decl(n['callee'])['name'] == 'resize']
    gs = [n for n in calls if n['k'] == 'CXXMemberCallExpr' and 'callee' in n and g.unit.decl(n['callee'])['name'] == 'getSize']
    if len(rs) != 1 or len(gs) != 1 or len(calls) != 2:
        return None
    if any(n['k'] in ('BinaryOperator', 'CompoundAssignOperator') and n.get('op', '').endswith('=') and n['op'] not in ('>=', '<=', '==', '!=')
           for n in g.nodes) or any(n['k'] in ('ForStmt', 'WhileStmt', 'DoStmt', 'CXXForRangeStmt') for n in g.nodes):
        return None
    obj = tt.t(rs[0]['obj'])
    ga = strip_cast(tt.t(rs[0]['args'][0]))
    if obj[0] != 'var' or obj[1] not in g.params:
        return None
    if not (ga[0] == 'bin' and ga[1] == '+' and strip_cast(ga[3]) == ('int', 1)):
        return None
    v = strip_cast(ga[2])
    if v[0] != 'var' or v[1] not in g.params or v == obj:
        return None
    deps = g.region(rs[0]['i'])
    if len(deps) != 1:
        return None
    dep = list(deps)[0]
    t = tt.t(g.branch_atom(dep[0]))
    if t[0] == 'bin' and t[1] == '>=' and strip_cast(t[2]) == v and t[3][0] == 'mcall' and t[3][1].endswith('::getSize') and \
            t[3][2] == obj and dep[1] == 0:
        return (g.params.index(obj[1]), g.params.index(v[1]))
    return None


# ------------------------------------------------------------------------------------------------
def _chain_args(f, tt, nid):
    """operands of a chain  s << a << b << c  in order (excluding the stream)"""
    out = []
    n = f.nodes[f.strip(nid)]
    while n['k'] in ('CXXOperatorCallExpr', 'CallExpr') and 'callee' in n and f.unit.decl(n['callee']).get('op') == '<<' \
            or (n['k'] == 'CXXOperatorCallExpr' and 'callee' in n and f.unit.decl(n['callee'])['name'] == 'operator<<'):
        a = n['args']
        out.append(a[1])
        n = f.nodes[f.strip(a[0])]
    out.reverse()
    return out, n


def _adjacency_walk(m, f, tt, graphs, exact=True):
    """`for (i : graph) for (j : graph.getOutNeighbours(i)) { [guard] write(i, j) }` - an enumeration of the edges that does not go
    through edges().  Returns None when the function has no such nest, else (first, second, body nodes, why) where `why` is set
    when the guards do not keep exactly the entries edges() yields: every list entry for directed storage, one of the two
    mirrored entries (and the self-loop entry) for undirected storage."""
    from .rules_pair import region_atoms, eval_order, ORDERINGS
    from .rules_val import graph_like
    from .model import UNDIRECTED_FAMILY
    for on in f.nodes:
        if on['k'] != 'CXXForRangeStmt' or not (tt.t(on['rangeinit']) in graphs or graph_like(f, tt.t(on['rangeinit']))):
            continue
        i = ('var', on['loopvar'])
        for inn in f.nodes:
            if inn['k'] != 'CXXForRangeStmt' or inn['i'] not in f.descendants(on['body']):
                continue
            r = tt.t(inn['rangeinit'])
            if not (r[0] == 'mcall' and r[1].endswith(('::getOutNeighbours', '::getNeighbours')) and r[2] in graphs and r[3] == (i,)):
                continue
            j = ('var', inn['loopvar'])
            body = set(f.descendants(inn['body']))
            writes = [x for x in sorted(body) if f.nodes[x]['k'] in ('CallExpr', 'CXXOperatorCallExpr') and 'callee' in f.nodes[x]
                      and (f.unit.decl(f.nodes[x]['callee'])['tname'] == WRITE or f.unit.decl(f.nodes[x]['callee'])['name'] == 'operator<<')]
            if not writes:
                return (i, j, body, 'expected the records to be written inside the neighbour loop')
            gt = f.unit.decl(graphs and list(graphs)[0][1]).get('ctype', '') if graphs else ''
            undirected = any(short_u in f.targs or short_u in gt for short_u in ('UndirectedGraph', 'UndirectedMultigraph', 'UndirectedWeightedGraph'))
            from .rules_struct import path_eval
            from .rules_pair import Ctx as _PCtx
            pctx = _PCtx(m, f)
            why = None
            kept = {}
            for (va, vb) in ORDERINGS:
                for rev in ((1,) if undirected else (0, 1)):
                    env = {i: va, j: vb}
                    for n2 in f.nodes:
                        if n2['i'] in body and n2['k'] == 'CXXMemberCallExpr':
                            st = tt.t(n2['i'])
                            if st[0] == 'mcall' and st[1].endswith('::hasEdge') and st[2] in graphs and len(st[3]) >= 2:
                                if st[3][:2] == (i, j):
                                    env[st] = 1
                                elif st[3][:2] == (j, i):
                                    env[st] = rev
                    start = f.cfg_pos(inn['loopvarstmt']) if inn.get('loopvarstmt', -1) >= 0 else None
                    ok = path_eval(pctx, writes[0], env, start_block=start[0]) if start else None
                    if ok is None:
                        return (i, j, body, 'expected the guards of the record to be decidable from the order of the two endpoints and '
                                            'edge existence')
                    kept[(va, vb, rev)] = ok
            if undirected:
                lt, gt_, eq = kept[(0, 1, 1)], kept[(1, 0, 1)], kept[(1, 1, 1)]
                if not eq:
                    why = 'the self-loop entry (i == j) is not written'
                elif lt == gt_ and (exact or not lt):
                    # (`exact`: the file must hold one record per edge - the binary format; the text loader's unforced
                    # insertion makes a second mention of an undirected edge harmless)
                    why = 'for an undirected graph both mirrored entries (i,j) and (j,i) are %s: every edge is written %s' % (
                        'kept' if lt else 'skipped', 'twice' if lt else 'never')
            else:
                missing = [k for k, v in kept.items() if not v]
                if missing:
                    va, vb, rev = missing[0]
                    why = 'for a directed graph the entry (i,j) with %s is skipped%s: that edge is missing from the file' % (
                        {(0, 1): 'i < j', (1, 1): 'i == j', (1, 0): 'i > j'}[(va, vb)], ' when the reverse edge (j,i) exists' if rev else '')
            return (i, j, body, why)
    return None


def rule_index_width(m):
    """F-IO.WIDTH: the vertex index type is 32 bits wide and unsigned."""
    res = RuleResult('F-IO.WIDTH', 'VertexIndex is a 32-bit unsigned integer type on this target: the binary routines write and read '
                                   'indices with sizeof(VertexIndex) bytes, and the documented format has 32-bit fields')
    seen = set()
    for f in m.fns:
        for ix, pt in enumerate(f.ptypes):
            if pt.replace('const ', '').replace('&', '').strip() in ('BaseGraph::VertexIndex', 'VertexIndex') and ix < len(f.cptypes):
                ct = f.cptypes[ix].replace('const ', '').replace('&', '').strip()
                if ct in seen:
                    continue
                seen.add(ct)
                res.sites += 1
                if ct == 'unsigned int':
                    res.ok(dict(alias='BaseGraph::VertexIndex', canonical=ct, bits=32), fn=f.display())
                else:
                    res.fail(Finding('F-IO.WIDTH', 'BaseGraph::VertexIndex', 'index type', f.where(),
                                     'VertexIndex is `%s` on this target, not a 32-bit unsigned integer: writeBinaryValue / '
                                     'readBinaryValue transfer sizeof(VertexIndex) bytes per index, so records are not the documented '
                                     '4 + 4 (+ label) bytes, files of other hosts and hand-made files in the documented format are misread'
                                     % ct))
    res.require_sites(1, 'uses of the alias VertexIndex')
    return res


def rule_schema_binary(m):
    res = RuleResult('F-IO.SCHEMA.bin', 'binary writer and loader agree on the record: [u32 source, u32 destination, '
                                        'label] with the default label codec write/readBinaryValue<EdgeLabel>; both '
                                        'primitives transfer sizeof(T) bytes of the value and swap under the same '
                                        'big-endian flag; nothing else goes to the stream')
    # ---- primitives
    for tn, method in ((WRITE, 'write'), (READ, 'read')):
        for f in io_functions(m, tn):
            res.sites += 1
            tt = Terms(f)
            disp = f.display()
            val = f.params[1]
            vt = f.cptypes[1].replace('&', '').strip()
            xfers = [n for n in f.nodes if n['k'] == 'CXXMemberCallExpr' and 'callee' in n and
                     f.unit.decl(n['callee'])['name'] == method and tt.t(n['obj']) == ('var', f.params[0])]
            swaps = [n for n in f.nodes if n['k'] == 'CallExpr' and 'callee' in n and
                     f.unit.decl(n['callee'])['tname'] == IO + 'swapBytes']
            why = None
            if len(xfers) == 1 and len(swaps) == 0:
                why = 'the value is transferred without any byte swap: on a big-endian host the bytes are not in the little-endian ' \
                      'file order (the other primitive swaps, so files written and read on such a host do not round-trip either)'
            elif len(xfers) != 1 or len(swaps) != 1:
                why = 'expected exactly one stream.%s and one swapBytes call' % method
            else:
                a = [tt.t(x) for x in xfers[0]['args']]
                ptr, cnt = a[0], strip_cast(a[1])
                if not (ptr[0] == 'cast' and ptr[2] == ('un', '&', False, ('var', val))):
                    why = 'the buffer is not the address of the value'
                elif not (cnt[0] == 'sizeof' and cnt[1] == vt):
                    why = 'the byte count is not sizeof(T) of the value (found %s for %s)' % (cnt[1:], vt)
                elif tt.t(swaps[0]['args'][0]) != ('var', val):
                    why = 'swapBytes is not applied to the value'
                else:
                    okflag = False
                    other = None
                    probe = IO + '_isSystemBigEndian'
                    for dep in f.region(swaps[0]['i']):
                        t = tt.t(f.branch_atom(dep[0]))
                        for (at, pol) in _implied(t, dep[1] == 0):
                            at = strip_conv_call(at)
                            if at[0] == 'global' and pol:
                                gv = [v for v in f.unit.vars if v['tname'] == at[1]]
                                if gv and gv[0].get('constq') and gv[0].get('initcallee') == probe:
                                    okflag = True
                            if at[0] == 'call' and pol and at[1] == probe:
                                okflag = True
                            elif at[0] == 'call' and pol and at[1].startswith(IO) and not at[2]:
                                other = at[1]
                    if not okflag and other:
                        why = 'expected the byte swap to be controlled by the endianness probe or by a constant initialised from ' \
                              'it (found a call of %s)' % other.replace(NS, '')
                    elif not okflag:
                        why = 'the byte swap is not controlled by the endianness probe (a const flag initialised from ' \
                              '_isSystemBigEndian(), or the call itself)'
                    elif method == 'write' and not f.node_dominates(swaps[0]['i'], xfers[0]['i']) and \
                            not f.can_reach_forward(swaps[0]['i'], xfers[0]['i']):
                        why = 'the swap does not precede the write'
                    elif method == 'write' and f.can_reach_forward(xfers[0]['i'], swaps[0]['i']):
                        why = 'the swap follows the write'
                    elif method == 'read' and not f.can_reach_forward(xfers[0]['i'], swaps[0]['i']):
                        why = 'the swap does not follow the read'
            if why:
                res.fail(Finding('F-IO.SCHEMA.bin', disp, method + 'BinaryValue primitive', f.where(), why))
            else:
                res.ok(dict(function=disp, bytes='sizeof(%s)' % vt, swap='under SYSTEM_IS_BIG_ENDIAN, %s the transfer'
                            % ('before' if method == 'write' else 'after')) if len(res.samples) < 4 else None, fn=disp)
    # ---- swapBytes and the endianness probe
    for f in io_functions(m, IO + 'swapBytes'):
        res.sites += 1
        tt = Terms(f)
        rc = [n for n in f.nodes if n['k'] == 'CallExpr' and 'callee' in n and
              f.unit.decl(n['callee'])['tname'] in ('std::reverse_copy', 'std::reverse', 'std::copy')]
        ok = len(rc) == 1
        shape_known = ok
        if ok:
            a = [tt.t(x) for x in rc[0]['args']]
            cal = f.unit.decl(rc[0]['callee'])['tname']
            inplace = cal == 'std::reverse'
            # std::copy over the reversed source range is the same permutation as std::reverse_copy over the forward one
            b_, e_ = ('::rbegin', '::rend') if cal == 'std::copy' else ('::begin', '::end')
            ok = a[0][0] == 'mcall' and a[0][1].endswith(b_) and a[1][0] == 'mcall' and a[1][1].endswith(e_) and \
                a[0][2] == a[1][2] and (inplace or (a[2][0] == 'mcall' and a[2][1].endswith('::begin') and a[2][2] != a[0][2]))
            assigns = [tt.t(n['i']) for n in f.nodes if n['k'] == 'BinaryOperator' and n['op'] == '=' or
                       (n['k'] == 'CXXOperatorCallExpr' and 'callee' in n and f.unit.decl(n['callee']).get('op') == '=')]
            val = ('var', f.params[0])
            ok = ok and any(t[0] == 'bin' and t[3] == val for t in assigns) and any(t[0] == 'bin' and t[2] == val for t in assigns)
        if ok:
            res.ok(dict(function=f.display(), shape='src.val = v; reverse_copy(src.raw -> dst.raw); v = dst.val')
                   if len(res.samples) < 6 else None, fn=f.display())
        else:
            res.fail(Finding('F-IO.SCHEMA.bin', f.display(), 'swapBytes', f.where(),
                             'swapBytes does not reverse all sizeof(T) bytes of the value' if shape_known else
                             'expected swapBytes to reverse the bytes with one std::reverse_copy / std::reverse / std::copy over rbegin..rend'))
    for f in io_functions(m, IO + '_isSystemBigEndian'):
        res.sites += 1
        tt = Terms(f)
        rets = [n for n in f.nodes if n['k'] == 'ReturnStmt']
        t = tt.t(f.children(rets[0]['i'])[0]) if len(rets) == 1 else ('none',)
        lits = [n.get('v') for n in f.nodes if n['k'] == 'IntegerLiteral']
        ok = t[0] == 'bin' and t[1] == '==' and strip_cast(t[3]) == ('int', 1) and t[2][0] == 'idx' and \
            strip_cast(t[2][2]) == ('int', 0) and str(0x01020304) in lits
        if ok:
            res.ok(dict(function=f.display(), shape='u32 0x01020304 viewed as bytes: [0] == 1'), fn=f.display())
        else:
            res.fail(Finding('F-IO.SCHEMA.bin', f.display(), 'endianness probe', f.where(),
                             '_isSystemBigEndian does not test the first byte of 0x01020304 against 1'))
    # ---- writer / loader records
    records = {}
    for f in io_functions(m, WRITERS_BIN):
        res.sites += 1
        tt = Terms(f)
        disp = f.display()
        sd, _ = _stream_var(f)
        outer = f
        graphs = {('var', f.params[0])}
        functors = {}
        if sd is None:
            # the documented writer may hand (graph, file name, label functor) to a helper that owns stream and loop
            hs = []
            for n in f.nodes:
                if n['k'] == 'CallExpr' and 'callee' in n and f.unit.decl(n['callee'])['tname'].startswith(IO):
                    h = f.unit.function_for_decl(n['callee'])
                    a = [tt.t(x) for x in n['args']]
                    if h is not None and ('var', f.params[0]) in a and len(a) == len(h.params):
                        hs.append((h, a))
            if len(hs) == 1 and _stream_var(hs[0][0])[0] is not None:
                h, a = hs[0]
                for prm, arg in zip(h.params, a):
                    if arg == ('var', outer.params[0]):
                        graphs.add(('var', prm))
                    while arg[0] in ('ctor', 'cast') and arg[2] and (arg[0] == 'cast' or len(arg[2]) == 1):
                        arg = arg[2][0] if arg[0] == 'ctor' else arg[2]
                    if arg[0] == 'lambda':
                        functors[('var', prm)] = f.unit.function_for_decl(arg[1])
                f = h
                tt = Terms(f)
                sd, _ = _stream_var(f)
        loops = [n for n in f.nodes if n['k'] == 'CXXForRangeStmt' and tt.t(n['rangeinit'])[0] == 'mcall' and
                 tt.t(n['rangeinit'])[1].endswith('::edges') and tt.t(n['rangeinit'])[2] in graphs]
        why = None
        seq = []
        walk = _adjacency_walk(m, f, tt, graphs) if len(loops) != 1 else None
        if len(loops) != 1 and walk is None:
            why = 'expected one loop over graph.edges() in the writer (or in the one helper it hands graph and file name to)'
        elif walk is not None and walk[3]:
            why = walk[3]
        else:
            if walk is not None:
                first, second, body = walk[0], walk[1], walk[2]
            else:
                e = ('var', loops[0]['loopvar'])
                body = set(f.descendants(loops[0]['body']))
                first, second = ('member', e, 'std::pair::first'), ('member', e, 'std::pair::second')

            def label_ok(lab):
                return lab[0] == 'mcall' and lab[1].endswith('::getEdgeLabel') and lab[2] in graphs and lab[3][:2] == (first, second)
            helper_calls = set()
            for nid in sorted(body):
                n = f.nodes[nid]
                if n['k'] == 'CallExpr' and 'callee' in n and f.unit.decl(n['callee'])['tname'] == WRITE:
                    a = [tt.t(x) for x in n['args']]
                    seq.append(('prim', 'first' if a[1] == first else 'second' if a[1] == second else '?',
                                f.unit.function_for_decl(n['callee']).targs if f.unit.function_for_decl(n['callee']) else '?'))
                elif n['k'] == 'CallExpr' and 'callee' in n and f.unit.decl(n['callee'])['tname'].startswith(IO) and \
                        f.unit.function_for_decl(n['callee']) is not None and \
                        ('var', sd) in [tt.t(x) for x in n['args']]:
                    # a record helper: a straight-line io function that receives the stream and writes fields of its arguments
                    from .rules_pair import subst
                    H = f.unit.function_for_decl(n['callee'])
                    htt = Terms(H)
                    a = [tt.t(x) for x in n['args']]
                    sub = {('var', prm): arg for prm, arg in zip(H.params, a)}
                    hs = [('var', prm) for prm, arg in zip(H.params, a) if arg == ('var', sd)]
                    inner = []
                    straight = not any(x['k'] in ('IfStmt', 'ForStmt', 'WhileStmt', 'DoStmt', 'CXXForRangeStmt', 'SwitchStmt',
                                                  'ConditionalOperator', 'CXXTryStmt', 'LambdaExpr') for x in H.nodes)
                    for hn in H.nodes:
                        if hn['k'] == 'CallExpr' and 'callee' in hn and H.unit.decl(hn['callee'])['tname'] == WRITE:
                            ha = [subst(htt.t(x), sub) for x in hn['args']]
                            g2 = H.unit.function_for_decl(hn['callee'])
                            inner.append(('prim', 'first' if ha[1] == first and ha[0] == ('var', sd) else
                                          'second' if ha[1] == second and ha[0] == ('var', sd) else '?', g2.targs if g2 else '?'))
                    uses = [x for x in H.nodes if x['k'] == 'DeclRefExpr' and len(hs) == 1 and ('var', x['d']) == hs[0]]
                    if not straight or len(hs) != 1 or len(uses) != len(inner):
                        inner.append(('prim', '?', '?'))
                    seq.extend(inner)
                    helper_calls.add(nid)
                elif n['k'] == 'CXXOperatorCallExpr' and 'callee' in n and f.unit.decl(n['callee']).get('op') == '()':
                    a = [tt.t(x) for x in n['args']]
                    if a and a[0] in functors and functors[a[0]] is not None:
                        # a label functor supplied by the documented writer: read its body with (stream, edge) substituted
                        from .rules_pair import subst
                        L = functors[a[0]]
                        ltt = Terms(L)
                        sub = {('var', prm): arg for prm, arg in zip(L.params, a[1:])}
                        sparam = [('var', prm) for prm, arg in zip(L.params, a[1:]) if arg == ('var', sd)]
                        inner = []
                        for ln in L.nodes:
                            if ln['k'] == 'CXXOperatorCallExpr' and 'callee' in ln and L.unit.decl(ln['callee']).get('op') == '()':
                                la = [subst(ltt.t(x), sub) for x in ln['args']]
                                if len(la) == 3 and la[1] == ('var', sd):
                                    inner.append(('codec', 'label(first,second)' if label_ok(la[2]) else '?', ''))
                        uses = [x for x in L.nodes if x['k'] == 'DeclRefExpr' and sparam and ('var', x['d']) == sparam[0]]
                        if len(uses) != len(inner) or any(x['k'] in ('CallExpr', 'CXXMemberCallExpr') for x in L.nodes
                                                          if 'callee' in x and 'getEdgeLabel' not in L.unit.decl(x['callee'])['name']):
                            inner.append(('codec', '?', ''))
                        seq.extend(inner)
                    elif len(a) == 3 and a[1] == ('var', sd):
                        seq.append(('codec', 'label(first,second)' if label_ok(a[2]) else '?', ''))
            # every use of the stream is one of: decl, verify, these calls
            others = [n for n in f.nodes if n['k'] == 'DeclRefExpr' and n['d'] == sd and n['i'] in body and
                      not any(n['i'] in f.descendants(c) for c in body if f.nodes[c]['k'] in ('CallExpr', 'CXXOperatorCallExpr')
                              and 'callee' in f.nodes[c] and (f.unit.decl(f.nodes[c]['callee'])['tname'] == WRITE or
                                                              c in helper_calls or
                                                              f.unit.decl(f.nodes[c]['callee']).get('op') == '()'))]
            want = [('prim', 'first'), ('prim', 'second')] + ([] if _is_nolabel(outer) else [('codec', 'label(first,second)')])
            if [s[:2] for s in seq] != want:
                why = 'the record written is %s, expected %s' % ([s[:2] for s in seq], want)
            elif others:
                why = 'something else is written to the binary stream inside the record loop'
            elif len({s[2] for s in seq if s[0] == 'prim'}) != 1 or 'unsigned int' not in seq[0][2]:
                why = 'source and destination are not both written as 32-bit unsigned integers (%s)' % [s[2] for s in seq]
            # nothing written outside the loop
            outside = [n for n in f.nodes if n['k'] == 'DeclRefExpr' and n['d'] == sd and n['i'] not in body and
                       not any(n['i'] in f.descendants(o['i']) for o in f.nodes if o['k'] == 'CXXMemberCallExpr' and 'callee' in o and
                               f.unit.decl(o['callee'])['name'] == 'open')]
            if not why and len(outside) > 1:   # the verifyStreamOpened argument
                why = 'the stream is written outside the record loop (header or trailer)'
        f = outer
        if why:
            res.fail(Finding('F-IO.SCHEMA.bin', disp, 'writer record', f.where(), why))
        else:
            records.setdefault(f.targs, {})['w'] = [s[:2] for s in seq]
            res.ok(dict(function=disp, record=[s[1] for s in seq], index_type=seq[0][2]) if len(res.samples) < 10 else None, fn=disp)
    for f in io_functions(m, LOADER_BIN):
        res.sites += 1
        tt = Terms(f)
        disp = f.display()
        sd, _ = _stream_var(f)
        reads = sorted(_read_calls(f, tt, sd), key=lambda r: r[0])
        adds = [n for n in f.nodes if n['k'] == 'CXXMemberCallExpr' and 'callee' in n and f.unit.decl(n['callee'])['name'] == 'addEdge']
        why = None
        want = 2 if _is_nolabel(f) else 3
        if len(adds) != 1 or len(reads) != want:
            why = 'expected %d reads and one insertion per record' % want
        else:
            def exec_key(r):
                return -sum(1 for o in reads if o is not r and f.can_reach_forward(r[0], o[0]))
            reads = sorted(reads, key=exec_key)
            order = [r[1] for r in reads]
            aa = [tt.t(a) for a in adds[0]['args']]
            exp = [('var', v) for v in order]
            if aa[:want] != exp:
                why = 'the fields read (%s) are not passed to addEdge in the order source, destination, label' % \
                      [f.unit.decl(v)['name'] for v in order]
            kinds = [r[2] for r in reads]
            if not why and kinds != ['readBinaryValue', 'readBinaryValue'] + ([] if _is_nolabel(f) else ['fromBinary']):
                why = 'the record is not read as [readBinaryValue, readBinaryValue, fromBinary]'
            if not why:
                ts = {f.unit.decl(v)['ctype'] for v in order[:2]}
                if ts != {'unsigned int'}:
                    why = 'source and destination are not read into 32-bit unsigned integers'
            if not why:
                cd = f.unit.decl(adds[0]['callee'])
                if not (cd.get('cptypes') and cd['cptypes'][-1] == 'bool' and len(aa) == len(cd['cptypes']) and aa[-1] == ('bool', True)):
                    why = 'the record is not inserted with force=true: a repeated record (parallel edge) of the file is dropped ' \
                          'silently, so the loaded graph has fewer edges than the file has records'
        if why:
            res.fail(Finding('F-IO.SCHEMA.bin', disp, 'loader record', f.where(), why))
        else:
            res.ok(dict(function=disp, record=['first', 'second'] + ([] if _is_nolabel(f) else ['label'])) if len(res.samples) < 14 else None,
                   fn=disp)
    # ---- default codecs (as written in the declarations)
    seen = set()
    for u in m.p.units:
        for p in u.patternfns:
            for key, want in ((WRITERS_BIN, 'writeBinaryValue<EdgeLabel>'), (LOADER_BIN, 'readBinaryValue<EdgeLabel>')):
                if p['tname'] != key:
                    continue
                defs = [d for d in (p.get('tdefaults') or p.get('defaults') or []) if d]
                if not defs:
                    continue
                k = (key, tuple(defs))
                if k in seen:
                    continue
                seen.add(k)
                res.sites += 1
                if defs == [want]:
                    res.ok(dict(function=key.split('::')[-1], default_codec=want))
                else:
                    res.fail(Finding('F-IO.SCHEMA.bin', key.replace(NS, ''), 'default codec', u.fmt_loc(p['loc']),
                                     'the default label codec is `%s`, expected `%s`: writer and loader defaults would not '
                                     'agree on the label bytes' % (defs, want)))
    res.require_sites(20, 'schema facts')
    return res


def rule_schema_text(m):
    res = RuleResult('F-IO.SCHEMA.text', 'text writer and loader agree on the format tables: every non-record line starts '
                                         'with the loader\'s comment character, the separator is in the loader\'s delimiter '
                                         'set (which contains space and tab), token 0 -> source, token 1 -> destination, rest '
                                         '-> label, names[index(token_k)] = token_k; VertexCountMapper numbers names in '
                                         'order of first appearance')
    # loader tables
    comment = None
    delims = None
    for f in io_functions(m, LOADER_TEXT):
        res.sites += 1
        tt = Terms(f)
        disp = f.display()
        why = None
        # comment test: line[0] == '#'  -> continue
        cm = None
        from .rules_pair import Ctx as _PCtx2
        from .rules_val import _conjuncts as _cj
        _pc2 = _PCtx2(m, f)
        for n in f.nodes:
            if n['k'] == 'IfStmt':
                t = _pc2.unconst(tt.t(n['cond']))
                hit = None
                rest = []
                for c in _cj(strip_conv_call(t)):
                    c = strip_conv_call(c)
                    l = strip_cast(c[2]) if c[0] == 'bin' else None
                    first_char = l is not None and ((l[0] == 'idx' and strip_cast(l[2]) == ('int', 0)) or
                                                    (l[0] == 'mcall' and l[1].endswith('::front') and not l[3]))
                    if c[0] == 'bin' and c[1] == '==' and first_char and strip_cast(c[3])[0] == 'int':
                        hit = (c, l[1] if l[0] == 'idx' else l[2])
                    elif c[0] == 'bin' and c[1] == '==' and l is not None and l[0] == 'mcall' and l[1].split('::')[-1] in ('find', 'rfind') \
                            and strip_cast(c[3]) == ('int', 0) and l[3] and strip_cast(l[3][0])[0] == 'int':
                        # starts-with idioms: s.find(c) == 0 and s.rfind(c, 0) == 0 are right; s.rfind(c) == 0 (search from the
                        # end) is true only when the LAST occurrence of c is at column 0
                        pos = strip_cast(l[3][1]) if len(l[3]) > 1 else None
                        from_zero = pos == ('int', 0)
                        if l[1].endswith('::rfind') and not from_zero:
                            why = 'the comment test `%s` searches backwards from the end of the line: a comment line that contains ' \
                                  'the comment character again is not recognised and is parsed as an edge' % show(c, f.unit)[:50]
                        hit = (('bin', '==', l, strip_cast(l[3][0])), l[2])
                    else:
                        rest.append(c)
                if hit is None:
                    continue
                line = hit[1]
                # the other conjuncts may only say that the line is not empty
                def _nonempty(c):
                    return (c[0] == 'un' and c[1] == '!' and c[3][0] == 'mcall' and c[3][1].endswith('::empty') and c[3][2] == line) or \
                        (c[0] == 'bin' and c[1] in ('!=', '>') and c[2][0] == 'mcall' and c[2][1].endswith(('::size', '::length')) and
                         c[2][2] == line and strip_cast(c[3]) == ('int', 0))
                if all(_nonempty(c) for c in rest):
                    cm = chr(strip_cast(hit[0][3])[1])
                    then = f.descendants(n['then'])
                    if not any(f.nodes[x]['k'] == 'ContinueStmt' for x in then):
                        why = 'a comment line is not skipped'
        if cm is None:
            why = why or 'expected a comment-character test `line[0] == <char>` followed by continue'
        comment = cm
        # the line loop ends on the failure of getline, not on eof: the last line of a file without a final newline is
        # delivered together with eofbit
        for n in f.nodes:
            if n['k'] == 'CallExpr' and 'callee' in n and f.unit.decl(n['callee'])['tname'] == 'std::getline':
                gt = tt.t(n['i'])
                cond = None
                for a in f.ancestors(n['i']):
                    an = f.nodes[a]
                    if an['k'] in ('WhileStmt', 'ForStmt', 'IfStmt', 'DoStmt') and an.get('cond', -1) >= 0 and \
                            (n['i'] == an['cond'] or n['i'] in f.descendants(an['cond'])):
                        cond = an['cond']
                        break
                if cond is None:
                    why = why or 'expected the result of std::getline to be tested by the line loop'
                    continue
                sd0, _d0 = _stream_var(f)
                ga = [tt.t(x) for x in n.get('args', [])]
                if sd0 is not None and ga and strip_conv_call(ga[0]) != ('var', sd0):
                    why = why or ('the line is read with `%s`: what is extracted from the stream before std::getline (leading '
                                  'whitespace with std::ws) is no longer part of the line, so the comment test and the tokeniser do not '
                                  'see the line as it is in the file' % f.expr_text(n['i'])[:60])
                for c in _cj(strip_conv_call(tt.t(cond))):
                    c = strip_conv_call(c)
                    neg = False
                    while c[0] == 'un' and c[1] == '!':
                        c = strip_conv_call(c[3])
                        neg = not neg
                    if gt not in list(subterms(c)):
                        continue
                    if c == gt:
                        continue                    # while (getline(...)) / if (!getline(...)) break
                    if c[0] == 'mcall' and strip_conv_call(c[2]) == gt and c[1].endswith('::fail'):
                        continue
                    if c[0] == 'mcall' and strip_conv_call(c[2]) == gt and c[1].endswith(('::good', '::eof')):
                        why = why or ('the line loop tests `%s`: std::getline sets eofbit when the last line has no final newline, so '
                                      'that line is read but never processed (its edge is dropped without an error)'
                                      % f.expr_text(cond)[:60])
                    else:
                        why = why or 'expected the line loop to test the stream returned by std::getline'
        # tokeniser call and default delimiters
        tok = [n for n in f.nodes if n['k'] == 'CallExpr' and 'callee' in n and
               f.unit.decl(n['callee'])['tname'] == IO + 'findEdgeFromString']
        if len(tok) != 1:
            why = why or 'the line is not tokenised by findEdgeFromString exactly once'
        else:
            ds = [f.nodes[x].get('v') for x in f.descendants(tok[0]['i']) if f.nodes[x]['k'] == 'StringLiteral']
            if not ds and len(tok[0].get('args', [])) >= 2:
                # the delimiter string handed over through a named constant
                dt = strip_cast(_pc2.unconst(tt.t(tok[0]['args'][1])))
                while dt[0] in ('cast', 'conv') and len(dt) > 2 and isinstance(dt[2], tuple):
                    dt = strip_cast(dt[2])
                if dt[0] == 'str':
                    ds = [dt[1]]
            delims = ds[0] if ds else None
            if delims is None or ' ' not in delims or '\t' not in delims:
                why = why or 'the delimiter set of the tokeniser does not contain space and tab'
            tv = None
            for a in f.ancestors(tok[0]['i']):
                if f.nodes[a]['k'] == 'DeclStmt':
                    tv = ('var', f.nodes[a]['decls'][0])
                    break
            if tv is None:
                why = why or 'token array not found'
            else:
                def tokidx(t):
                    t = strip_cast(t)
                    while t[0] in ('call', 'cast') and t[0] == 'call' and t[1] == 'std::move':
                        t = strip_cast(t[2][0])
                    if t[0] == 'idx' and t[1] == tv:
                        return strip_cast(t[2])[1]
                    return None
                # vertex mappers
                vdecl = {}
                order = []
                for n in f.nodes:
                    if n['k'] == 'DeclStmt' and len(n['decls']) == 1 and n['c'] and n['c'][0] >= 0:
                        t = tt.t(n['c'][0])
                        if t[0] == 'mcall' and t[1].endswith('::operator()') and t[2][0] == 'var' and \
                                'std::function<unsigned int' in f.unit.decl(t[2][1]).get('ctype', ''):
                            vdecl[n['decls'][0]] = tokidx(t[3][0])
                            order.append((n['i'], n['decls'][0]))
                adds = [n for n in f.nodes if n['k'] == 'CXXMemberCallExpr' and 'callee' in n and
                        f.unit.decl(n['callee'])['name'] == 'addEdge']
                mcalls = [n for n in f.nodes if n['k'] == 'CXXOperatorCallExpr' and 'callee' in n and
                          f.unit.decl(n['callee']).get('op') == '()' and n.get('args') and tt.t(n['args'][0])[0] == 'var' and
                          'std::function<unsigned int' in f.unit.decl(tt.t(n['args'][0])[1]).get('ctype', '')]
                same_expr = False
                if len(mcalls) == 2:
                    a0 = set(f.ancestors(mcalls[0]['i']))
                    for a in f.ancestors(mcalls[1]['i']):
                        if a in a0:
                            an = f.nodes[a]
                            if an['k'] in ('CallExpr', 'CXXMemberCallExpr', 'CXXOperatorCallExpr', 'BinaryOperator') or \
                                    (an['k'] in ('CXXConstructExpr', 'CXXTemporaryObjectExpr') and not an.get('listinit')):
                                same_expr = True
                            break
                if same_expr:
                    why = why or 'the two vertex-name mappers are evaluated as operands of one expression (`%s`): their order is ' \
                                 'unspecified, so a compiler that evaluates right to left numbers the second name of a line first' % (
                                     f.expr_text(a)[:70])
                elif len(adds) != 1 or len(vdecl) != 2:
                    why = why or 'expected two vertex-name mappings and one insertion per line'
                else:
                    aa = [tt.t(a) for a in adds[0]['args']]
                    src, dst = aa[0], aa[1]
                    if not (src[0] == 'var' and dst[0] == 'var' and vdecl.get(src[1]) == 0 and vdecl.get(dst[1]) == 1):
                        why = why or 'token 0 / token 1 do not become source / destination of the inserted edge'
                    lab = aa[2] if len(aa) > 2 else None
                    if lab is None or not (lab[0] == 'mcall' and lab[1].endswith('::operator()') and tokidx(lab[3][0]) == 2):
                        why = why or 'the rest of the line (token 2) is not what the label parser receives'
                    if len(aa) < 4 or aa[3] != ('bool', True):
                        why = why or 'the loader does not insert with force (a repeated line would be dropped silently)'
                    # mapper calls in separate full expressions, source first
                    order.sort()
                    if [vdecl[d] for _, d in order] != [0, 1]:
                        why = why or 'the two name mappers are not evaluated in the order source, destination'
                    # names[mapper(tok_k)] = tok_k
                    pairs = set()
                    for n in f.nodes:
                        if n['k'] == 'CXXOperatorCallExpr' and 'callee' in n and f.unit.decl(n['callee']).get('op') == '=':
                            t = tt.t(n['i'])
                            l = t[2]
                            if l[0] == 'idx' and l[2][0] == 'var' and l[2][1] in vdecl:
                                pairs.add((vdecl[l[2][1]], tokidx(t[3])))
                    if pairs != {(0, 0), (1, 1)}:
                        why = why or 'the name table does not store names[index(token_k)] = token_k for both tokens (%s)' % sorted(pairs)
        if why:
            res.fail(Finding('F-IO.SCHEMA.text', disp, 'loader tables', f.where(), why))
        else:
            res.ok(dict(function=disp, comment=comment, delimiters=delims, mapping='tok0->source, tok1->destination, rest->label')
                   if len(res.samples) < 3 else None, fn=disp)
    # writer
    for f in io_functions(m, WRITERS_TEXT):
        res.sites += 1
        tt = Terms(f)
        disp = f.display()
        sd, _ = _stream_var(f)
        why = None
        loops = [n for n in f.nodes if n['k'] == 'CXXForRangeStmt' and tt.t(n['rangeinit'])[0] == 'mcall' and
                 tt.t(n['rangeinit'])[1].endswith('::edges') and tt.t(n['rangeinit'])[2] == ('var', f.params[0])]
        walk = _adjacency_walk(m, f, tt, {('var', f.params[0])}, exact=False) if len(loops) != 1 else None
        if len(loops) > 1:
            why = 'the writer enumerates graph.edges() more than once'
        elif not loops and walk is None:
            why = 'expected one loop over graph.edges() (or over the neighbour lists of every vertex) in the writer'
        elif walk is not None and walk[3]:
            why = walk[3]
        else:
            if walk is not None:
                first, second, body = walk[0], walk[1], walk[2]
            else:
                body = set(f.descendants(loops[0]['body']))
                e = ('var', loops[0]['loopvar'])
                first, second = ('member', e, 'std::pair::first'), ('member', e, 'std::pair::second')
            # all << chains on the stream
            chains = []
            for n in f.nodes:
                if n['k'] in ('CXXOperatorCallExpr', 'CallExpr') and 'callee' in n and f.unit.decl(n['callee'])['name'] == 'operator<<':
                    par = f.parent.get(n['i'])
                    pn = f.nodes[par] if par is not None else None
                    top = True
                    p2 = par
                    while p2 is not None and f.nodes[p2]['k'] in ('ImplicitCastExpr', 'ExprWithCleanups', 'ParenExpr'):
                        p2 = f.parent.get(p2)
                    if p2 is not None and f.nodes[p2]['k'] in ('CXXOperatorCallExpr', 'CallExpr') and 'callee' in f.nodes[p2] and \
                            f.unit.decl(f.nodes[p2]['callee'])['name'] == 'operator<<':
                        top = False
                    if top:
                        ops, base = _chain_args(f, tt, n['i'])
                        chains.append((n['i'], [tt.t(o) for o in ops], n['i'] in body))
            headers = [c for c in chains if not c[2]]
            recs = [c for c in chains if c[2]]
            if comment is None and headers:
                res.broken('F-IO.SCHEMA.text: the loader\'s comment character is not known, so the header line written by %s cannot be '
                           'compared with it' % disp)
                continue
            from .rules_pair import Ctx as _Ctx0
            _pc0 = _Ctx0(m, f)
            for h in headers:
                s = strip_cast(_pc0.unconst(h[1][0])) if h[1] else ('none',)
                while s[0] in ('cast', 'conv') and len(s) > 2:
                    s = strip_cast(s[2])
                if not (s[0] == 'str' and comment and s[1].startswith(comment) and s[1].endswith('\n') and s[1].count('\n') == 1):
                    why = 'a line written outside the record loop does not start with the loader\'s comment character'
            if len(recs) != 1:
                why = why or 'expected one output statement per edge'
            else:
                from .rules_pair import Ctx as _Ctx
                pctx = _Ctx(m, f)
                ops = [pctx.unconst(o) for o in recs[0][1]]

                def is_sep(t):
                    return (t[0] == 'str' and len(t[1]) >= 1 and all(ch in (delims or '') and ch not in '\n\r' for ch in t[1])) or \
                        (t[0] == 'int' and chr(t[1]) in (delims or '') and chr(t[1]) not in '\n\r')

                def is_nl(t):
                    return t == ('int', 10) or t == ('str', '\n')
                if _is_nolabel(f) or len(f.targs.split(',')) == 1:
                    good = len(ops) == 4 and ops[0] == first and is_sep(ops[1]) and ops[2] == second and is_nl(ops[3])
                else:
                    good = len(ops) == 6 and ops[0] == first and is_sep(ops[1]) and ops[2] == second and is_sep(ops[3]) and is_nl(ops[5])
                    if good:
                        lab = ops[4]
                        good = lab[0] == 'mcall' and lab[1].endswith('::operator()') and lab[3] and lab[3][0][0] == 'mcall' and \
                            lab[3][0][1].endswith('::getEdgeLabel') and lab[3][0][3][:2] == (first, second)
                if not good:
                    why = why or 'the record line is not `first SEP second [SEP toString(label(first,second))] \\n` with SEP in ' \
                                 'the loader\'s delimiter set'
        if why:
            res.fail(Finding('F-IO.SCHEMA.text', disp, 'writer record', f.where(), why))
        else:
            res.ok(dict(function=disp, header='comment line', record='first SEP second [SEP label] NL') if len(res.samples) < 8 else None,
                   fn=disp)
    # VertexCountMapper
    for f in io_functions(m, IO + 'VertexCountMapper::operator()'):
        res.sites += 1
        tt = Terms(f)
        s = ('var', f.params[0])
        incs = [n for n in f.nodes if n['k'] == 'UnaryOperator' and n['op'] in ('++',)]
        decs_ = [n for n in f.nodes if n['k'] == 'UnaryOperator' and n['op'] in ('--',)]
        rets = [n for n in f.nodes if n['k'] == 'ReturnStmt']
        why = None
        if decs_ and not incs:
            why = 'the name counter is decremented (`%s`): the second new name gets index 4294967295 instead of 1' % f.expr_text(decs_[0]['i'])[:30]
        elif len(incs) != 1 or len(rets) != 1:
            why = 'expected one counter increment and one return'
        else:
            from .rules_pair import true_atoms
            okg = False
            lookup_var = None
            for dep in f.region(incs[0]['i']):
                for t in true_atoms(tt.t(f.branch_atom(dep[0])), dep[1] == 0):
                    if t[0] == 'bin' and t[1] == '==' and strip_cast(t[3]) == ('int', 0) and t[2][0] == 'mcall' and \
                            t[2][1].endswith('::count') and t[2][3] == (s,):
                        okg = True
                    if t[0] == 'bin' and t[1] == '==' and t[2][0] == 'mcall' and t[2][1].endswith('::find') and t[2][3] == (s,) and \
                            t[3][0] == 'mcall' and t[3][1].endswith('::end') and t[3][2] == t[2][2]:
                        okg = True      # labels.find(s) == labels.end()
                    if t[0] == 'bin' and t[1] == '==':
                        for it, other in ((t[2], t[3]), (t[3], t[2])):
                            if other[0] == 'mcall' and other[1].endswith('::end') and it[0] == 'var':
                                d0 = [tt.t(d[1]) for d in var_defs(f, it[1]) if d[1] >= 0]
                                if d0 and d0[0][0] == 'mcall' and d0[0][1].endswith('::find') and d0[0][3] == (s,) and d0[0][2] == other[2]:
                                    okg = True
                                    lookup_var = it
            rt = tt.t(f.children(rets[0]['i'])[0], resolve_refs=False)
            stored = False
            ctr = tt.t(incs[0]['c'][0])

            def old_value(v):
                """the value stored is the counter before its increment: `i++`, or `i` with the increment afterwards"""
                v = strip_cast(v)
                while v[0] in ('ctor', 'cast') and v[2] and (v[0] == 'cast' or len(v[2]) == 1):
                    v = strip_cast(v[2][0] if v[0] == 'ctor' else v[2])
                return v == ('un', '++', True, ctr)
            for n in f.nodes:
                if n['k'] in ('BinaryOperator',) and n['op'] == '=':
                    a = tt.t(n['i'])
                    if a[2][0] == 'idx' and a[2][2] == s and (old_value(a[3]) or (
                            strip_cast(a[3]) == ctr and f.can_reach_forward(n['i'], incs[0]['i']) and
                            f.region(n['i']) == f.region(incs[0]['i']))):
                        stored = True
                if n['k'] == 'CXXMemberCallExpr' and 'callee' in n and f.unit.decl(n['callee'])['name'] in ('emplace', 'insert', 'try_emplace'):
                    a = [tt.t(x) for x in n['args']]
                    if len(a) == 2 and a[0] == s and (old_value(a[1]) or (
                            strip_cast(a[1]) == ctr and f.can_reach_forward(n['i'], incs[0]['i']) and
                            f.region(n['i']) == f.region(incs[0]['i']))):
                        stored = True
            returned = (rt[0] == 'mcall' and rt[1].endswith('::at') and rt[3] == (s,)) or \
                (lookup_var is not None and any(st == lookup_var for st in subterms(rt)) and 'second' in str(rt))
            if not okg:
                why = 'the counter is not incremented exactly on first sight of a name'
            elif not returned:
                why = 'the stored index of the name is not what is returned'
            elif not stored:
                why = 'the value stored under a new name is not the counter before its increment (indices 0, 1, 2, ... in order of first appearance)'
        if why:
            res.fail(Finding('F-IO.SCHEMA.text', f.display(), 'VertexCountMapper', f.where(), why))
        else:
            res.ok(dict(function=f.display(), shape='if (!seen(s)) table[s] = i++; return table.at(s)'), fn=f.display())
    # loadTextEdgeList forwards (fileName, fromString, stoi-lambda)
    for f in io_functions(m, IO + 'loadTextEdgeList'):
        res.sites += 1
        tt = Terms(f)
        calls = [n for n in f.nodes if n['k'] == 'CallExpr' and 'callee' in n and f.unit.decl(n['callee'])['tname'] == LOADER_TEXT]
        ok = len(calls) == 1
        if ok:
            a = [tt.t(x) for x in calls[0]['args']]
            ok = a[0] == ('var', f.params[0]) and any(st == ('var', f.params[1]) for st in subterms(a[1]))
        if ok:
            res.ok(None, fn=f.display())
        else:
            res.fail(Finding('F-IO.SCHEMA.text', f.display(), 'delegation', f.where(),
                             'loadTextEdgeList does not forward (fileName, fromString) to the name loader'))
    res.require_sites(20, 'text schema facts')
    return res


def rule_tokeniser_schema(m):
    """S-TOK: positions alternate find_first_not_of / find_first_of chained on the previous position; token k is
    substr(start_k, end_k - start_k); the rest of the line starts at the fifth position."""
    res = RuleResult('F-IO.TOKSCHEMA', 'the tokeniser computes p1 = first non-delimiter, p2 = first delimiter after p1, p3, p4, p5 '
                                       'likewise (each search chained on the previous position with the same delimiter set) and '
                                       'returns [substr(p1, p2-p1), substr(p3, p4-p3), rest from p5 or ""]')
    for f in io_functions(m, IO + 'findEdgeFromString'):
        res.sites += 1
        tt = Terms(f)
        sv, dv = ('var', f.params[0]), ('var', f.params[1])
        pos = []   # ordered position variables
        why = None
        for n in sorted(f.nodes, key=lambda x: x['i']):
            if n['k'] == 'DeclStmt' and len(n['decls']) == 1 and n['c'] and n['c'][0] >= 0:
                t = tt.t(n['c'][0])
                if t[0] == 'mcall' and t[1] in ('std::basic_string::find_first_not_of', 'std::basic_string::find_first_of') and t[2] == sv:
                    pos.append((('var', n['decls'][0]), t))
        if len(pos) != 5:
            # whatever the shape: the label is the REST of the line, so some field must be taken to the end of the string
            # (substr(p) / substr(p, npos)); if every field is cut by a length computed from a delimiter search, a label
            # that contains a delimiter loses everything after its first word
            subs_all = [n for n in f.nodes if n['k'] == 'CXXMemberCallExpr' and 'callee' in n and
                        f.unit.decl(n['callee'])['name'] == 'substr' and tt.t(n.get('obj', -1)) == sv]
            to_end = []
            for n in subs_all:
                a = [x for x in n.get('args', []) if not f.nodes[x].get('defaultarg')]
                if len(a) == 1 or (len(a) == 2 and 'npos' in str(tt.t(a[1]))):
                    to_end.append(n)
            if subs_all and not to_end and not any(f.unit.function_for_decl(n['callee']) for n in f.nodes
                                                   if n['k'] == 'CallExpr' and 'callee' in n and f.unit.decl(n['callee'])['tname'].startswith(IO)):
                res.fail(Finding('F-IO.TOKSCHEMA', f.display(), 'label field', f.nloc(subs_all[-1]['i']),
                                 'every field the tokeniser extracts is cut at a length computed from a delimiter search (`%s`): no field '
                                 'extends to the end of the line, so a label that contains a blank loses everything after its first word'
                                 % f.expr_text(subs_all[-1]['i'])[:60]))
                continue
            res.broken('F-IO.TOKSCHEMA: tokeniser of %s does not compute five positions with find_first_(not_)of' % f.display())
            continue
        for k, (pv, t) in enumerate(pos):
            want = 'find_first_not_of' if k % 2 == 0 else 'find_first_of'
            args = [strip_cast(a) for a in t[3]]
            if not t[1].endswith('::' + want):
                why = why or 'position %d is searched with %s, expected %s' % (k + 1, t[1].split('::')[-1], want)
            if args[0] != dv:
                why = why or 'position %d is not searched with the delimiter set' % (k + 1)
            start = args[1] if len(args) > 1 else ('int', 0)
            if start[0] == 'ctor':
                start = ('int', 0)
            if k == 0 and start != ('int', 0):
                why = why or 'the first search does not start at the beginning of the line'
            if k > 0 and start != pos[k - 1][0]:
                why = why or 'the search for position %d does not start at position %d' % (k + 1, k)
        P = [p[0] for p in pos]
        subs = [tt.t(n['i']) for n in f.nodes if n['k'] == 'CXXMemberCallExpr' and 'callee' in n and
                f.unit.decl(n['callee'])['tname'] == 'std::basic_string::substr']
        seen_start = set()
        for t in subs:
            if t[2] != sv:
                continue
            a = [strip_cast(x) for x in t[3]]
            st = a[0]
            ln = a[1] if len(a) > 1 else None
            if ln is not None and ln[0] == 'ctor':
                ln = None
            seen_start.add(st)
            if st == P[0]:
                if ln != ('bin', '-', P[1], P[0]):
                    why = why or 'the first token is substr(p1, %s): its length must be p2 - p1 (the end position is not a length: a ' \
                                 'line with leading blanks yields a token that runs into the separator)' % show(ln, f.unit) if ln else 'missing length'
            elif st == P[2]:
                if ln != ('bin', '-', P[3], P[2]):
                    why = why or 'the second token is substr(p3, %s): its length must be p4 - p3' % (show(ln, f.unit) if ln else 'missing')
            elif st == P[4]:
                if ln is not None and not (ln[0] in ('member', 'global', 'field') or 'npos' in str(ln)):
                    why = why or 'the rest of the line is cut to a length'
            else:
                why = why or 'a token starts at %s, which is not p1, p3 or p5' % show(st, f.unit)
        if not {P[0], P[2], P[4]} <= seen_start:
            why = why or 'not all of the three fields (p1.., p3.., p5..) are extracted'
        # the rest is taken only when p5 != npos
        if why is None:
            okn = False
            for n in f.nodes:
                if n['k'] in ('IfStmt', 'ConditionalOperator'):
                    c = tt.t(n['cond'])
                    if c[0] == 'bin' and c[1] in ('==', '!=') and strip_cast(c[2]) == P[4] and 'npos' in str(c[3]):
                        okn = True
            if not okn:
                why = 'the label field is not conditioned on p5 != npos'
        if why:
            res.fail(Finding('F-IO.TOKSCHEMA', f.display(), 'tokeniser schema', f.where(), why))
        else:
            res.ok(dict(function=f.display(), schema='p1..p5 chained searches; [substr(p1,p2-p1), substr(p3,p4-p3), p5==npos ? "" : substr(p5)]'),
                   fn=f.display())
    res.require_sites(1, 'tokeniser definitions')
    return res


def rule_tokeniser_access(m):
    """Checked accessors only in the tokeniser path."""
    res = RuleResult('F-IO.TOK', 'the tokeniser and the line loop use only checked string accessors on computed positions '
                                 '(substr / find*); the only raw subscript is line[0], defined for the empty string')
    # tokens of the file are not matched with std::regex: the matcher of the platform library (libstdc++) recurses once per
    # matched character, so a long token overflows the stack inside the loader
    for f in m.fns:
        if not f.tname.startswith(IO):
            continue
        for n in f.nodes:
            if n['k'] == 'CallExpr' and 'callee' in n and f.unit.decl(n['callee'])['tname'] in (
                    'std::regex_match', 'std::regex_search', 'std::regex_replace'):
                res.sites += 1
                res.fail(Finding('F-IO.TOK', f.display(), 'std::regex on file content', f.nloc(n['i']),
                                 '`%s` matches text taken from the file with std::regex: libstdc++ implements the matcher by recursion '
                                 'on the input, so a token of some ten thousand characters ends in a stack overflow instead of an '
                                 'exception' % f.expr_text(n['i'])[:60]))
    for f in io_functions(m, IO + 'findEdgeFromString') + io_functions(m, LOADER_TEXT):
        tt = Terms(f)
        for n in f.nodes:
            if n['k'] == 'CXXOperatorCallExpr' and 'callee' in n:
                cd = f.unit.decl(n['callee'])
                if cd.get('op') == '[]' and cd.get('record') == 'std::basic_string':
                    res.sites += 1
                    idx = strip_cast(tt.t(n['args'][1]))
                    if idx == ('int', 0):
                        res.ok(dict(function=f.display(), access=f.expr_text(n['i'])) if len(res.samples) < 3 else None, fn=f.display())
                    else:
                        res.fail(Finding('F-IO.TOK', f.display(), 'raw string subscript', f.nloc(n['i']),
                                         'raw subscript `%s` on a string with a computed position' % f.expr_text(n['i'])))
            if n['k'] == 'CXXOperatorCallExpr' and 'callee' in n:
                cd = f.unit.decl(n['callee'])
                if cd.get('op') == '[]' and cd.get('record') == 'std::array':
                    # a computed subscript of a fixed-size array is below its size on the controlling edges
                    idx = strip_cast(tt.t(n['args'][1]))
                    while idx[0] == 'un' and idx[1] in ('++', '--') and len(idx) > 3:
                        idx = strip_cast(idx[3])
                    if idx[0] != 'int':
                        res.sites += 1
                        from .rules_pair import region_atoms as _ra
                        bounded = False
                        for at in _ra(f, tt, n['i']):
                            if at[0] == 'bin' and at[1] in ('<', '<=', '!=') and strip_cast(at[2]) == idx and \
                                    (strip_cast(at[3])[0] == 'int' or (strip_cast(at[3])[0] == 'mcall' and strip_cast(at[3])[1].endswith('::size'))):
                                bounded = True
                        if bounded:
                            res.ok(dict(function=f.display(), access=f.expr_text(n['i'])[:40], bounded=True), fn=f.display())
                        else:
                            res.fail(Finding('F-IO.TOK', f.display(), 'array subscript', f.nloc(n['i']),
                                             '`%s` stores into a fixed-size array at a position computed from the line, with no test '
                                             'of that position against the size of the array on the way: a line with more fields than '
                                             'the array has elements writes past its end' % f.expr_text(n['i'])[:50]))
            if n['k'] == 'CXXMemberCallExpr' and 'callee' in n:
                cd = f.unit.decl(n['callee'])
                if cd.get('record') == 'std::basic_string' and cd['name'] in ('substr', 'at'):
                    res.sites += 1
                    res.ok(None, fn=f.display())
                if cd.get('record') == 'std::basic_string' and cd['name'] in ('front', 'back', 'pop_back', 'erase'):
                    res.sites += 1
                    # fine where the string is known to be non-empty: !s.empty() / s.size() != 0 on a controlling edge
                    from .rules_pair import region_atoms
                    obj = tt.t(n.get('obj', -1))
                    nonempty = False
                    for at in region_atoms(f, tt, n['i']):
                        if at[0] == 'un' and at[1] == '!' and at[3][0] == 'mcall' and at[3][1].endswith('::empty') and at[3][2] == obj:
                            nonempty = True
                        if at[0] == 'bin' and at[1] in ('!=', '>') and at[2][0] == 'mcall' and at[2][1].endswith(('::size', '::length')) and \
                                at[2][2] == obj and strip_cast(at[3]) == ('int', 0):
                            nonempty = True
                    if nonempty and cd['name'] in ('front', 'back'):
                        res.ok(dict(function=f.display(), access=f.expr_text(n['i']), guard='non-empty') if len(res.samples) < 5 else None,
                               fn=f.display())
                        continue
                    res.fail(Finding('F-IO.TOK', f.display(), 'unchecked string access ' + cd['name'], f.nloc(n['i']),
                                     'std::string::%s has a non-empty precondition that a blank line violates' % cd['name']))
    res.require_sites(5, 'string accesses')
    return res


# ------------------------------------------------------------------------------------------------
IR_PROBE = r'''
#include "BaseGraph/fileio.hpp"
void probe_write_u32(std::ofstream &s, unsigned v) { BaseGraph::io::writeBinaryValue<unsigned>(s, v); }
void probe_write_f64(std::ofstream &s, double v) { BaseGraph::io::writeBinaryValue<double>(s, v); }
void probe_read_u32(std::ifstream &s, unsigned &v) { BaseGraph::io::readBinaryValue<unsigned>(s, v); }
void probe_read_f64(std::ifstream &s, double &v) { BaseGraph::io::readBinaryValue<double>(s, v); }
'''


def rule_endian_ir():
    res = RuleResult('F-IO.ENDIAN', 'LLVM IR of write/readBinaryValue<unsigned|double> for a little- and a big-endian target: '
                                    'constant byte counts 4 / 8, SYSTEM_IS_BIG_ENDIAN folds to 0 / 1, a byte swap of the right '
                                    'width lies on the write and the read path')
    tmp = tempfile.mkdtemp(prefix='bgcheck_ir_')
    try:
        src = os.path.join(tmp, 'probe.cpp')
        with open(src, 'w') as fh:
            fh.write(IR_PROBE)
        targets = [('x86_64-linux-gnu', [], 0), ('s390x-linux-gnu', ['-D__x86_64__', '-nostdinc++', '-isystem', '/usr/include/c++/12',
                                                                   '-isystem', '/usr/include/x86_64-linux-gnu/c++/12',
                                                                   '-isystem', '/usr/include/x86_64-linux-gnu'], 1)]
        for triple, extra, want_flag in targets:
            out = os.path.join(tmp, triple + '.ll')
            r = sh(['clang++', '--target=' + triple, '-std=gnu++17', '-O2', '-S', '-emit-llvm', '-I' + INCLUDE] + extra +
                   ['-w', src, '-o', out])
            if r.returncode != 0 or not os.path.exists(out):
                res.notes.append('IR probe for %s inconclusive: %s' % (triple, (r.stderr.strip().splitlines() or ['?'])[-1][:200]))
                continue
            ir = open(out).read()
            fns = split_ir_functions(ir)
            # flag initialiser
            res.sites += 1
            mflag = re.search(r'store i8 (\d), i8\* @_ZN9BaseGraph2ioL20SYSTEM_IS_BIG_ENDIANE', ir) or \
                re.search(r'store i8 (\d), (?:i8\*|ptr) @_ZN9BaseGraph2ioL20SYSTEM_IS_BIG_ENDIANE', ir)
            minit = re.search(r'@_ZN9BaseGraph2ioL20SYSTEM_IS_BIG_ENDIANE = internal[^\n]*constant i8 (\d)', ir)
            val = int(mflag.group(1)) if mflag else (int(minit.group(1)) if minit else None)
            if val is None:
                res.notes.append('IR probe %s: initialiser of SYSTEM_IS_BIG_ENDIAN not found as a folded store' % triple)
                res.sites -= 1
            elif val == want_flag:
                res.ok(dict(target=triple, SYSTEM_IS_BIG_ENDIAN=val))
            else:
                res.fail(Finding('F-IO.ENDIAN', 'io::_isSystemBigEndian', 'flag on ' + triple, 'IR of ' + triple,
                                 'SYSTEM_IS_BIG_ENDIAN evaluates to %d on %s, expected %d' % (val, triple, want_flag)))
            for probe, width, call in (('probe_write_u32', 32, 'write'), ('probe_write_f64', 64, 'write'),
                                       ('probe_read_u32', 32, 'read'), ('probe_read_f64', 64, 'read')):
                body = None
                for name, text in fns.items():
                    if probe in name:
                        body = text
                if body is None:
                    continue
                res.sites += 1
                nbytes = width // 8
                calls = re.findall(r'call[^\n]*@_ZNS[oi][^\n]*(?:write|read)[^\n]*i64 (?:noundef )?(\d+)\)', body)
                has_swap = ('llvm.bswap.i%d' % width) in body or 'reverse' in body or 'shufflevector' in body
                if not calls:
                    res.notes.append('IR probe %s/%s: stream call not recognised' % (triple, probe))
                    res.sites -= 1
                    continue
                if any(int(c) != nbytes for c in calls):
                    res.fail(Finding('F-IO.ENDIAN', 'io::%sBinaryValue' % call, '%s byte count on %s' % (probe, triple),
                                     'IR of ' + triple, 'transfers %s bytes, expected %d' % (calls, nbytes)))
                elif not has_swap:
                    res.fail(Finding('F-IO.ENDIAN', 'io::%sBinaryValue' % call, '%s swap on %s' % (probe, triple),
                                     'IR of ' + triple, 'no %d-bit byte swap on the %s path' % (width, call)))
                else:
                    res.ok(dict(target=triple, probe=probe, bytes=nbytes, bswap=True) if len(res.samples) < 10 else None)
    finally:
        shutil.rmtree(tmp, ignore_errors=True)
    return res


def split_ir_functions(ir):
    out = {}
    cur = None
    buf = []
    for ln in ir.splitlines():
        mm = re.match(r'define [^@]*@([^\s(]+)\(', ln)
        if mm:
            cur = mm.group(1)
            buf = [ln]
        elif cur is not None:
            buf.append(ln)
            if ln.startswith('}'):
                out[cur] = '\n'.join(buf)
                cur = None
    return out


def rule_name_table(m):
    """F-IO.NAMES: names[index(x)] = x must hold for every name and *every* vertex-name mapper (the index loader is the name
    loader with a numeric mapper, a caller may pass any mapping): a store into the name table that happens only while the
    index is not yet inside the graph / table ("first time the vertex shows up") leaves the name of an index that is first
    mentioned after a larger one empty. Decided on the loader and on the lambdas defined in it."""
    res = RuleResult('F-IO.NAMES', 'every store names[index] = token in the text loader (and in lambdas defined in it) is '
                                   'independent of a growth test `index >= size`: the name table is filled for every mapper, '
                                   'not only for one that numbers names in order of first appearance')
    fs = [f for tn, lst in m.by_tname.items() if tn == LOADER_TEXT or tn.startswith(LOADER_TEXT + '::(lambda)') for f in lst]
    if not fs:
        res.broken('F-IO.NAMES: anchor vanished: no analysed instantiation of ' + LOADER_TEXT)
        return res
    for f in fs:
        tt = Terms(f)
        disp = f.display()
        groups = {}
        for n in f.nodes:
            if not (n['k'] == 'CXXOperatorCallExpr' and 'callee' in n and f.unit.decl(n['callee']).get('op') == '='):
                continue
            t = tt.t(n['i'])
            if not (t[0] == 'bin' and t[1] == '='):
                continue
            l = strip_cast(t[2])
            if not (l[0] == 'idx' and l[1][0] == 'var'):
                continue
            ct = (f.unit.decl(l[1][1]) or {}).get('ctype', '')
            if not (ct.startswith('std::vector<std::string') or ct.startswith('std::vector<std::basic_string') or
                    ct.startswith('std::vector<std::__cxx11::basic_string')):
                continue
            res.sites += 1
            x = strip_cast(l[2])
            related = {x}
            if x[0] == 'var':
                # locals computed from the index (largest = max(vertex, vertex2)) stand for it in a growth test
                for nn in f.nodes:
                    if nn['k'] == 'DeclStmt':
                        for ix, d in enumerate(nn['decls']):
                            if ix < len(nn['c']) and nn['c'][ix] >= 0 and x in set(subterms(tt.t(nn['c'][ix]))):
                                related.add(('var', d))

            def is_size(s):
                return any(isinstance(y, tuple) and y and y[0] == 'mcall' and (y[1].endswith('::getSize') or y[1].endswith('::size'))
                           for y in subterms(s))

            def has_index(s):
                return any(y in related for y in subterms(s))
            bad = None
            for a in region_atoms(f, tt, n['i']):
                a0 = strip_cast(a)
                if a0[0] != 'bin' or a0[1] not in ('>=', '>', '<=', '<'):
                    continue
                lhs, rhs = a0[2], a0[3]
                if (a0[1] in ('>=', '>') and has_index(lhs) and is_size(rhs)) or \
                        (a0[1] in ('<=', '<') and is_size(lhs) and has_index(rhs)):
                    bad = a0
                    break
            groups.setdefault((l[1][1], x), []).append((n['i'], bad))
        # a name is lost only if *every* store of that index into that table is under a growth test (if / else arms that both
        # store are complete)
        for (arr, x), lst in groups.items():
            if all(b is not None for _, b in lst):
                nid, bad = lst[0]
                res.fail(Finding('F-IO.NAMES', disp, 'name store under a growth test', f.nloc(nid),
                                 '`%s` is executed only when `%s` holds, i.e. only while the index is not yet inside the graph: '
                                 'with a vertex-name mapper that does not number names in order of first appearance (the index '
                                 'loader, a caller-supplied mapping) an index first mentioned after a larger one keeps an empty '
                                 'name, so names[index(x)] = x fails' % (f.expr_text(nid)[:70], show(bad, f.unit)[:80])))
            else:
                for nid, _ in lst:
                    res.ok(dict(function=disp, store=f.expr_text(nid)[:80]) if len(res.samples) < 4 else None, fn=disp)
    return res
