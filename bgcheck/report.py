"""Findings, rule results, known-findings file, evidence and replay files."""
import json
import os
import re
import time

VERIF = os.path.dirname(os.path.dirname(os.path.abspath(__file__)))
KNOWN = os.path.join(VERIF, 'KNOWN_FINDINGS.txt')
_OUT = os.environ.get('BGCHECK_OUT') or VERIF
EVIDENCE = os.path.join(_OUT, 'evidence')
REPLAY = os.path.join(_OUT, 'replay')


class Finding:
    def __init__(self, rule, function, site, loc, message, detail=None):
        self.rule = rule            # e.g. F-PAIR.L
        self.function = function    # display name of the function (with template args)
        self.site = site            # stable descriptor without line numbers
        self.loc = loc              # file:line
        self.message = message
        self.detail = detail or {}

    def key(self):
        return '%s | %s | %s' % (self.rule, self.function, self.site)

    def to_json(self):
        return dict(rule=self.rule, function=self.function, site=self.site, loc=self.loc,
                    message=self.message, detail=self.detail)


class RuleResult:
    """What one rule did on one run."""

    def __init__(self, rule, description=''):
        self.rule = rule
        self.description = description
        self.sites = 0              # rule instances looked at
        self.obligations = 0
        self.discharged = 0
        self.findings = []
        self.inconclusive = []      # strings: why the analysis could not decide (-> exit 2)
        self.samples = []           # analysed instances, written to the evidence
        self.notes = []
        self.functions = set()      # display names of functions visited
        self.exclusions = []

    def ok(self, sample=None, fn=None):
        self.obligations += 1
        self.discharged += 1
        if sample is not None and len(self.samples) < 12:
            self.samples.append(sample)
        if fn is not None:
            self.functions.add(fn)

    def fail(self, finding):
        self.obligations += 1
        msg = finding.message
        # the code is not in the shape the rule is defined on: the rule cannot decide (never reported as a violation)
        if msg.startswith('expected ') or ': expected ' in msg[:90]:
            self.inconclusive.append('%s: %s at %s is not in the shape the rule is defined on (%s)' % (
                self.rule, finding.function, finding.loc, msg[:200]))
            return
        self.findings.append(finding)
        self.functions.add(finding.function)

    def broken(self, why):
        self.inconclusive.append(why)

    def require_sites(self, minimum, what):
        if self.sites < minimum:
            self.broken('%s: only %d %s found, at least %d confirmed by hand on the reference tree '
                        '(rule would pass vacuously)' % (self.rule, self.sites, what, minimum))


def generic_name(fn):
    """LabeledDirectedGraph<unsigned int>::addEdge -> LabeledDirectedGraph<*>::addEdge ;
    algorithms::findGeodesics<BaseGraph::LabeledDirectedGraph, int> -> algorithms::findGeodesics<*>"""
    import re as _re
    ops = {}

    def _hide(mo):
        k = '\x00%d\x00' % len(ops)
        ops[k] = mo.group(0)
        return k
    fn = _re.sub(r'operator\s*(<<=|>>=|<<|>>|<=|>=|->|<|>)', _hide, fn)
    out = []
    depth = 0
    for ch in fn:
        if ch == '<':
            if depth == 0:
                out.append('<*>')
            depth += 1
        elif ch == '>':
            depth -= 1
        elif depth == 0:
            out.append(ch)
    r = ''.join(out)
    for k, v in ops.items():
        r = r.replace(k, v)
    return r


def load_known():
    known, fixed = [], []
    if os.path.exists(KNOWN):
        for ln in open(KNOWN).read().splitlines():
            ln = ln.strip()
            if ln.startswith('known:'):
                m = re.match(r'known:\s*property=(\S+)\s+(.*)$', ln)
                if m:
                    known.append((m.group(1), m.group(2).strip()))
            elif ln.startswith('fixed:'):
                fixed.append(ln)
    return known, fixed


def finish(prop, tier, level, results, t0, explanation, assumptions, trusted_base, checker_cmd,
           extra_coverage=None, units=None):
    """Print verdict lines, write evidence and replay files, return the exit code."""
    os.makedirs(EVIDENCE, exist_ok=True)
    os.makedirs(REPLAY, exist_ok=True)
    known, _fixed = load_known()
    known_keys = {k for (p, k) in known if p == prop}
    findings = []
    inconclusive = []
    for r in results:
        findings.extend(r.findings)
        inconclusive.extend(r.inconclusive)
    # collapse instantiations of the same template: one finding per (rule, function template, site)
    seen = {}
    uniq = []
    for f in findings:
        inst = f.function
        f.function = generic_name(f.function)
        if f.key() in seen:
            seen[f.key()].detail.setdefault('instantiations', []).append(inst)
            continue
        f.detail.setdefault('instantiations', []).append(inst)
        seen[f.key()] = f
        uniq.append(f)
    new = [f for f in uniq if f.key() not in known_keys]
    old = [f for f in uniq if f.key() in known_keys]
    for f in old:
        print('KNOWN-FINDING: property=%s %s -- %s (%s)' % (prop, f.key(), f.message, f.loc))
    replay_paths = []
    for n, f in enumerate(new):
        safe = re.sub(r'[^A-Za-z0-9_.-]+', '_', f.key())[:120]
        path = os.path.join(REPLAY, '%s_%02d_%s.json' % (prop, n, safe))
        with open(path, 'w') as fh:
            json.dump(dict(property=prop, tier=tier, finding=f.to_json(),
                           rerun='cd /verif && python3 -m bgcheck %s --tier %s --only-rule %s' % (prop, tier, f.rule)),
                      fh, indent=1)
        replay_paths.append(path)
        print('VIOLATION property=%s replay=%s' % (prop, path))
        print('  rule %s in %s at %s: %s [site: %s]' % (f.rule, f.function, f.loc, f.message, f.site))
    for w in inconclusive:
        print('INCONCLUSIVE property=%s %s' % (prop, w))
    obligations = sum(r.obligations for r in results)
    discharged = sum(r.discharged for r in results)
    samples = []
    for r in results:
        for s in r.samples[:6]:
            samples.append(dict(rule=r.rule, **s) if isinstance(s, dict) else dict(rule=r.rule, instance=s))
    if not samples:
        samples = [dict(note='no instance recorded')]
    functions = set()
    for r in results:
        functions |= r.functions
    cov = dict(
        explanation=explanation,
        obligations=obligations,
        discharged=discharged,
        checker_cmd=checker_cmd,
        trusted_base=trusted_base,
        evaluations=max(1, sum(r.sites for r in results)),
        distinct_nontrivial=max(0, len({json.dumps(s, sort_keys=True) for r in results for s in r.samples}) +
                                max(0, obligations - sum(len(r.samples) for r in results))),
        rule='one evaluation = one rule instance (site x rule) found in the instantiated code of /repo/include on this '
             'run; distinct_nontrivial counts obligations raised at distinct (function, site) pairs',
        samples=samples[:40],
        functions_visited=len(functions),
        units=units or [],
        rules={r.rule: dict(description=r.description, sites=r.sites, obligations=r.obligations,
                            discharged=r.discharged, findings=len(r.findings), inconclusive=len(r.inconclusive),
                            exclusions=r.exclusions, notes=r.notes[:20]) for r in results},
        known_findings_reported=[f.key() for f in old],
        inconclusive=inconclusive,
        exhaustive=False,
    )
    if extra_coverage:
        cov.update(extra_coverage)
    ev = dict(property_id=prop, tier=tier, seed=int(os.environ.get('VERIF_SEED', '0') or 0), level=level,
              coverage=cov, assumptions=assumptions, wall_s=round(time.time() - t0, 3), violations=len(new))
    with open(os.path.join(EVIDENCE, prop + '.json'), 'w') as fh:
        json.dump(ev, fh, indent=1)
    if new:
        return 1
    if inconclusive:
        return 2
    print('OK property=%s tier=%s rules=%d sites=%d obligations=%d discharged=%d known=%d wall=%.1fs' % (
        prop, tier, len(results), sum(r.sites for r in results), obligations, discharged, len(old), time.time() - t0))
    return 0
