"""Symbolic normal form of expressions (nested tuples), with local reference-alias resolution.

Forms:
  ('var', decl id)            parameter / local variable (value)
  ('field', tname)            field of *this
  ('member', base, tname)     field of another object
  ('this',)
  ('int', n) ('bool', b) ('str', s) ('float', s)
  ('bin', op, a, b)  ('un', op, postfix, a)  ('cond', c, a, b)
  ('idx', base, index)        operator[] / ArraySubscript
  ('deref', a)                *a
  ('mcall', callee tname, obj, (args...))
  ('call', callee tname, (args...))
  ('opcall', op, (args...))
  ('pair', a, b)              std::pair<VertexIndex,VertexIndex>{a,b}
  ('ctor', type, (args...))
  ('lambda', callop decl id)
  ('cast', type, a)
  ('global', tname)
  ('?', kind, node id)
"""

PAIR_T = 'std::pair<unsigned int, unsigned int>'


VERTEX_MAX = ('global', 'BaseGraph::algorithms::BASEGRAPH_VERTEX_MAX')


class Terms:
    def __init__(self, fn):
        self.fn = fn
        self.u = fn.unit
        self._cache = {}
        self._ref_init = None

    # -- local reference aliases: `auto &x = <lvalue>` / `const auto &x = <expr>`
    def ref_inits(self):
        if self._ref_init is None:
            r = {}
            f = self.fn
            loopvarstmts = {n['loopvarstmt'] for n in f.nodes if n['k'] == 'CXXForRangeStmt'}
            for n in f.nodes:
                if n['k'] != 'DeclStmt' or n['i'] in loopvarstmts:
                    continue
                for ix, d in enumerate(n['decls']):
                    dd = self.u.decl(d)
                    if dd['dk'] == 'Var' and dd.get('isref') and ix < len(n['c']) and n['c'][ix] >= 0:
                        r[d] = n['c'][ix]
            self._ref_init = r
        return self._ref_init

    def _single_def(self, did):
        """initialiser node of a local that is declared once with an initialiser and never written again"""
        if not hasattr(self, '_const_inits'):
            inits, written = {}, set()
            f = self.fn
            for n in f.nodes:
                if n['k'] == 'DeclStmt':
                    for ix, d in enumerate(n['decls']):
                        if ix < len(n['c']) and n['c'][ix] >= 0:
                            inits.setdefault(d, []).append(n['c'][ix])
                elif n['k'] in ('BinaryOperator', 'CompoundAssignOperator') and n.get('op', '').endswith('=') and \
                        n.get('op') not in ('==', '!=', '<=', '>='):
                    l = f.nodes[f.strip(n['c'][0])]
                    if l['k'] == 'DeclRefExpr':
                        written.add(l['d'])
                elif n['k'] == 'UnaryOperator' and n.get('op') in ('++', '--'):
                    l = f.nodes[f.strip(n['c'][0])]
                    if l['k'] == 'DeclRefExpr':
                        written.add(l['d'])
            self._const_inits = {d: v[0] for d, v in inits.items() if len(set(v)) == 1 and d not in written}
        return self._const_inits.get(did)

    def _inline_predicate(self, callee, args, depth):
        """a free bool function of the library whose body is one return statement is read as its expression"""
        if depth > 3:
            return None
        g = self.u.function_for_decl(callee)
        if g is None or g.is_lambda or len(g.params) != len(args) or not g.tname.startswith('BaseGraph::'):
            return None
        crt = self.u.decl(callee).get('crtype')
        if g.record is None:
            if crt != 'bool':
                return None
        else:
            # a non-public static member that is one arithmetic expression of its parameters
            if not g.is_static or g.access == 'public' or crt not in ('bool', 'unsigned int', 'unsigned long', 'int', 'long', 'double'):
                return None
        body = g.nodes[g.body] if g.body is not None and g.body >= 0 else None
        if body is None or body['k'] != 'CompoundStmt' or len(body.get('c', [])) != 1:
            return None
        r = g.nodes[body['c'][0]]
        if r['k'] != 'ReturnStmt' or not r.get('c'):
            return None
        if any(x['k'] in ('LambdaExpr', 'DeclStmt') for x in g.nodes):
            return None
        e = Terms(g).t(r['c'][0], True, depth + 1)
        sub = {('var', p): a for p, a in zip(g.params, args)}

        def S(t):
            if not isinstance(t, tuple):
                return t
            if t in sub:
                return sub[t]
            return tuple(S(x) for x in t)
        return S(e)

    INTEGRAL = ('unsigned int', 'int', 'unsigned long', 'long', 'unsigned long long', 'long long', 'bool', 'char', 'unsigned char',
                'short', 'unsigned short', 'size_t')

    def _neg(self, nid, rr, depth):
        """term of !expr with the negation pushed inwards: !(A || B) = !A && !B, !(A && B) = !A || !B, and - for operands
        of integral type only (no NaN) - !(a < b) = a >= b"""
        f = self.fn
        i = f.strip(nid)
        n = f.nodes[i]
        if n['k'] == 'ParenExpr':
            return self._neg(n['c'][0], rr, depth)
        if n['k'] == 'BinaryOperator' and n.get('op') in ('||', '&&'):
            return ('bin', '&&' if n['op'] == '||' else '||', self._neg(n['c'][0], rr, depth), self._neg(n['c'][1], rr, depth))
        if n['k'] == 'BinaryOperator' and n.get('op') in ('<', '>', '<=', '>='):
            ts = [f.nodes[f.strip(c)].get('t', '').replace('const ', '') for c in n['c']]
            if all(t0 in self.INTEGRAL for t0 in ts):
                flip = {'<': '>=', '>': '<=', '<=': '>', '>=': '<'}[n['op']]
                return _canon_cmp(('bin', flip, self.t(n['c'][0], rr, depth), self.t(n['c'][1], rr, depth)))
        if n['k'] == 'UnaryOperator' and n.get('op') == '!':
            return self.t(n['c'][0], rr, depth)
        return _not(self.t(nid, rr, depth))

    def t(self, nid, resolve_refs=True, depth=0):
        if nid is None or nid < 0:
            return ('none',)
        key = (nid, resolve_refs)
        if key in self._cache:
            return self._cache[key]
        r = self._t(nid, resolve_refs, depth)
        self._cache[key] = r
        return r

    def _t(self, nid, rr, depth):
        f = self.fn
        if depth > 40:
            return ('?', 'deep', nid)
        nid = f.strip(nid)
        n = f.nodes[nid]
        k = n['k']
        T = lambda x: self.t(x, rr, depth + 1)
        if k == 'DeclRefExpr':
            d = self.u.decl(n['d'])
            dk = d['dk']
            if dk in ('Var', 'ParmVar'):
                if d.get('local'):
                    if rr and dk == 'Var' and d.get('isref') and n['d'] in self.ref_inits():
                        return self.t(self.ref_inits()[n['d']], rr, depth + 1)
                    if dk == 'Var' and d.get('constq') and not d.get('isref') and depth < 6 and \
                            d.get('ctype', '').replace('const ', '') in ('unsigned long', 'unsigned int'):
                        # a named constant holding the largest VertexIndex IS the documented sentinel
                        sd = self._single_def(n['d'])
                        if sd is not None:
                            tv = self.t(sd, rr, depth + 1)
                            while tv[0] in ('cast', 'conv') and len(tv) > 2 and isinstance(tv[2], tuple):
                                tv = tv[2]
                            if tv == VERTEX_MAX:
                                return VERTEX_MAX
                            if tv[0] == 'int' and isinstance(tv[1], int):
                                return tv            # a named integer constant is its literal
                    return ('var', n['d'])
                q = d.get('qname', '')
                if q.startswith('std::integral_constant<bool, ') and q.endswith('>::value'):
                    return ('bool', 'true' in q)
                return ('global', d['tname'])
            if dk in ('Function', 'CXXMethod'):
                return ('fn', d['tname'])
            if dk == 'Binding':
                return ('var', n['d'])
            if dk == 'EnumConstant':
                return ('global', d['tname'])
            return ('?', dk, nid)
        if k == 'MemberExpr':
            d = self.u.decl(n['d'])
            base = n['c'][0] if n['c'] else -1
            if d['dk'] == 'Field':
                bt = T(base)
                if bt == ('this',):
                    return ('field', d['tname'])
                return ('member', bt, d['tname'])
            return ('memfn', T(base), d['tname'])
        if k == 'CXXThisExpr':
            return ('this',)
        if k == 'IntegerLiteral':
            return ('int', int(n['v']))
        if k == 'CXXBoolLiteralExpr':
            return ('bool', n['v'] == 'true')
        if k == 'FloatingLiteral':
            return ('float', n['v'])
        if k == 'StringLiteral':
            return ('str', n.get('v', ''))
        if k == 'CharacterLiteral':
            return ('int', n.get('v', 0))
        if k in ('BinaryOperator', 'CompoundAssignOperator'):
            return _canon_cmp(('bin', n['op'], T(n['c'][0]), T(n['c'][1])))
        if k == 'UnaryOperator':
            if n['op'] == '*':
                inner = T(n['c'][0])
                if inner[0] == 'var' and inner[1] in getattr(f, 'iter_as_elem', ()):
                    return inner
                return ('deref', inner)
            if n['op'] == '!':
                return self._neg(n['c'][0], rr, depth)
            return ('un', n['op'], bool(n.get('postfix')), T(n['c'][0]))
        if k == 'ConditionalOperator':
            return ('cond', T(n['cond']), T(n['then']), T(n['else']))
        if k == 'ArraySubscriptExpr':
            return ('idx', T(n['c'][0]), T(n['c'][1]))
        if k == 'CXXOperatorCallExpr':
            cal = self.u.decl(n.get('callee', -1))
            op = cal.get('op', '?') if cal else '?'
            a = n.get('args', [])
            if op == '[]' and len(a) == 2:
                return ('idx', T(a[0]), T(a[1]))
            if op == '*' and len(a) == 1:
                inner = T(a[0])
                if inner[0] == 'var' and inner[1] in getattr(f, 'iter_as_elem', ()):
                    return inner
                return ('deref', inner)
            if op in ('++', '--'):
                return ('un', op, len(a) == 2, T(a[0]))
            if op == '!' and len(a) == 1:
                return _not(T(a[0]))
            if op == '()':
                return ('mcall', cal['tname'] if cal else '?', T(a[0]), tuple(T(x) for x in a[1:]))
            if len(a) == 2 and op in ('==', '!=', '<', '>', '<=', '>=', '=', '+=', '-=', '+', '-', '*', '<<', '>>'):
                return _canon_cmp(('bin', op, T(a[0]), T(a[1])))
            return ('opcall', op, tuple(T(x) for x in a))
        if k == 'CXXMemberCallExpr':
            cal = self.u.decl(n.get('callee', -1))
            if cal is None:
                return ('?', k, nid)
            if cal['dk'] == 'CXXConversion':
                return ('conv', cal.get('rtype', ''), T(n.get('obj', -1)))
            return ('mcall', cal['tname'], T(n.get('obj', -1)), tuple(T(x) for x in n.get('args', [])))
        if k == 'CallExpr':
            cal = self.u.decl(n.get('callee', -1))
            if cal is None:
                return ('icall', T(n.get('calleeexpr', -1)), tuple(T(x) for x in n.get('args', [])))
            args = tuple(T(x) for x in n.get('args', []))
            inl = self._inline_predicate(n.get('callee', -1), args, depth)
            if inl is not None:
                return inl
            if cal['tname'] in ('std::none_of', 'std::any_of') and len(args) == 3 and depth < 6:
                # none_of(b, e, [v](x) { return x == v; })  ==  find(b, e, v) == e   (any_of: != e)
                lam = args[2]
                while lam[0] in ('ctor', 'cast') and lam[2]:
                    lam = lam[2][0] if lam[0] == 'ctor' else lam[2]
                L = self.u.function_for_decl(lam[1]) if lam[0] == 'lambda' else None
                if L is not None and len(L.params) == 1:
                    rets = [x for x in L.nodes if x['k'] == 'ReturnStmt' and L.children(x['i'])]
                    others = [x for x in L.nodes if x['k'] in ('IfStmt', 'ForStmt', 'WhileStmt', 'CallExpr', 'CXXMemberCallExpr',
                                                               'BinaryOperator') and x.get('op', '==') not in ('==',)]
                    if len(rets) == 1 and not others:
                        rt = Terms(L).t(L.children(rets[0]['i'])[0], rr, depth + 1)
                        while rt[0] in ('cast', 'conv') and len(rt) > 2 and isinstance(rt[2], tuple):
                            rt = rt[2]
                        p0 = ('var', L.params[0])
                        if rt[0] == 'bin' and rt[1] == '==' and p0 in (rt[2], rt[3]):
                            val = rt[3] if rt[2] == p0 else rt[2]
                            if p0 not in subterms(val):
                                return ('bin', '==' if cal['tname'] == 'std::none_of' else '!=',
                                        ('call', 'std::find', (args[0], args[1], val)), args[1])
            if cal['tname'] == 'std::numeric_limits::max' and cal.get('recordargs') == 'unsigned int' and not args:
                return VERTEX_MAX       # std::numeric_limits<VertexIndex>::max(): the value the sentinel constant is defined as
            return ('call', cal['tname'], args)
        if k in ('CXXConstructExpr', 'CXXTemporaryObjectExpr'):
            args = n.get('args', [])
            ty = n.get('t', '').replace('const ', '')
            if ty == PAIR_T and len(args) == 2:
                return ('pair', T(args[0]), T(args[1]))
            return ('ctor', ty, tuple(T(x) for x in args))
        if k == 'InitListExpr':
            ty = n.get('t', '').replace('const ', '')
            cs = [c for c in n['c'] if c >= 0]
            if ty == PAIR_T and len(cs) == 2:
                return ('pair', T(cs[0]), T(cs[1]))
            return ('ctor', ty, tuple(T(x) for x in cs))
        if k == 'CXXScalarValueInitExpr':
            return ('ctor', n.get('t', ''), ())
        if k in ('CStyleCastExpr', 'CXXStaticCastExpr', 'CXXFunctionalCastExpr', 'CXXReinterpretCastExpr',
                 'CXXConstCastExpr'):
            cs = [c for c in n['c'] if c >= 0]
            return ('cast', n.get('towritten', ''), T(cs[0]) if cs else ('none',))
        if k == 'LambdaExpr':
            return ('lambda', n['callop'])
        if k == 'UnaryExprOrTypeTraitExpr':
            return ('sizeof', n.get('argtype', ''), n.get('v'))
        if k == 'CXXStdInitializerListExpr':
            cs = [c for c in n['c'] if c >= 0]
            return T(cs[0]) if cs else ('?', k, nid)
        return ('?', k, nid)


_MIRROR = {'<': '>', '>': '<', '<=': '>=', '>=': '<=', '==': '==', '!=': '!='}


def _is_const_like(t):
    """literals, end() iterators, npos and the library's sentinels: the side a comparison is conventionally against"""
    x = t
    while isinstance(x, tuple) and x and x[0] in ('cast', 'conv') and len(x) == 3:
        x = x[2]
    if not isinstance(x, tuple) or not x:
        return False
    if x[0] in ('int', 'float', 'bool', 'str'):
        return True
    if x[0] == 'mcall' and x[1].endswith(('::end', '::cend')) and not x[3]:
        return True
    if x[0] in ('global', 'member') and str(x[-1]).endswith(('npos', 'VERTEX_MAX', 'INFINITY')):
        return True
    return False


def _is_index_like(t):
    x = t
    while isinstance(x, tuple) and x and x[0] in ('cast', 'conv') and len(x) == 3:
        x = x[2]
    return isinstance(x, tuple) and bool(x) and x[0] in ('var', 'deref', 'member', 'field')


def _is_size_like(t):
    x = t
    while isinstance(x, tuple) and x and x[0] in ('cast', 'conv') and len(x) == 3:
        x = x[2]
    return isinstance(x, tuple) and len(x) == 4 and x[0] == 'mcall' and x[1].endswith(('::getSize', '::size')) and not x[3]


def _canon_cmp(t):
    """comparisons are written with the constant-like operand on the right: `0 < n` is read as `n > 0`,
    `end() != it` as `it != end()` - so that rules need one orientation only"""
    if t[1] in _MIRROR and _is_const_like(t[2]) and not _is_const_like(t[3]):
        return ('bin', _MIRROR[t[1]], t[3], t[2])
    # `g.getSize() <= v` is read as `v >= g.getSize()` (sizes are what indices are compared against)
    if t[1] in _MIRROR and _is_size_like(t[2]) and _is_index_like(t[3]):
        return ('bin', _MIRROR[t[1]], t[3], t[2])
    return t


def _not(t):
    """!(a == b) is a != b (C++20 rewrites a != b into !(a == b)); anything else stays a negation"""
    x = t
    while x[0] in ('conv',) and len(x) == 3:
        x = x[2]
    if x[0] == 'bin' and x[1] in ('==', '!=') and t is x:
        return ('bin', '!=' if x[1] == '==' else '==', x[2], x[3])
    return ('un', '!', False, t)


def subterms(t):
    yield t
    if isinstance(t, tuple):
        for x in t[1:]:
            if isinstance(x, tuple):
                if x and isinstance(x[0], str):
                    yield from subterms(x)
                else:
                    for y in x:
                        if isinstance(y, tuple):
                            yield from subterms(y)


def show(t, u=None):
    """Readable rendering of a term."""
    if not isinstance(t, tuple) or not t:
        return str(t)
    k = t[0]
    S = lambda x: show(x, u)
    if k == 'var':
        return u.decl(t[1])['name'] if u else 'v%d' % t[1]
    if k == 'field':
        return t[1].split('::')[-1]
    if k == 'member':
        return '%s.%s' % (S(t[1]), t[2].split('::')[-1])
    if k == 'this':
        return 'this'
    if k in ('int', 'bool', 'float'):
        return str(t[1])
    if k == 'str':
        return repr(t[1])
    if k == 'bin':
        return '(%s %s %s)' % (S(t[2]), t[1], S(t[3]))
    if k == 'un':
        return (S(t[3]) + t[1]) if t[2] else (t[1] + S(t[3]))
    if k == 'cond':
        return '(%s ? %s : %s)' % (S(t[1]), S(t[2]), S(t[3]))
    if k == 'idx':
        return '%s[%s]' % (S(t[1]), S(t[2]))
    if k == 'deref':
        return '*' + S(t[1])
    if k == 'mcall':
        o = S(t[2])
        return '%s%s(%s)' % ('' if o == 'this' else o + '.', t[1].split('::')[-1], ', '.join(S(x) for x in t[3]))
    if k == 'call':
        return '%s(%s)' % (t[1].split('::')[-1], ', '.join(S(x) for x in t[2]))
    if k == 'pair':
        return '{%s, %s}' % (S(t[1]), S(t[2]))
    if k == 'ctor':
        return '%s(%s)' % (t[1].split('::')[-1], ', '.join(S(x) for x in t[2]))
    if k == 'cast':
        return '(%s)%s' % (t[1], S(t[2]))
    if k == 'global':
        return t[1].split('::')[-1]
    if k == 'lambda':
        return '[lambda]'
    if k == 'opcall':
        return 'operator%s(%s)' % (t[1], ', '.join(S(x) for x in t[2]))
    if k == 'conv':
        return 'bool(%s)' % S(t[2]) if 'bool' in t[1] else '(%s)%s' % (t[1], S(t[2]))
    return '<%s>' % '/'.join(str(x) for x in t[:2])
