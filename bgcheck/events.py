"""Event vocabulary: recognises, from resolved declarations, the primitive state mutations of the
graph classes, and computes bottom-up effect summaries of BaseGraph functions.

Event = dict(kind, node, role, ...):
  A.push(x,y) A.removeAll(x,y) A.eraseIt(x,it) A.clear(x) A.resize(n) A.unknown
  N.inc N.dec N.sub(e) N.add(e) N.set(e)       (same for S, T)
  L.set(k,v) L.addAssign(k,m) L.subAssign(k,m) L.erase(k) L.clear L.read(k) L.count(k) L.ref(k) L.unknown
  call(callee fn, summary)
"""
from .model import GRAPH_CLASSES
from .terms import Terms, subterms

LIST = 'std::list::'
LIST_PUSH = {'push_back', 'emplace_back', 'push_front', 'emplace_front', 'insert', 'emplace'}
LIST_READ = {'begin', 'end', 'cbegin', 'cend', 'size', 'empty', 'front', 'back', 'rbegin', 'rend', 'max_size',
             'get_allocator', 'crbegin', 'crend'}
VEC_READ = {'begin', 'end', 'cbegin', 'cend', 'size', 'empty', 'front', 'back', 'at', 'operator[]', 'data',
            'capacity', 'rbegin', 'rend'}
MAP_READ = {'at', 'count', 'find', 'begin', 'end', 'size', 'empty', 'cbegin', 'cend', 'contains', 'equal_range'}


def _strip_cast(t):
    while isinstance(t, tuple) and t and t[0] in ('cast', 'conv') and len(t) == 3:
        t = t[2]
    return t


class Ev:
    __slots__ = ('kind', 'node', 'args', 'fn', 'extra')

    def __init__(self, kind, node, args=(), fn=None, extra=None):
        self.kind = kind
        self.node = node
        self.args = args
        self.fn = fn
        self.extra = extra or {}

    def __repr__(self):
        return 'Ev(%s@%s %s)' % (self.kind, self.node, self.args)


class Events:
    """Events of one function."""

    def __init__(self, model, fn):
        self.m = model
        self.fn = fn
        self.tt = Terms(fn)
        self.events = []
        self.unknown = []
        self._scan()

    def role(self, t):
        """role letter of a term that denotes a state field of this / another graph object."""
        if t[0] == 'field':
            return self.m.role_of_field(t[1])
        if t[0] == 'member':
            return self.m.role_of_field(t[2])
        return None

    def _is_list_param(self, pd):
        f = self.fn
        if f.is_lambda or f.record is None or f.access not in ('private', 'protected') or pd not in f.params:
            return False
        ix = f.params.index(pd)
        ty = f.cptypes[ix] if ix < len(f.cptypes) else ''
        return 'std::list<' in ty.replace('std::__cxx11::', 'std::') and not ty.lstrip().startswith('const ')

    def _scan(self):
        f = self.fn
        m = self.m
        tt = self.tt
        handled_assign_targets = set()
        for n in f.nodes:
            k = n['k']
            nid = n['i']
            if k in ('CXXMemberCallExpr',) and 'callee' in n:
                cd = f.unit.decl(n['callee'])
                name = cd['name']
                rec = cd.get('record', '')
                obj = tt.t(n.get('obj', -1))
                args = tuple(tt.t(a) for a in n.get('args', []))
                # ---- adjacency list element: A[x].method(...)
                if obj[0] == 'idx' and self.role(obj[1]) == 'A' and rec == 'std::list':
                    x = obj[2]
                    if name in LIST_PUSH:
                        self.events.append(Ev('A.push', nid, (x, args[-1] if args else None), f,
                                              dict(method=name, owner=obj[1])))
                    elif name == 'remove':
                        self.events.append(Ev('A.removeAll', nid, (x, args[0]), f, dict(owner=obj[1])))
                    elif name == 'erase':
                        self.events.append(Ev('A.eraseIt', nid, (x, args[0]), f,
                                              dict(owner=obj[1], argnode=n['args'][0], nargs=len(args))))
                    elif name == 'clear':
                        self.events.append(Ev('A.clear', nid, (x,), f, dict(owner=obj[1])))
                    elif name in LIST_READ:
                        pass
                    else:
                        self.events.append(Ev('A.unknown', nid, (x,), f, dict(method=name)))
                        self.unknown.append((nid, 'std::list::%s on an adjacency list' % name))
                # ---- a neighbour list handed to a non-public helper by reference: the events are parametric in the list and
                #      are bound to A[x] where the helper is called (rules_pair.imported_events)
                elif obj[0] == 'var' and rec == 'std::list' and self._is_list_param(obj[1]):
                    x = ('listof', obj)
                    ex = dict(owner=None, listparam=True)
                    if name in LIST_PUSH:
                        self.events.append(Ev('A.push', nid, (x, args[-1] if args else None), f, dict(ex, method=name)))
                    elif name == 'remove':
                        self.events.append(Ev('A.removeAll', nid, (x, args[0]), f, ex))
                    elif name == 'erase':
                        self.events.append(Ev('A.eraseIt', nid, (x, args[0]), f, dict(ex, argnode=n['args'][0], nargs=len(args))))
                    elif name == 'clear':
                        self.events.append(Ev('A.clear', nid, (x,), f, ex))
                    elif name in LIST_READ:
                        pass
                    else:
                        self.events.append(Ev('A.unknown', nid, (x,), f, dict(method=name)))
                        self.unknown.append((nid, 'std::list::%s on a neighbour list parameter' % name))
                # ---- adjacency vector itself
                elif self.role(obj) == 'A' and rec == 'std::vector':
                    if name == 'resize':
                        self.events.append(Ev('A.resize', nid, (args[0],), f, dict(owner=obj)))
                    elif name in VEC_READ:
                        pass
                    else:
                        self.events.append(Ev('A.unknown', nid, (), f, dict(method=name)))
                        self.unknown.append((nid, 'std::vector::%s on the adjacency structure' % name))
                # ---- label store
                elif self.role(obj) == 'L' and rec == 'std::unordered_map':
                    if name == 'erase':
                        self.events.append(Ev('L.erase', nid, (args[0],), f, dict(owner=obj)))
                    elif name == 'clear':
                        self.events.append(Ev('L.clear', nid, (), f, dict(owner=obj)))
                    elif name == 'at':
                        self.events.append(Ev('L.read', nid, (args[0],), f, dict(owner=obj)))
                    elif name in ('count', 'find', 'contains'):
                        self.events.append(Ev('L.count', nid, (args[0],), f, dict(owner=obj)))
                    elif name in MAP_READ:
                        pass
                    elif name == 'insert_or_assign' and len(args) == 2:
                        self.events.append(Ev('L.set', nid, (args[0], args[1]), f, dict(owner=obj)))
                    else:
                        self.events.append(Ev('L.unknown', nid, (), f, dict(method=name)))
                        self.unknown.append((nid, 'std::unordered_map::%s on the label store' % name))
            elif k == 'CXXOperatorCallExpr' and 'callee' in n:
                cd = f.unit.decl(n['callee'])
                op = cd.get('op')
                a = n.get('args', [])
                if op in ('=', '+=', '-=', '*=', '/=') and len(a) == 2:
                    lhs = tt.t(a[0])
                    self._assign(nid, op, lhs, tt.t(a[1]), a[1])
                elif op == '=' and len(a) == 2:
                    pass
            elif k in ('BinaryOperator', 'CompoundAssignOperator'):
                op = n['op']
                if op in ('=', '+=', '-=', '*=', '/=', '|=', '&=', '^=', '<<=', '>>=', '%='):
                    lhs = tt.t(n['c'][0])
                    self._assign(nid, op, lhs, tt.t(n['c'][1]), n['c'][1])
            elif k == 'UnaryOperator' and n['op'] in ('++', '--'):
                tgt = tt.t(n['c'][0])
                r = self.role(tgt)
                if r in ('N', 'S', 'T'):
                    self.events.append(Ev('%s.%s' % (r, 'inc' if n['op'] == '++' else 'dec'), nid, (), f,
                                          dict(owner=tgt)))
                elif tgt[0] == 'idx' and self.role(tgt[1]) == 'L':
                    self.events.append(Ev('L.addAssign' if n['op'] == '++' else 'L.subAssign', nid,
                                          (tgt[2], ('int', 1)), f, dict(owner=tgt[1])))
        # L subscript reads / refs: edgeLabels[k] not on the lhs of an assignment
        assigned = {e.extra.get('lhsnode') for e in self.events if e.extra.get('lhsnode') is not None}
        for n in f.nodes:
            if n['k'] == 'CXXOperatorCallExpr' and 'callee' in n:
                cd = f.unit.decl(n['callee'])
                if cd.get('op') == '[]':
                    a = n.get('args', [])
                    base = tt.t(a[0])
                    if self.role(base) == 'L':
                        self.events.append(Ev('L.ref', n['i'], (tt.t(a[1]),), f, dict(owner=base)))
        self.events.sort(key=lambda e: e.node)

    def _assign(self, nid, op, lhs, rhs, rhsnode):
        f = self.fn
        r = self.role(lhs)
        if r in ('N', 'S', 'T'):
            kind = {'=': 'set', '+=': 'add', '-=': 'sub'}.get(op, 'unknown')
            # x = x + d / x = d + x / x = x - d are the compound forms written out
            if kind == 'set' and rhs[0] == 'bin' and rhs[1] in ('+', '-'):
                if rhs[2] == lhs:
                    kind, rhs = ('add' if rhs[1] == '+' else 'sub'), rhs[3]
                elif rhs[3] == lhs and rhs[1] == '+':
                    kind, rhs = 'add', rhs[2]
            if r == 'N' and kind in ('add', 'sub') and _strip_cast(rhs) == ('int', 1):
                self.events.append(Ev('N.%s' % ('inc' if kind == 'add' else 'dec'), nid, (), f, dict(owner=lhs)))
                return
            self.events.append(Ev('%s.%s' % (r, kind), nid, (rhs,), f, dict(owner=lhs, rhsnode=rhsnode)))
            if kind == 'unknown':
                self.unknown.append((nid, 'operator %s on a counter field' % op))
            return
        if r in ('A', 'L'):
            self.events.append(Ev('%s.unknown' % r, nid, (), f, dict(method='operator' + op)))
            self.unknown.append((nid, 'whole-container assignment to state field'))
            return
        if lhs[0] == 'idx' and self.role(lhs[1]) == 'L':
            kind = {'=': 'L.set', '+=': 'L.addAssign', '-=': 'L.subAssign'}.get(op, 'L.unknown')
            if kind == 'L.set' and rhs[0] == 'bin' and rhs[1] in ('+', '-') and rhs[2] == lhs:
                kind, rhs = ('L.addAssign' if rhs[1] == '+' else 'L.subAssign'), rhs[3]
            self.events.append(Ev(kind, nid, (lhs[2], rhs), f, dict(owner=lhs[1], rhsnode=rhsnode)))
            if kind == 'L.unknown':
                self.unknown.append((nid, 'operator %s on a label-store element' % op))
            return
        if lhs[0] == 'idx' and self.role(lhs[1]) == 'A':
            self.events.append(Ev('A.unknown', nid, (lhs[2],), f, dict(method='list assignment')))
            self.unknown.append((nid, 'assignment to a whole adjacency list'))
            return
        if lhs[0] == 'deref':
            # write through an iterator into an adjacency list?
            for st in subterms(lhs):
                if st[0] == 'idx' and self.role(st[1]) == 'A':
                    self.events.append(Ev('A.unknown', nid, (), f, dict(method='write through iterator')))
                    self.unknown.append((nid, 'write through an iterator into an adjacency list'))
                    return

    def of_kind(self, *prefixes):
        return [e for e in self.events if any(e.kind == p or e.kind.startswith(p) for p in prefixes)]

    def state_writes(self):
        out = []
        for e in self.events:
            if e.kind in ('L.read', 'L.count', 'L.ref'):
                continue
            out.append(e)
        return out


_EV_CACHE = {}


def events_of(model, fn):
    k = (id(model), id(fn))
    if k not in _EV_CACHE:
        _EV_CACHE[k] = Events(model, fn)
    return _EV_CACHE[k]


class Summary:
    """Transitive effects of a function on the state roles of the object it is invoked on."""

    def __init__(self):
        self.writes = set()      # roles written (A, S, N, L, T)
        self.kinds = set()       # event kinds, transitively
        self.depth = 0


_SUM_CACHE = {}


def summary_of(model, fn, _stack=None):
    k = (id(model), id(fn))
    if k in _SUM_CACHE:
        return _SUM_CACHE[k]
    _stack = _stack or []
    if fn in _stack:
        from .ir import AnalysisBroken
        raise AnalysisBroken('recursion in BaseGraph call graph at %s' % fn.display())
    s = Summary()
    ev = events_of(model, fn)
    for e in ev.state_writes():
        s.writes.add(e.kind.split('.')[0])
        s.kinds.add(e.kind)
    # L.ref counts as a write only when assigned through; handled by L.set on resolved refs
    for nid, g in model.callees(fn):
        n = fn.nodes[nid]
        if n['k'] == 'LambdaExpr':
            continue
        if g.record not in GRAPH_CLASSES and not (g.record or '').startswith('BaseGraph::Labeled'):
            continue
        if g.is_const or g.is_static:
            continue
        # only calls on this object (implicit this / explicit base qualification)
        obj = n.get('obj')
        if n['k'] == 'CXXMemberCallExpr':
            ot = ev.tt.t(obj) if obj is not None else ('this',)
            if ot != ('this',):
                continue
        elif n['k'] == 'CXXConstructExpr':
            continue
        cs = summary_of(model, g, _stack + [fn])
        s.writes |= cs.writes
        s.kinds |= cs.kinds
        s.depth = max(s.depth, cs.depth + 1)
    _SUM_CACHE[k] = s
    return s
