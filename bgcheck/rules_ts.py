"""F-TS: typestate rules for invalidation (list iterators across erase/remove/clear, references into the
label store across erase/clear, references into vectors/queues across push/pop), and same-container
iterator comparison in the edge iterators."""
from .model import GRAPH_CLASSES, NS
from .report import Finding, RuleResult
from .rules_pair import Ctx
from .terms import Terms, show, subterms
from .rules_val import var_defs as _var_defs

LIST_INVALIDATING = {'remove', 'remove_if', 'clear', 'erase', 'unique', 'pop_back', 'pop_front', 'resize', 'assign'}
VEC_INVALIDATING = {'push_back', 'emplace_back', 'pop_back', 'resize', 'insert', 'erase', 'clear', 'emplace', 'push',
                    'pop', 'reserve', 'shrink_to_fit', 'assign'}


def _is_assignment_lhs(f, nid):
    """DeclRefExpr nid is the left operand of an assignment (not a read)"""
    p = f.parent.get(nid)
    hops = 0
    child = nid
    while p is not None and hops < 3:
        n = f.nodes[p]
        if n['k'] == 'BinaryOperator' and n.get('op') == '=' and f.strip(n['c'][0]) == nid:
            return p
        if n['k'] == 'CXXOperatorCallExpr' and 'callee' in n and f.unit.decl(n['callee']).get('op') == '=' and \
                n.get('args') and f.strip(n['args'][0]) == nid:
            return p
        if n['k'] in ('ImplicitCastExpr', 'ParenExpr'):
            child = p
            p = f.parent.get(p)
            hops += 1
            continue
        break
    return None


def uses_after(f, start_node, var, stop_nodes=()):
    """DeclRefExpr uses of `var` reachable after CFG element start_node (loops included) without passing an
    assignment to var.  Returns list of use nodes."""
    pos = f.cfg_pos(start_node)
    if pos is None:
        return []
    found = []
    seen = set()
    work = [(pos[0], pos[1] + 1)]
    while work:
        b, ix = work.pop()
        if (b, ix) in seen:
            continue
        seen.add((b, ix))
        blk = f.blocks[b]
        killed = False
        i = ix
        while i < len(blk.elems):
            e = blk.elems[i]
            n = f.nodes[e]
            if n['k'] == 'DeclRefExpr' and n['d'] == var:
                asg = _is_assignment_lhs(f, e)
                if asg is None:
                    found.append(e)
            if n['k'] == 'DeclStmt' and var in n['decls']:
                killed = True
                break
            if (n['k'] == 'BinaryOperator' and n.get('op') == '=') or \
                    (n['k'] == 'CXXOperatorCallExpr' and 'callee' in n and f.unit.decl(n['callee']).get('op') == '='):
                lhs = n['c'][0] if n['k'] == 'BinaryOperator' else (n['args'][0] if n.get('args') else -1)
                ln = f.nodes[f.strip(lhs)] if lhs >= 0 else None
                if ln is not None and ln['k'] == 'DeclRefExpr' and ln['d'] == var:
                    killed = True
                    break
            if e in stop_nodes:
                killed = True
                break
            i += 1
        if killed:
            continue
        for s in blk.succs:
            if s >= 0:
                work.append((s, 0))
    return found


def rule_typestate(m):
    res = RuleResult('F-TS', 'no iterator, reference or pointer is used after the operation that invalidates it: '
                             'list.erase(it) with `it` passed as a plain lvalue, remove/clear on a list that is being '
                             'iterated, references into the label store across erase/clear, references into vectors and '
                             'queues across push/pop/resize')
    for f in m.fns:
        if f.is_lambda and False:
            continue
        u = f.unit
        tt = Terms(f)
        disp = f.display()
        # ---------------- 1. erase(it)
        for n in f.nodes:
            if n['k'] != 'CXXMemberCallExpr' or 'callee' not in n:
                continue
            cd = u.decl(n['callee'])
            if cd.get('record') != 'std::list' or cd['name'] != 'erase':
                continue
            res.sites += 1
            a = n['args'][0]
            t = tt.t(a, resolve_refs=False)
            base = t
            while base[0] in ('ctor', 'cast'):
                base = base[2][0] if base[0] == 'ctor' and base[2] else base[2]
            if base[0] == 'un' and base[1] in ('++', '--') and base[2] is True:
                res.ok(dict(function=disp, erase=f.expr_text(n['i'])[:70], at=f.nloc(n['i']), form='erase(it++): the cursor '
                            'is advanced before the node dies') if len(res.samples) < 8 else None, fn=disp)
                continue
            if base[0] == 'var':
                uses = uses_after(f, n['i'], base[1])
                if uses:
                    res.fail(Finding('F-TS', disp, 'use of iterator %s after erase' % u.decl(base[1])['name'], f.nloc(uses[0]),
                                     'iterator `%s` is passed to erase() at %s as a plain lvalue and used again at %s '
                                     'without being reassigned: it points to a destroyed list node'
                                     % (u.decl(base[1])['name'], f.nloc(n['i']), f.nloc(uses[0]))))
                else:
                    res.ok(dict(function=disp, erase=f.expr_text(n['i'])[:70], at=f.nloc(n['i']),
                                form='erase(it) followed by reassignment / loop exit on every path') if len(res.samples) < 8 else None,
                           fn=disp)
                continue
            if base[0] == 'un' and base[1] in ('++', '--') and base[2] is False:
                res.fail(Finding('F-TS', disp, 'erase(++it)', f.nloc(n['i']),
                                 'erase(++it) erases the *next* node and leaves `it` pointing to it'))
                continue
            res.ok(None, fn=disp)
        # ---------------- 2. invalidating call on a list while a cursor into it is live
        cursors = []     # (var decl, list term, loop node)
        for n in f.nodes:
            if n['k'] == 'CXXForRangeStmt':
                r = tt.t(n['rangeinit'])
                if _is_list_term(f, m, r):
                    cursors.append((None, _norm_list(m, r), n))
        for n in f.nodes:
            if n['k'] in ('DeclStmt',):
                for ix, d in enumerate(n['decls']):
                    if ix < len(n['c']) and n['c'][ix] >= 0:
                        t = tt.t(n['c'][ix])
                        if t[0] == 'mcall' and t[1] in ('std::list::begin', 'std::list::cbegin'):
                            cursors.append((d, _norm_list(m, t[2]), n))
            if n['k'] in ('BinaryOperator', 'CXXOperatorCallExpr'):
                t = tt.t(n['i'], resolve_refs=True)
                if t[0] == 'bin' and t[1] == '=' and t[2][0] == 'var' and t[3][0] == 'mcall' and \
                        t[3][1] in ('std::list::begin', 'std::list::cbegin'):
                    cursors.append((t[2][1], _norm_list(m, t[3][2]), n))
        if cursors:
            for n in f.nodes:
                if n['k'] != 'CXXMemberCallExpr' or 'callee' not in n:
                    continue
                cd = u.decl(n['callee'])
                if cd.get('record') != 'std::list' or cd['name'] not in LIST_INVALIDATING or cd['name'] == 'erase':
                    continue
                lt = _norm_list(m, tt.t(n['obj']))
                for (cv, clist, cnode) in cursors:
                    # is the cursor live here?
                    if cv is None:
                        if n['i'] not in f.descendants(cnode['body']):
                            continue
                    res.sites += 1
                    alias = _may_alias(f, tt, lt, clist, n['i'])
                    if not alias:
                        res.ok(dict(function=disp, call=f.expr_text(n['i'])[:60], cursor_list=show(clist, u),
                                    verdict='different list (index terms differ under a dominating x != y / distinct)')
                               if len(res.samples) < 12 else None, fn=disp)
                        continue
                    if cv is None:
                        # range-for: the hidden iterator is used by the increment
                        inc = cnode.get('inc', -1)
                        bad = inc >= 0 and f.can_reach(n['i'], inc)
                        if bad:
                            res.fail(Finding('F-TS', disp, '%s on the list being iterated' % cd['name'], f.nloc(n['i']),
                                             '`%s` modifies the list that the enclosing range-for iterates; the hidden '
                                             'iterator is advanced afterwards' % f.expr_text(n['i'])[:60]))
                        else:
                            res.ok(None, fn=disp)
                    else:
                        uses = uses_after(f, n['i'], cv)
                        if uses and f.can_reach(cnode['i'], n['i']):
                            res.fail(Finding('F-TS', disp, '%s while iterator %s is live' % (cd['name'], u.decl(cv)['name']),
                                             f.nloc(n['i']),
                                             '`%s` may invalidate iterator `%s` into the same list, which is used again at %s'
                                             % (f.expr_text(n['i'])[:60], u.decl(cv)['name'], f.nloc(uses[0]))))
                        else:
                            res.ok(None, fn=disp)
        # ---------------- 3./4. references
        for n in f.nodes:
            if n['k'] != 'DeclStmt':
                continue
            for ix, d in enumerate(n['decls']):
                dd = u.decl(d)
                if dd['dk'] != 'Var' or not dd.get('isref') or ix >= len(n['c']) or n['c'][ix] < 0:
                    continue
                if any(x['k'] == 'CXXForRangeStmt' and x.get('loopvarstmt') == n['i'] for x in f.nodes):
                    continue
                t = tt.t(n['c'][ix], resolve_refs=True)
                container = None
                kind = None
                while t[0] in ('cast', 'conv') and len(t) > 2 and isinstance(t[2], tuple):
                    t = t[2]
                if t[0] == 'call' and t[1] in ('std::min', 'std::max') and len(t[2]) >= 2:
                    # std::min / std::max return a reference to one of their arguments: the new reference aliases whichever
                    # argument is itself a reference into a container
                    for a_ in t[2][:2]:
                        a_ = a_[2] if a_[0] in ('cast', 'conv') and len(a_) > 2 and isinstance(a_[2], tuple) else a_
                        if a_[0] == 'idx' or (a_[0] == 'mcall' and a_[1].split('::')[-1] in ('at', 'front', 'back', 'top')):
                            t = a_
                            break
                if t[0] == 'idx':
                    bt = t[1]
                    if bt[0] in ('field', 'member') and m.role_of_field(bt[-1]) == 'L':
                        container, kind = bt, 'map'
                    elif bt[0] in ('field', 'member') and m.role_of_field(bt[-1]) == 'A':
                        container, kind = bt, 'adjacency'
                    elif bt[0] == 'var' and u.decl(bt[1]).get('ctype', '').startswith('std::vector<'):
                        container, kind = bt, 'vector'
                elif t[0] == 'mcall' and t[1].split('::')[-1] in ('at',) and t[2][0] in ('field', 'member') and \
                        m.role_of_field(t[2][-1]) == 'L':
                    container, kind = t[2], 'map'
                elif t[0] == 'mcall' and t[1].split('::')[-1] in ('front', 'back', 'top', 'at') and t[2][0] == 'var':
                    ct = u.decl(t[2][1]).get('ctype', '')
                    if ct.startswith(('std::vector<', 'std::queue<', 'std::deque<', 'std::stack<')):
                        container, kind = t[2], 'vector'
                if container is None and t[0] == 'deref' and t[1][0] == 'var' and \
                        'List_' in (u.decl(t[1][1]) or {}).get('ctype', '').replace('std::list<', 'List_<'):
                    # 3b. a reference to the element a list iterator points at dies with the node: erase(it) / erase(it++)
                    itv = t[1]
                    for x in f.nodes:
                        if x['k'] != 'CXXMemberCallExpr' or 'callee' not in x:
                            continue
                        cd = u.decl(x['callee'])
                        if cd.get('record') != 'std::list' or cd['name'] != 'erase' or not x.get('args'):
                            continue
                        bt = tt.t(x['args'][0], resolve_refs=False)
                        while bt[0] in ('ctor', 'cast', 'conv'):
                            bt = bt[2][0] if bt[0] == 'ctor' and bt[2] else bt[2]
                        if bt[0] == 'un' and bt[1] in ('++', '--'):
                            bt = bt[3] if len(bt) > 3 else bt
                        if bt != itv or not f.can_reach(n['i'], x['i']):
                            continue
                        res.sites += 1
                        uses = uses_after(f, x['i'], d)
                        if uses:
                            res.fail(Finding('F-TS', disp, 'use of reference %s after erase of its node' % dd['name'], f.nloc(uses[0]),
                                             'reference `%s` is bound to the element `*%s`; `%s` at %s destroys that list node and '
                                             'the reference is read again at %s' % (dd['name'], u.decl(itv[1])['name'],
                                                                                    f.expr_text(x['i'])[:50], f.nloc(x['i']), f.nloc(uses[0]))))
                        else:
                            res.ok(dict(function=disp, reference=dd['name'], into='*' + u.decl(itv[1])['name'], invalidated_by='erase',
                                        at=f.nloc(x['i']), verdict='no use afterwards') if len(res.samples) < 20 else None, fn=disp)
                    continue
                if container is None:
                    continue
                for x in f.nodes:
                    if x['k'] != 'CXXMemberCallExpr' or 'callee' not in x:
                        continue
                    cd = u.decl(x['callee'])
                    if tt.t(x['obj'], resolve_refs=True) != container:
                        continue
                    nm = cd['name']
                    if kind == 'map' and nm not in ('erase', 'clear'):
                        continue
                    if kind == 'vector' and nm not in VEC_INVALIDATING:
                        continue
                    if kind == 'adjacency' and nm not in ('resize', 'clear', 'push_back', 'erase'):
                        continue
                    if not f.can_reach(n['i'], x['i']):
                        continue
                    res.sites += 1
                    uses = uses_after(f, x['i'], d)
                    # a loop re-executes the declaration and rebinds the reference: uses_after stops at the DeclStmt
                    if uses:
                        res.fail(Finding('F-TS', disp, 'use of reference %s after %s' % (dd['name'], nm), f.nloc(uses[0]),
                                         'reference `%s` into %s is used at %s after `%s` at %s, which invalidates it'
                                         % (dd['name'], show(container, u), f.nloc(uses[0]), f.expr_text(x['i'])[:50], f.nloc(x['i']))))
                    else:
                        res.ok(dict(function=disp, reference=dd['name'], into=show(container, u), invalidated_by=nm,
                                    at=f.nloc(x['i']), verdict='no use afterwards') if len(res.samples) < 20 else None, fn=disp)
    # ---------------- 4b. the iterator returned by a lookup is dereferenced only after comparison with end()
    LOOKUPS = ('find', 'lower_bound', 'upper_bound')
    for f in m.fns:
        u = f.unit
        tt = Terms(f)
        disp = f.display()

        def is_lookup(t):
            return (t[0] == 'mcall' and t[1].split('::')[-1] in LOOKUPS and
                    t[1].split('::')[0] == 'std') or (t[0] == 'call' and t[1] in (
                        'std::find', 'std::find_if', 'std::find_if_not', 'std::max_element', 'std::min_element', 'std::adjacent_find',
                        'std::lower_bound', 'std::upper_bound', 'std::find_first_of', 'std::search'))
        for n in f.nodes:
            if n['k'] != 'CXXOperatorCallExpr' or 'callee' not in n:
                continue
            op = u.decl(n['callee']).get('op')
            a = n.get('args', [])
            if op not in ('->', '*') or len(a) != 1:
                continue
            t = tt.t(a[0], resolve_refs=False)
            if is_lookup(t):
                res.sites += 1
                res.fail(Finding('F-TS', disp, 'lookup result dereferenced without end() test', f.nloc(n['i']),
                                 'the iterator returned by `%s` is dereferenced directly: when the key is absent it is end(), '
                                 'whose dereference is undefined' % f.expr_text(a[0])[:60]))
                continue
            if t[0] == 'var':
                defs = [d for d in _var_defs(f, t[1]) if d[1] >= 0]
                lk = [d for d in defs if is_lookup(tt.t(d[1]))]
                if not lk:
                    continue
                res.sites += 1
                from .rules_wl import implied
                alldefs = {d[0] for d in defs}
                target = f.cfg_pos(n['i'])

                def guarded_edge(bb, ix):
                    atom = f.branch_atom(bb)
                    if atom is None:
                        return False
                    for (at, pol) in implied(tt.t(atom), ix == 0):
                        # the searched range is known not to be empty (max_element / min_element then return an element)
                        for (dn0, rhs0) in lk:
                            lt0 = tt.t(rhs0)
                            if lt0[0] == 'call' and lt0[1] in ('std::max_element', 'std::min_element') and lt0[2] and \
                                    lt0[2][0][0] == 'mcall' and lt0[2][0][1].endswith(('::begin', '::cbegin')):
                                C = lt0[2][0][2]
                                x0 = at
                                while x0[0] in ('conv', 'cast'):
                                    x0 = x0[2]
                                if x0[0] == 'mcall' and x0[1].endswith('::empty') and x0[2] == C and not pol:
                                    return True
                                if x0[0] == 'bin' and x0[1] in ('!=', '>') and x0[2][0] == 'mcall' and x0[2][1].endswith('::size') and \
                                        x0[2][2] == C and x0[3] == ('int', 0) and pol:
                                    return True
                        if at[0] == 'bin' and at[1] in ('!=', '==') and t in (at[2], at[3]):
                            other = at[3] if at[2] == t else at[2]
                            if other[0] == 'mcall' and other[1].endswith(('::end', '::cend')) and ((at[1] == '!=') == pol):
                                return True
                    return False
                # walk forward from every lookup definition: the dereference must not be reachable before a `!= end()`
                # edge or a redefinition of the iterator (insert/emplace results are always dereferenceable)
                ok = target is not None
                for (dn, _) in lk:
                    start = f.cfg_pos(dn)
                    if start is None or not ok:
                        continue
                    seen = set()
                    work = [(start[0], start[1] + 1)]
                    while work and ok:
                        b, ix = work.pop()
                        if (b, ix) in seen:
                            continue
                        seen.add((b, ix))
                        blk = f.blocks[b]
                        stop = False
                        for e in blk.elems[ix:]:
                            if (b, blk.elems.index(e)) == target:
                                ok = False
                                stop = True
                                break
                            if e in alldefs:
                                stop = True
                                break
                        if stop:
                            continue
                        for si, sx in enumerate(blk.succs):
                            if sx is not None and sx >= 0 and not guarded_edge(b, si):
                                work.append((sx, 0))
                if ok:
                    res.ok(dict(function=disp, iterator=u.decl(t[1])['name'], at=f.nloc(n['i']), guard='!= end()')
                           if len(res.samples) < 30 else None, fn=disp)
                else:
                    res.fail(Finding('F-TS', disp, 'iterator %s dereferenced without end() test' % u.decl(t[1])['name'], f.nloc(n['i']),
                                     'iterator `%s` obtained from a lookup is dereferenced on a path where it has not been '
                                     'compared with end()' % u.decl(t[1])['name']))
    # ---------------- 5. edge iterator equality compares the vertex first
    for cls in ('LabeledDirectedGraph', 'LabeledUndirectedGraph'):
        for f in m.by_tname.get(NS + cls + '::Edges::constEdgeIterator::operator==', []):
            res.sites += 1
            tt = Terms(f)
            rets = [n for n in f.nodes if n['k'] == 'ReturnStmt']
            t = tt.t(f.children(rets[0]['i'])[0]) if len(rets) == 1 else ('none',)
            ok = t[0] == 'bin' and t[1] == '&&' and t[2][0] == 'bin' and t[2][1] == '==' and \
                t[2][2][0] == 'field' and t[2][2][1].endswith('::vertex') and t[3][0] == 'bin' and t[3][1] == '==' and \
                t[3][2][0] == 'field' and t[3][2][1].endswith('::neighbour')
            if ok:
                res.ok(dict(function=f.display(), shape='vertex == rhs.vertex && neighbour == rhs.neighbour (list iterators '
                            'compared only for the same vertex, i.e. the same list)') if len(res.samples) < 24 else None, fn=f.display())
            else:
                res.fail(Finding('F-TS', f.display(), 'iterator comparison', f.where(),
                                 'list iterators of possibly different lists are compared: the vertex must be compared first '
                                 'and short-circuit the comparison'))
    res.require_sites(22, 'invalidation sites')
    return res


def _is_list_term(f, m, t):
    if t[0] == 'idx' and t[1][0] in ('field', 'member') and m.role_of_field(t[1][-1]) == 'A':
        return True
    if t[0] == 'mcall' and t[1].endswith(('::getOutNeighbours', '::getNeighbours')):
        return True
    if t[0] == 'var':
        return f.unit.decl(t[1]).get('ctype', '').replace('const ', '').startswith('std::list<')
    return False


def _norm_list(m, t):
    """getOutNeighbours(x) on this  ==  adjacencyList[x]"""
    if t[0] == 'mcall' and t[1].endswith(('::getOutNeighbours', '::getNeighbours')) and t[2] == ('this',):
        fld = next(iter(m.role_field['A']))
        return ('idx', ('field', fld), t[3][0])
    return t


def _may_alias(f, tt, a, b, at):
    if a == b:
        return True
    if a[0] == 'idx' and b[0] == 'idx' and a[1] == b[1]:
        x, y = a[2], b[2]
        if x == y:
            return True
        # a dominating fact x != y (or the negation of x == y) separates them
        pos = f.cfg_pos(at)
        if pos is not None:
            for (bb, ix) in f.dominating_edges(pos[0]):
                atom = f.branch_atom(bb)
                t = tt.t(atom) if atom is not None else None
                if t and t[0] == 'bin' and {t[2], t[3]} == {x, y}:
                    if (t[1] == '!=' and ix == 0) or (t[1] == '==' and ix == 1):
                        return False
        return True
    if a[0] == 'var' and b[0] == 'var':
        return a == b
    return False


# ------------------------------------------------------------------------------------------------
WIDTH = {'int': 32, 'unsigned int': 32, 'long': 64, 'unsigned long': 64, 'long long': 64, 'unsigned long long': 64,
         'short': 16, 'unsigned short': 16, 'signed char': 8, 'unsigned char': 8, 'char': 8}
SIGNED = {'int', 'long', 'long long', 'short', 'signed char'}
UNSIGNED = {'unsigned int', 'unsigned long', 'unsigned long long', 'unsigned short', 'unsigned char'}


def rule_signed_arith(m):
    """F-SOVF: arithmetic on unsigned library quantities is not carried out in a signed type of the same or smaller width."""
    res = RuleResult('F-SOVF', 'no +, - or * is evaluated in a signed integer type on operands converted from an unsigned type '
                               'at least as wide (multiplicities, counts, indices): every value of the unsigned type must be '
                               'representable in the type the arithmetic is done in, else the operation can overflow (undefined '
                               'behaviour)')
    CASTS = ('ImplicitCastExpr', 'CStyleCastExpr', 'CXXStaticCastExpr', 'CXXFunctionalCastExpr')
    for f in list(m.fns) + _fixture_functions('signed_arith'):
        if not f.tname.startswith(NS):
            continue
        for n in f.nodes:
            if n['k'] != 'BinaryOperator' or n.get('op') not in ('+', '-', '*') or n.get('t') not in SIGNED:
                continue
            rt = n['t']
            srcs = []
            for c in n['c']:
                x = c
                while x >= 0 and f.nodes[x]['k'] == 'ParenExpr':
                    x = f.nodes[x]['c'][0]
                hops = 0
                while x >= 0 and f.nodes[x]['k'] in CASTS and hops < 4:
                    xn = f.nodes[x]
                    inner = [k for k in xn['c'] if k >= 0]
                    if not inner:
                        break
                    it = f.nodes[inner[0]].get('t', '').replace('const ', '')
                    if xn.get('ck') == 'IntegralCast' and it in UNSIGNED and xn.get('t', '').replace('const ', '') in SIGNED:
                        srcs.append((it, x))
                    x = inner[0]
                    hops += 1
            if not srcs:
                continue
            res.sites += 1
            bad = [(it, x) for it, x in srcs if WIDTH.get(it, 0) >= WIDTH.get(rt, 0)]
            if bad:
                res.fail(Finding('F-SOVF', f.display(), 'signed arithmetic `%s`' % f.expr_text(n['i'])[:50], f.nloc(n['i']),
                                 '`%s` is evaluated in `%s` on a value converted from `%s`: values above the maximum of `%s` wrap '
                                 'on conversion and the operation can overflow the signed type (undefined behaviour); use a wider '
                                 'signed type or unsigned arithmetic' % (f.expr_text(n['i'])[:60], rt, bad[0][0], rt)))
            else:
                res.ok(dict(function=f.display(), expr=f.expr_text(n['i'])[:60], type=rt, from_types=sorted({it for it, _ in srcs}))
                       if len(res.samples) < 6 else None, fn=f.display())
    _fixture_verdict(res, 'signed_arith')
    res.require_sites(1, 'signed arithmetic on converted unsigned values')
    return res


def _fixture_functions(tag):
    from . import facts
    try:
        u = facts.load_fixture()
    except Exception:
        return []
    return [f for f in u.functions if f.tname.startswith(NS + 'fixture::') and f.name.endswith(tag if tag.startswith('_') else '_' + tag)
            or (f.tname.startswith(NS + 'fixture::') and tag in f.name)]


def _fixture_verdict(res, tag):
    """The tiny examples of fixtures/positive.cpp are analysed with the library: `bad_<tag>` must be reported and
    `good_<tag>` must not.  Their findings are then removed from the result (they are not library code); a mismatch
    makes the rule inconclusive (its machinery no longer recognises what it is meant to recognise)."""
    fx = [f for f in res.findings if 'fixture::' in f.function]
    res.findings = [f for f in res.findings if 'fixture::' not in f.function]
    res.obligations -= len(fx)          # the example that must be reported is not an obligation of the library
    res.functions = {x for x in res.functions if 'fixture::' not in x}
    fns = _fixture_functions(tag)
    bad_reported = any('bad_' in f.function for f in fx)
    good_reported = any('good_' in f.function for f in fx)
    if not fns:
        res.broken('%s: the positive examples of fixtures/positive.cpp could not be analysed' % res.rule)
    elif not bad_reported or good_reported:
        res.broken('%s: self-check failed on fixtures/positive.cpp (bad example reported: %s, good example reported: %s)'
                   % (res.rule, bad_reported, good_reported))
    else:
        res.notes.append('self-check: bad_%s reported, good_%s silent (fixtures/positive.cpp)' % (tag, tag))


def rule_cursor_direction(m):
    """F-CURSOR: list cursors only move forward."""
    res = RuleResult('F-CURSOR', 'a cursor into a neighbour list (std::list iterator local) that starts at begin() is only ever '
                                 'advanced (++, erase(it++), it = erase(it)), never decremented: every traversal of the library is a '
                                 'single forward pass, and `--` on begin() is undefined (with libstdc++ it lands on end() and silently '
                                 'ends the pass)')
    for f in list(m.fns) + _fixture_functions('cursor'):
        if not f.tname.startswith(NS):
            continue
        u = f.unit
        tt = Terms(f)
        for n in f.nodes:
            tgt = None
            op = None
            if n['k'] == 'UnaryOperator' and n.get('op') in ('++', '--'):
                tgt, op = tt.t(n['c'][0], resolve_refs=False), n['op']
            elif n['k'] == 'CXXOperatorCallExpr' and 'callee' in n and u.decl(n['callee']).get('op') in ('++', '--') and n.get('args'):
                tgt, op = tt.t(n['args'][0], resolve_refs=False), u.decl(n['callee'])['op']
            if tgt is None or tgt[0] not in ('var', 'field'):
                continue
            ct = u.decl(tgt[1]).get('ctype', '') if tgt[0] == 'var' else ''
            if tgt[0] == 'field':
                ct = 'std::_List_const_iterator' if tgt[1].endswith('::neighbour') else ''
            if '_List_iterator' not in ct and '_List_const_iterator' not in ct:
                continue
            res.sites += 1
            if op == '--':
                res.fail(Finding('F-CURSOR', f.display(), 'cursor decremented', f.nloc(n['i']),
                                 'the list cursor `%s` is decremented: the traversals of the library are single forward passes; stepping '
                                 'back from begin() is undefined and in practice ends the pass at once, so the remaining entries '
                                 'are never examined' % f.expr_text(n['i'])[:40]))
            else:
                res.ok(dict(function=f.display(), step=f.expr_text(n['i'])[:40]) if len(res.samples) < 6 else None, fn=f.display())
    _fixture_verdict(res, 'cursor')
    res.require_sites(10, 'cursor steps')
    return res


def rule_cursor_live(m):
    """F-CURSOR.live: a cursor that walks a neighbour list is not invalidated by what the loop body does to that list."""
    from .rules_pair import Ctx, callee_events, _erase_cursor
    from .model import GRAPH_CLASSES
    res = RuleResult('F-CURSOR.live', 'inside a loop that walks the neighbour list A[x] with an iterator (j = A[x].begin(); j != '
                                      'A[x].end()), entries of the same list are erased only through that iterator (erase(j++), '
                                      'j = erase(j)): a remove(value) / clear() / erase of another position on A[x] - written in the '
                                      'body or performed by a function the body calls - can free the node the iterator points to')
    for f in m.fns:
        if f.record not in GRAPH_CLASSES or f.is_lambda or not f.has_cfg:
            continue
        ctx = Ctx(m, f)
        tt = ctx.tt
        for ln in f.nodes:
            if ln['k'] not in ('WhileStmt', 'ForStmt') or ln.get('cond', -1) < 0:
                continue
            c = tt.t(ln['cond'])
            if not (c[0] == 'bin' and c[1] == '!=' and c[2][0] == 'var' and c[3][0] == 'mcall' and c[3][1] == 'std::list::end'
                    and c[3][2][0] == 'idx' and ctx.ev.role(c[3][2][1]) == 'A'):
                continue
            cur, x = c[2], c[3][2][2]
            body = set(f.descendants(ln['body'])) if ln.get('body', -1) >= 0 else set()
            if not body:
                continue
            res.sites += 1
            bad = None
            for e in ctx.ev.of_kind('A.removeAll', 'A.clear', 'A.eraseIt'):
                if e.node in body and e.args and e.args[0] == x and not e.extra.get('via'):
                    if e.kind == 'A.eraseIt' and _erase_cursor(e) == cur:
                        continue
                    bad = (e.node, e.kind, None)
            for cn in f.nodes:
                if cn['i'] in body and cn['k'] in ('CXXMemberCallExpr', 'CallExpr') and 'callee' in cn:
                    for e in callee_events(m, f, cn['i']):
                        if e.kind in ('A.removeAll', 'A.clear', 'A.eraseIt', 'A.resize') and (e.kind == 'A.resize' or (e.args and e.args[0] == x)):
                            if e.kind == 'A.eraseIt' and _erase_cursor(e) == cur:
                                continue
                            bad = (cn['i'], e.kind, e.extra.get('via'))
            if bad:
                res.fail(Finding('F-CURSOR.live', f.display(), 'list mutated under its cursor', f.nloc(bad[0]),
                                 '`%s` %s on the list that the loop `%s` walks with the iterator `%s`: when the entry the iterator has '
                                 'moved to holds the same value (adjacent duplicates) its node is freed and the next test / '
                                 'dereference reads freed memory'
                                 % (f.expr_text(bad[0])[:50], {'A.removeAll': 'removes every entry equal to a value', 'A.clear': 'clears',
                                                               'A.eraseIt': 'erases another position', 'A.resize': 'reallocates the lists'}[bad[1]] +
                                    (' (in %s)' % bad[2] if bad[2] else ''), show(('idx', ('var', 0), x), f.unit) if False else f.expr_text(ln['cond'])[:40],
                                    show(cur, f.unit))))
            else:
                res.ok(dict(function=f.display(), loop=f.expr_text(ln['cond'])[:50]) if len(res.samples) < 8 else None, fn=f.display())
    res.require_sites(4, 'cursor loops over neighbour lists')
    return res


_WIDTHS = {'bool': (1, 'i'), 'char': (8, 'i'), 'signed char': (8, 'i'), 'unsigned char': (8, 'i'), 'short': (16, 'i'),
           'unsigned short': (16, 'i'), 'int': (32, 'i'), 'unsigned int': (32, 'i'), 'long': (64, 'i'), 'unsigned long': (64, 'i'),
           'long long': (64, 'i'), 'unsigned long long': (64, 'i'), 'float': (32, 'f'), 'double': (64, 'f'), 'long double': (80, 'f')}


def _width(ct):
    ct = (ct or '').replace('const ', '').replace('&', '').strip()
    return _WIDTHS.get(ct)


def rule_accumulator_width(m):
    """F-ACCW: a sum is computed in a type that can hold what is added to it."""
    res = RuleResult('F-ACCW', 'the accumulator of a fold is at least as wide as the values folded into it: the initial value of '
                               'std::accumulate (whose type IS the accumulator type) is not narrower than what its function object '
                               'returns, and a local that collects a sum inside a loop is not narrower than the counter it is finally '
                               'applied to (a 32-bit or integer accumulator truncates 64-bit totals / real weights at every step)')
    for f in list(m.fns) + _fixture_functions('accwidth'):
        if not f.tname.startswith(NS):
            continue
        u = f.unit
        tt = Terms(f)
        for n in f.nodes:
            if n['k'] == 'CallExpr' and 'callee' in n and u.decl(n['callee'])['tname'] == 'std::accumulate' and len(n.get('args', [])) == 4:
                acc = _width(n.get('t'))
                lam = f.nodes[f.strip(n['args'][3])]
                if acc is None or lam['k'] != 'LambdaExpr':
                    continue
                cd = u.decl(lam.get('callop', -1)) or {}
                ret = _width(cd.get('crtype', ''))
                if ret is None:
                    continue
                res.sites += 1
                if (acc[1] == 'i' and ret[1] == 'f') or (acc[1] == ret[1] and acc[0] < ret[0]):
                    res.fail(Finding('F-ACCW', f.display(), 'std::accumulate initial value', f.nloc(n['i']),
                                     'the fold is computed in `%s` (the type of its initial value `%s`) while the function object '
                                     'returns `%s`: every partial sum is converted back to the narrower type, so the result is '
                                     'truncated as soon as it no longer fits' % (n.get('t'), f.expr_text(n['args'][2])[:20], cd.get('crtype'))))
                else:
                    res.ok(dict(function=f.display(), accumulator=n.get('t'), step=cd.get('crtype')) if len(res.samples) < 8 else None,
                           fn=f.display())
        # a local sum applied to a wider counter
        loops = [x for x in f.nodes if x['k'] in ('ForStmt', 'WhileStmt', 'DoStmt', 'CXXForRangeStmt')]
        for n in f.nodes:
            if n['k'] not in ('CompoundAssignOperator', 'BinaryOperator') or n.get('op') not in ('+=', '-='):
                continue
            rhs = f.nodes[f.strip(n['c'][1])]
            if rhs['k'] != 'DeclRefExpr' or not (u.decl(rhs['d']) or {}).get('local') or u.decl(rhs['d'])['dk'] != 'Var' or \
                    u.decl(rhs['d']).get('isref'):
                continue
            # (a sum: starts at the literal 0 and is only ever added to)
            inits0 = [d for d in _var_defs(f, rhs['d']) if d[1] >= 0]
            if len(inits0) != 1 or tt.t(inits0[0][1]) not in (('int', 0), ('float', '0.000000')) and \
                    not (tt.t(inits0[0][1])[0] in ('cast', 'ctor') and ('int', 0) in list(subterms(tt.t(inits0[0][1])))):
                continue
            sink = _width(f.nodes[f.strip(n['c'][0])].get('t') or n.get('t'))
            src = _width(u.decl(rhs['d']).get('ctype'))
            if sink is None or src is None:
                continue
            summed = [d for d in _var_defs(f, rhs['d']) if d[1] == -2 and any(d[0] in f.descendants(l.get('body', -1)) for l in loops if l.get('body', -1) >= 0)]
            if not summed:
                continue
            res.sites += 1
            if (src[1] == 'i' and sink[1] == 'f' and False) or (src[1] == sink[1] and src[0] < sink[0]) or (src[1] == 'i' and sink[1] == 'f' and src[0] < 64):
                res.fail(Finding('F-ACCW', f.display(), 'local accumulator', f.nloc(n['i']),
                                 '`%s` applies the local `%s` (%s), which collects a sum inside a loop, to a counter of type %s: the '
                                 'partial sums wrap / truncate in the narrower local before they reach the counter'
                                 % (f.expr_text(n['i'])[:50], u.decl(rhs['d'])['name'], u.decl(rhs['d']).get('ctype'),
                                    f.nodes[f.strip(n['c'][0])].get('t') or n.get('t'))))
            else:
                res.ok(dict(function=f.display(), local=u.decl(rhs['d'])['name']) if len(res.samples) < 8 else None, fn=f.display())
    _fixture_verdict(res, 'accwidth')
    return res


def rule_second_range(m):
    """F-RANGE2: algorithms that take a second range by its first iterator only."""
    res = RuleResult('F-RANGE2', 'std::equal / std::is_permutation / std::mismatch are not called in their three-iterator form (second '
                                 'range given by its begin only) unless the lengths of the two ranges have been compared on the way: '
                                 'the form reads as many elements of the second range as the first has')
    for f in list(m.fns) + _fixture_functions('secondrange'):
        if not f.tname.startswith(NS):
            continue
        tt = Terms(f)
        for n in f.nodes:
            if n['k'] != 'CallExpr' or 'callee' not in n:
                continue
            tn = f.unit.decl(n['callee'])['tname']
            if tn not in ('std::equal', 'std::is_permutation', 'std::mismatch'):
                continue
            a = [tt.t(x) for x in n.get('args', [])]
            its = [x for x in a if x[0] == 'mcall' and x[1].split('::')[-1] in ('begin', 'end', 'cbegin', 'cend')]
            if len(its) != 3:
                continue
            res.sites += 1
            c1, c2 = its[0][2], its[2][2]
            from .rules_pair import region_atoms
            sized = False
            for at in region_atoms(f, tt, n['i']):
                if at[0] == 'bin' and at[1] == '==' and all(x[0] == 'mcall' and x[1].endswith('::size') for x in (at[2], at[3])) and \
                        {at[2][2], at[3][2]} == {c1, c2}:
                    sized = True
            if sized:
                res.ok(dict(function=f.display(), call=f.expr_text(n['i'])[:50], guard='sizes compared'), fn=f.display())
            else:
                res.fail(Finding('F-RANGE2', f.display(), 'second range without its end', f.nloc(n['i']),
                                 '`%s` gives the second range by its first iterator only: when it is shorter than the first range the '
                                 'algorithm reads past its end (undefined; with lists it walks through the sentinel node)'
                                 % f.expr_text(n['i'])[:70]))
    res.sites += 1
    res.ok(None)
    _fixture_verdict(res, 'secondrange')
    return res


def rule_shift_width(m):
    """D-SHIFT: a mask wider than int is not built by shifting an int."""
    res = RuleResult('D-SHIFT', '`1 << n` with an `int` left operand is not used to build a value of a 64-bit type: the shift is done in '
                                '32 bits (undefined for n >= 32, in practice the bit lands 32 places lower), whatever the type the result '
                                'is then converted to')
    for f in list(m.fns) + _fixture_functions('shiftwidth'):
        if not f.tname.startswith(NS):
            continue
        for n in f.nodes:
            if n['k'] != 'BinaryOperator' or n.get('op') != '<<' or n.get('t') not in ('int', 'unsigned int'):
                continue
            lhs = f.nodes[f.strip(n['c'][0])]
            rhs = f.nodes[f.strip(n['c'][1])]
            if lhs['k'] != 'IntegerLiteral' or rhs['k'] == 'IntegerLiteral':
                continue
            # where does the value go?  the nearest enclosing assignment / initialisation of a 64-bit integer
            sink = None
            for a in f.ancestors(n['i']):
                an = f.nodes[a]
                if an['k'] in ('CompoundAssignOperator', 'BinaryOperator') and an.get('op', '') in ('|=', '&=', '^=', '=', '+='):
                    sink = f.nodes[f.strip(an['c'][0])].get('t')
                    break
                if an['k'] == 'DeclStmt' and len(an.get('decls', [])) == 1:
                    sink = f.unit.decl(an['decls'][0]).get('ctype')
                    break
                if an['k'] in ('ReturnStmt', 'CallExpr', 'CXXMemberCallExpr'):
                    break
            w = _width(sink)
            if w is None:
                continue
            res.sites += 1
            if w[1] == 'i' and w[0] <= 32:
                # a 32-bit local that holds the mask: where is it combined with a 64-bit word?
                for a in f.ancestors(n['i']):
                    an = f.nodes[a]
                    if an['k'] == 'DeclStmt' and len(an.get('decls', [])) == 1:
                        dv = an['decls'][0]
                        for x in f.nodes:
                            if x['k'] in ('CompoundAssignOperator', 'BinaryOperator') and x.get('op') in ('|=', '&=', '^=', '|', '&', '^'):
                                ops = [f.nodes[f.strip(c)] for c in x['c'][:2]]
                                if any(o['k'] == 'DeclRefExpr' and o.get('d') == dv for o in ops):
                                    ow = [_width(o.get('t')) for o in ops if not (o['k'] == 'DeclRefExpr' and o.get('d') == dv)]
                                    if ow and ow[0] is not None and ow[0][1] == 'i' and ow[0][0] > 32:
                                        w = ow[0]
                                        sink = [o.get('t') for o in ops if not (o['k'] == 'DeclRefExpr' and o.get('d') == dv)][0]
                        break
            if w[1] == 'i' and w[0] > 32:
                res.fail(Finding('D-SHIFT', f.display(), '32-bit shift into a 64-bit value', f.nloc(n['i']),
                                 '`%s` shifts an `int`: for a shift count of 32 or more the bit does not land where the 64-bit `%s` '
                                 'expects it (write the literal with the width of the target, e.g. 1ULL)' % (f.expr_text(n['i'])[:40], sink)))
            else:
                res.ok(None, fn=f.display())
    res.sites += 1
    res.ok(None)
    _fixture_verdict(res, 'shiftwidth')
    return res


def rule_string_plus_int(m):
    """D-STRPLUS: `"text" + n` is pointer arithmetic."""
    res = RuleResult('D-STRPLUS', 'no `+` has a string literal (a const char array) on one side and an integer on the other: that is '
                                  'pointer arithmetic into / past the literal, not concatenation (an error message built this way '
                                  'reads out of bounds when the exception is constructed)')
    for f in list(m.fns) + _fixture_functions('strplus'):
        if not f.tname.startswith(NS):
            continue
        for n in f.nodes:
            if n['k'] != 'BinaryOperator' or n.get('op') != '+':
                continue
            a, b = f.nodes[f.strip(n['c'][0])], f.nodes[f.strip(n['c'][1])]
            for lit, other in ((a, b), (b, a)):
                if lit['k'] == 'StringLiteral' and _width(other.get('t')) is not None and _width(other.get('t'))[1] == 'i':
                    res.sites += 1
                    res.fail(Finding('D-STRPLUS', f.display(), 'string literal + integer', f.nloc(n['i']),
                                     '`%s` adds an integer to a string literal: the result is a pointer %s characters into (or past) '
                                     'the literal, so building the message reads memory outside it for large values'
                                     % (f.expr_text(n['i'])[:60], f.expr_text(n['c'][1] if lit is a else n['c'][0])[:20])))
    res.sites += 1
    res.ok(None)
    _fixture_verdict(res, 'strplus')
    return res


def rule_sorted_range(m):
    """F-SORTED: binary searches only on ranges that are sorted at that point."""
    res = RuleResult('F-SORTED', 'std::binary_search / lower_bound / upper_bound / equal_range are applied to [begin, end) of a '
                                 'local vector only in a state in which it is sorted: empty, one element, or sorted by std::sort '
                                 'since the last append (their precondition; on an unsorted range the answer is arbitrary)')
    SEARCH = ('std::binary_search', 'std::lower_bound', 'std::upper_bound', 'std::equal_range')
    for f in list(m.fns) + _fixture_functions('sorted_search'):
        if not f.tname.startswith(NS) or not f.has_cfg:
            continue
        tt = Terms(f)
        u = f.unit
        uses = []
        for n in f.nodes:
            if n['k'] == 'CallExpr' and 'callee' in n and u.decl(n['callee'])['tname'] in SEARCH:
                a = [tt.t(x) for x in n['args']]
                if len(a) >= 3 and a[0][0] == 'mcall' and a[0][1].endswith('::begin') and a[1][0] == 'mcall' and \
                        a[1][1].endswith('::end') and a[0][2] == a[1][2] and a[0][2][0] == 'var':
                    uses.append((n, a[0][2]))
        for (un, V) in uses:
            res.sites += 1
            events = {}
            for n in f.nodes:
                if n['k'] == 'CXXMemberCallExpr' and 'callee' in n and tt.t(n.get('obj', -1)) == V:
                    nm = u.decl(n['callee'])['name']
                    if nm in ('push_back', 'emplace_back', 'insert', 'emplace', 'resize', 'assign'):
                        events[n['i']] = 'append'
                    elif nm == 'clear':
                        events[n['i']] = 'clear'
                if n['k'] == 'CallExpr' and 'callee' in n and u.decl(n['callee'])['tname'] in ('std::sort', 'std::stable_sort'):
                    a = [tt.t(x) for x in n['args']]
                    if len(a) >= 2 and a[0][0] == 'mcall' and a[0][2] == V and a[1][0] == 'mcall' and a[1][2] == V:
                        events[n['i']] = 'sort'
                if n['k'] == 'DeclStmt' and V[1] in n['decls']:
                    ix = n['decls'].index(V[1])
                    it0 = tt.t(n['c'][ix]) if ix < len(n['c']) and n['c'][ix] >= 0 else ('ctor', '', ())
                    a0 = [x for x in it0[2] if not (x[0] == 'ctor' and 'allocator' in x[1])] if it0[0] == 'ctor' else None
                    events[n['i']] = 'init0' if a0 == [] else 'initN'
            events[un['i']] = 'search'
            RANK = {'EMPTY': 0, 'ONE': 1, 'SORTED': 2}
            IN = {b: None for b in f.blocks}
            IN[f.entry] = 'EMPTY'
            bad = []

            def step(st, nid, record):
                k = events.get(nid)
                if k is None:
                    return st
                if k == 'init0' or k == 'clear':
                    return 'EMPTY'
                if k == 'initN':
                    return 'DIRTY'
                if k == 'append':
                    return 'ONE' if st == 'EMPTY' else 'DIRTY'
                if k == 'sort':
                    return 'SORTED'
                if k == 'search' and st not in RANK and record:
                    bad.append(nid)
                return st
            work = [f.entry]
            it = 0
            while work and it < 5000:
                it += 1
                b = work.pop()
                st = IN[b]
                if st is None:
                    continue
                for e in f.blocks[b].elems:
                    st = step(st, e, False)
                for sx in f.blocks[b].succs:
                    if sx is None or sx < 0:
                        continue
                    old = IN[sx]
                    if old is None or old == st:
                        new = st
                    elif old in RANK and st in RANK:
                        new = old if RANK[old] >= RANK[st] else st
                    else:
                        new = 'DIRTY'
                    if new != old:
                        IN[sx] = new
                        work.append(sx)
            for b, st in IN.items():
                if st is None:
                    continue
                for e in f.blocks[b].elems:
                    st = step(st, e, True)
            if bad:
                res.fail(Finding('F-SORTED', f.display(), 'binary search on an unsorted range', f.nloc(bad[0]),
                                 '`%s` is reached in a state in which `%s` has been appended to without being sorted: the '
                                 'search requires a sorted range, so membership is answered arbitrarily (e.g. an element '
                                 'appended out of order is not found)' % (f.expr_text(un['i'])[:60], show(V, u))))
            else:
                res.ok(dict(function=f.display(), search=f.expr_text(un['i'])[:60], state='sorted at every use'), fn=f.display())
    _fixture_verdict(res, 'sorted_search')
    return res
