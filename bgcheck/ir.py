"""In-memory view of the facts emitted by bgx: units, functions, nodes, CFG.

Nothing here knows about BaseGraph; it is the generic program representation the rules work on.
"""
import json
from collections import defaultdict

STRIP_KINDS = {
    'ImplicitCastExpr', 'ParenExpr', 'MaterializeTemporaryExpr', 'ExprWithCleanups',
    'CXXBindTemporaryExpr', 'ConstantExpr', 'SubstNonTypeTemplateParmExpr', 'CXXRewrittenBinaryOperator',
}


class AnalysisBroken(Exception):
    """Raised when the analysis cannot be carried out (exit code 2): anchor vanished,
    unknown idiom, extraction failure."""


class Unit:
    """One witness translation unit."""

    def __init__(self, path, name, std):
        self.path = path
        self.name = name
        self.std = std
        with open(path) as fh:
            d = json.load(fh)
        self.files = d['files']
        self.decls = d['decls']
        self.records = d['records']
        self.vars = d['vars']
        self.patternfns = d['patternfns']
        self.casts = d['casts']
        self.headers = d['headers']
        self.functions = [Function(self, f) for f in d['functions']]
        self.by_decl = {}
        for f in self.functions:
            self.by_decl[f.decl] = f

    def decl(self, i):
        return self.decls[i] if i is not None and i >= 0 else None

    def file_of(self, loc):
        return self.files[loc[0]] if loc and loc[0] >= 0 else '?'

    def fmt_loc(self, loc):
        if not loc or loc[0] < 0:
            return '?'
        return '%s:%d' % (self.files[loc[0]], loc[1])

    def function_for_decl(self, did):
        """Function (with body) for a callee decl id, following decl -> definition."""
        if did is None or did < 0:
            return None
        f = self.by_decl.get(did)
        if f is not None:
            return f
        d = self.decls[did]
        if 'def' in d:
            return self.by_decl.get(d['def'])
        return None


class Block:
    __slots__ = ('id', 'elems', 'term', 'cond', 'succs', 'preds', 'unreach')

    def __init__(self, d):
        self.id = d['id']
        self.elems = d['e']
        self.term = d.get('term', -1)
        self.cond = d.get('cond', -1)
        self.succs = d['s']
        self.unreach = d.get('su', [0] * len(self.succs))
        self.preds = []


class Function:
    def __init__(self, unit, d):
        self.unit = unit
        self.d = d
        self.decl = d['decl']
        self.name = d['name']
        self.tname = d['tname']
        self.qname = d['qname']
        self.loc = d['loc']
        self.record = d.get('record')
        self.recordargs = d.get('recordargs', '')
        self.targs = d.get('targs', '')
        self.is_const = d.get('const', False)
        self.is_static = d.get('static', False)
        self.access = d.get('access', 'public' if not d.get('record') else 'none')
        self.is_lambda = d.get('lambda', False)
        self.is_ctor = d.get('ctor', False)
        self.params = d['params']
        self.nodes = d['nodes']
        self.body = d['body']
        self.has_cfg = 'blocks' in d
        self.blocks = {}
        self.entry = d.get('entry')
        self.exit = d.get('exit')
        if self.has_cfg:
            for b in d['blocks']:
                self.blocks[b['id']] = Block(b)
            self._drop_assert_branches()
            for b in self.blocks.values():
                for s in b.succs:
                    if s >= 0 and s in self.blocks:
                        self.blocks[s].preds.append(b.id)
        self._parent = None
        self._pos = None
        self._dom = None
        self._pdom = None
        self._cdeps = None
        self._region_cache = {}
        self._term_cache = {}
        self.iter_as_elem = set()
        if self.has_cfg:
            try:
                self._normalise_iterator_loops()
            except Exception:       # the normalisation is an optimisation of recognition, never a requirement
                pass
        dd = unit.decls[self.decl]
        self.ptypes = dd.get('ptypes', [])
        self.cptypes = dd.get('cptypes', [])
        self.pnames = dd.get('pnames', [])
        self.key = '%s(%s)' % (self.qname, ','.join(self.cptypes)) + ('<%s>' % self.targs if self.targs else '') + \
                   (' const' if self.is_const else '')

    # ------------------------------------------------------------ assertions
    ASSERT_FAIL = ('__assert_fail', '__assert_perror_fail', '__assert', '__assert_rtn', '_wassert')

    def _drop_assert_branches(self):
        """`assert(c)` expands to a branch whose failing arm calls a noreturn reporting function.  An assertion states
        something the author holds to be always true; it is not a condition under which the rest of the function runs.
        The branch is read as unconditional (the failing arm becomes unreachable), so no rule sees the code after an
        assertion as control dependent on it."""
        fail_blocks = set()
        for bid, b in self.blocks.items():
            for e in b.elems:
                n = self.nodes[e]
                if n['k'] == 'CallExpr' and 'callee' in n and n['callee'] >= 0 and \
                        self.unit.decls[n['callee']].get('name') in self.ASSERT_FAIL:
                    fail_blocks.add(bid)
        if not fail_blocks:
            return
        for b in self.blocks.values():
            live = [s for s in b.succs if s is not None and s >= 0]
            if len(live) == 2 and any(s in fail_blocks for s in live) and not all(s in fail_blocks for s in live):
                keep = [s for s in live if s not in fail_blocks][0]
                b.succs = [keep]
        self.assert_fail_blocks = fail_blocks

    # ------------------------------------------------------------ loop normalisation
    def _normalise_iterator_loops(self):
        """for (It it = X.begin()[, last = X.end()]; it != last|X.end(); ++it) { [const T e = *it;] body }  where `it` is
        not otherwise written is presented to the rules as the range-for it is equivalent to:
        kind CXXForRangeStmt, rangeinit = X (seen through a single-definition const local), loopvar = e (or `it` itself,
        with *it read as the element).  X must not be modified through `it` (no other definition of it)."""
        nodes = self.nodes

        def strip(i):
            while i >= 0 and nodes[i]['k'] in ('ImplicitCastExpr', 'ParenExpr', 'ExprWithCleanups', 'MaterializeTemporaryExpr',
                                               'CXXBindTemporaryExpr', 'CXXFunctionalCastExpr', 'CXXConstructExpr') and \
                    len([c for c in nodes[i]['c'] if c >= 0]) == 1 and (nodes[i]['k'] != 'CXXConstructExpr' or len(nodes[i].get('args', [])) == 1):
                i = [c for c in nodes[i]['c'] if c >= 0][0]
            return i

        def callee_name(n):
            return self.unit.decls[n['callee']]['name'] if 'callee' in n and n['callee'] >= 0 else None

        def member_call(i, name):
            i = strip(i)
            n = nodes[i]
            if n['k'] == 'CXXMemberCallExpr' and callee_name(n) == name and not n.get('args'):
                return strip(n.get('obj', -1))
            return None

        def declref(i):
            i = strip(i)
            return nodes[i]['d'] if i >= 0 and nodes[i]['k'] == 'DeclRefExpr' else None
        writes = {}
        for n in nodes:
            k = n['k']
            tgt = None
            if k in ('BinaryOperator', 'CompoundAssignOperator') and n.get('op', '').endswith('=') and n['op'] not in ('==', '!=', '<=', '>='):
                tgt = declref(n['c'][0])
            elif k == 'UnaryOperator' and n.get('op') in ('++', '--'):
                tgt = declref(n['c'][0])
            elif k == 'CXXOperatorCallExpr' and 'callee' in n and self.unit.decls[n['callee']].get('op') in ('=', '++', '--', '+=', '-=') and n.get('args'):
                tgt = declref(n['args'][0])
            if tgt is not None:
                writes.setdefault(tgt, []).append(n['i'])
        decl_init = {}
        for n in nodes:
            if n['k'] == 'DeclStmt':
                for ix, d in enumerate(n['decls']):
                    if ix < len(n['c']) and n['c'][ix] >= 0:
                        decl_init.setdefault(d, []).append(n['c'][ix])
        for n in nodes:
            if n['k'] != 'ForStmt' or n.get('init', -1) < 0 or n.get('cond', -1) < 0 or n.get('inc', -1) < 0:
                continue
            ini = nodes[n['init']]
            if ini['k'] != 'DeclStmt' or not (1 <= len(ini['decls']) <= 2) or len(ini['c']) < len(ini['decls']):
                continue
            it = ini['decls'][0]
            X = member_call(ini['c'][0], 'begin')
            if X is None:
                X = member_call(ini['c'][0], 'cbegin')
            if X is None:
                continue
            last = None
            if len(ini['decls']) == 2:
                Xe = member_call(ini['c'][1], 'end')
                if Xe is None or self._same_expr(X, Xe) is False:
                    continue
                last = ini['decls'][1]
                if writes.get(last):
                    continue
            cond = nodes[strip(n['cond'])]
            ops = None
            if cond['k'] == 'BinaryOperator' and cond.get('op') == '!=':
                ops = cond['c']
            elif cond['k'] == 'CXXOperatorCallExpr' and 'callee' in cond and self.unit.decls[cond['callee']].get('op') == '!=':
                ops = cond.get('args', [])
            if not ops or len(ops) != 2 or declref(ops[0]) != it:
                continue
            if last is not None:
                if declref(ops[1]) != last:
                    continue
            else:
                Xe = member_call(ops[1], 'end')
                if Xe is None or self._same_expr(X, Xe) is False:
                    continue
            inc = nodes[strip(n['inc'])]
            inc_ok = (inc['k'] == 'UnaryOperator' and inc.get('op') == '++' and declref(inc['c'][0]) == it) or \
                (inc['k'] == 'CXXOperatorCallExpr' and 'callee' in inc and self.unit.decls[inc['callee']].get('op') == '++' and
                 inc.get('args') and declref(inc['args'][0]) == it)
            if not inc_ok or writes.get(it, []) != [inc['i']]:
                continue
            # element variable: first statement of the body `T e = *it`
            body = nodes[n['body']] if n.get('body', -1) >= 0 else None
            if body is None:
                continue
            # inside the body the iterator is only ever dereferenced (not handed to erase / insert / compared / copied)
            par = self.parent
            only_deref = True
            for x in self.descendants(n['body']):
                xn = nodes[x]
                if xn['k'] == 'DeclRefExpr' and xn['d'] in (it, last):
                    if xn['d'] == last:
                        only_deref = False
                        break
                    p1 = par.get(x)
                    while p1 is not None and nodes[p1]['k'] in ('ImplicitCastExpr', 'ParenExpr'):
                        p1 = par.get(p1)
                    pn = nodes[p1] if p1 is not None else None
                    ok_use = pn is not None and (
                        (pn['k'] == 'UnaryOperator' and pn.get('op') == '*') or
                        (pn['k'] == 'CXXOperatorCallExpr' and 'callee' in pn and self.unit.decls[pn['callee']].get('op') in ('*', '->')
                         and len(pn.get('args', [])) == 1))
                    if not ok_use:
                        only_deref = False
                        break
            if not only_deref:
                continue
            loopvar, loopvarstmt = None, None
            first = body['c'][0] if body['k'] == 'CompoundStmt' and body['c'] else None
            if first is not None and nodes[first]['k'] == 'DeclStmt' and len(nodes[first]['decls']) == 1 and nodes[first]['c']:
                e = nodes[first]['decls'][0]
                ie = nodes[strip(nodes[first]['c'][0])]
                is_deref = (ie['k'] == 'UnaryOperator' and ie.get('op') == '*' and declref(ie['c'][0]) == it) or \
                    (ie['k'] == 'CXXOperatorCallExpr' and 'callee' in ie and self.unit.decls[ie['callee']].get('op') == '*' and
                     ie.get('args') and declref(ie['args'][0]) == it)
                if is_deref and not writes.get(e):
                    loopvar, loopvarstmt = e, first
            if loopvar is None:
                # the iterator stands for the element: *it is read as the loop variable
                entry = None
                for b in self.blocks.values():
                    if b.term == n['i'] and b.succs and b.succs[0] is not None and b.succs[0] >= 0:
                        eb = self.blocks[b.succs[0]]
                        if eb.elems:
                            entry = eb.elems[0]
                if entry is None:
                    continue
                loopvar, loopvarstmt = it, entry
                self.iter_as_elem.add(it)
            # the range: X, seen through a single-definition const local that holds it by value (`const Edges all = edges();`)
            rng = X
            d = declref(X)
            if d is not None and not self.unit.decls[d].get('isref') and len(decl_init.get(d, [])) == 1 and not writes.get(d) and \
                    self.unit.decls[d].get('dk') == 'Var' and 'const' in self.unit.decls[d].get('type', ''):
                rng = strip(decl_init[d][0])
            n['k'] = 'CXXForRangeStmt'
            n['loopvar'] = loopvar
            n['rangeinit'] = rng
            n['rangestmt'] = n['init']
            n['beginstmt'] = n['init']
            n['endstmt'] = n['init']
            n['loopvarstmt'] = loopvarstmt
            n['from_iterator_loop'] = True

    def _same_expr(self, a, b):
        """structural equality of two small expression trees (None when undecided)"""
        na, nb = self.nodes[a], self.nodes[b]
        if na['k'] != nb['k']:
            return False
        if na['k'] == 'DeclRefExpr':
            return na['d'] == nb['d']
        if na.get('callee') != nb.get('callee') or na.get('d') != nb.get('d') or na.get('op') != nb.get('op'):
            return False
        ka = [c for c in na['c'] if c >= 0]
        kb = [c for c in nb['c'] if c >= 0]
        if len(ka) != len(kb):
            return False
        return all(self._same_expr(x, y) for x, y in zip(ka, kb))

    # ------------------------------------------------------------ basic access
    def file(self):
        n = self.nodes[self.body]
        return self.unit.file_of(n['l'])

    def line(self):
        return self.nodes[self.body]['l'][1]

    def where(self):
        return '%s:%d' % (self.file(), self.line())

    def nloc(self, nid):
        n = self.nodes[nid]
        return self.unit.fmt_loc(n['l'])

    def short(self):
        q = self.qname
        return q.replace('BaseGraph::', '')

    def display(self):
        s = self.short()
        if self.targs:
            s += '<%s>' % self.targs
        return s

    def node(self, i):
        return self.nodes[i]

    def kind(self, i):
        return self.nodes[i]['k']

    def children(self, i):
        return [c for c in self.nodes[i]['c'] if c >= 0]

    @property
    def parent(self):
        if self._parent is None:
            p = {}
            for n in self.nodes:
                ks = list(n['c'])
                for extra in ('obj', 'calleeexpr', 'rangeinit', 'body', 'rangestmt', 'beginstmt', 'endstmt',
                              'cond', 'inc', 'loopvarstmt', 'then', 'else', 'init', 'try'):
                    v = n.get(extra)
                    if isinstance(v, int) and v >= 0:
                        ks.append(v)
                for extra in ('args', 'handlers'):
                    for v in n.get(extra, []):
                        if v >= 0:
                            ks.append(v)
                for c in ks:
                    if c >= 0 and c not in p and c != n['i']:
                        p[c] = n['i']
            self._parent = p
        return self._parent

    def ancestors(self, i):
        p = self.parent
        while i in p:
            i = p[i]
            yield i

    def descendants(self, i, include_self=True):
        out = []
        stack = [i]
        seen = set()
        while stack:
            x = stack.pop()
            if x in seen or x < 0:
                continue
            seen.add(x)
            if include_self or x != i:
                out.append(x)
            n = self.nodes[x]
            ks = list(n['c'])
            for extra in ('obj', 'rangeinit', 'body', 'cond', 'inc', 'loopvarstmt', 'then', 'else', 'init', 'try',
                          'rangestmt', 'beginstmt', 'endstmt'):
                v = n.get(extra)
                if isinstance(v, int) and v >= 0:
                    ks.append(v)
            for extra in ('args', 'handlers'):
                ks.extend(v for v in n.get(extra, []) if v >= 0)
            stack.extend(ks)
        return out

    def all_nodes_of_kind(self, *kinds):
        return [n['i'] for n in self.nodes if n['k'] in kinds]

    # ------------------------------------------------------------ stripping
    def strip(self, i):
        """Skip value-preserving wrappers (implicit casts, parens, temporaries, elidable copies)."""
        while i is not None and i >= 0:
            n = self.nodes[i]
            k = n['k']
            if k in STRIP_KINDS:
                cs = [c for c in n['c'] if c >= 0]
                if not cs:
                    return i
                i = cs[0]
                continue
            if k == 'CXXDefaultArgExpr':
                cs = [c for c in n['c'] if c >= 0]
                if cs:
                    i = cs[0]
                    continue
            if k == 'CXXConstructExpr':
                args = n.get('args', [])
                cal = self.unit.decl(n.get('callee', -1))
                if len(args) == 1 and cal is not None:
                    # copy / move construction of the same type: value preserving
                    a = self.nodes[args[0]]
                    ta = a.get('t', '').replace('const ', '').strip()
                    tn = n.get('t', '').replace('const ', '').strip()
                    if ta == tn:
                        i = args[0]
                        continue
            if k == 'CXXFunctionalCastExpr' or k == 'CXXStaticCastExpr' or k == 'CStyleCastExpr':
                if n.get('ck') in ('NoOp', 'ConstructorConversion'):
                    cs = [c for c in n['c'] if c >= 0]
                    if cs:
                        i = cs[0]
                        continue
            return i
        return i

    # ------------------------------------------------------------ CFG positions
    @property
    def pos(self):
        """node id -> (block id, index) for CFG elements."""
        if self._pos is None:
            p = {}
            for b in self.blocks.values():
                for ix, e in enumerate(b.elems):
                    if e not in p:
                        p[e] = (b.id, ix)
            self._pos = p
        return self._pos

    def cfg_pos(self, nid):
        """Position of a node in the CFG; if the node itself is not an element (e.g. wrappers),
        use the nearest ancestor/descendant that is."""
        p = self.pos
        if nid in p:
            return p[nid]
        # try descendants (last evaluated sub expression) then ancestors
        s = self.strip(nid)
        if s in p:
            return p[s]
        for a in self.ancestors(nid):
            if a in p:
                return p[a]
        best = None
        for dnode in self.descendants(nid, include_self=False):
            if dnode in p:
                if best is None or p[dnode] > best:
                    best = p[dnode]
        return best

    # ------------------------------------------------------------ dominators
    def _compute_dom(self, entry, succs_of, preds_of, ids):
        dom = {b: set(ids) for b in ids}
        dom[entry] = {entry}
        changed = True
        order = list(ids)
        while changed:
            changed = False
            for b in order:
                if b == entry:
                    continue
                ps = [p for p in preds_of(b) if p in dom]
                if not ps:
                    new = {b}
                else:
                    new = set.intersection(*[dom[p] for p in ps]) | {b}
                if new != dom[b]:
                    dom[b] = new
                    changed = True
        return dom

    def reachable_blocks(self):
        seen = set()
        stack = [self.entry]
        while stack:
            b = stack.pop()
            if b in seen or b not in self.blocks:
                continue
            seen.add(b)
            for s in self.blocks[b].succs:
                if s >= 0:
                    stack.append(s)
        return seen

    @property
    def dom(self):
        if self._dom is None:
            ids = self.reachable_blocks()
            self._dom = self._compute_dom(
                self.entry, lambda b: [s for s in self.blocks[b].succs if s in ids],
                lambda b: [p for p in self.blocks[b].preds if p in ids], ids)
        return self._dom

    @property
    def pdom(self):
        if self._pdom is None:
            ids = self.reachable_blocks() | {self.exit}
            self._pdom = self._compute_dom(
                self.exit, lambda b: [p for p in self.blocks[b].preds if p in ids],
                lambda b: [s for s in self.blocks[b].succs if s in ids], ids)
        return self._pdom

    def block_dominates(self, a, b):
        return a in self.dom.get(b, ())

    def node_dominates(self, a, b):
        """CFG element a dominates CFG element b (a is evaluated on every path to b, before b)."""
        pa, pb = self.cfg_pos(a), self.cfg_pos(b)
        if pa is None or pb is None:
            return False
        if pa[0] == pb[0]:
            return pa[1] <= pb[1]
        return self.block_dominates(pa[0], pb[0])

    def node_postdominates(self, a, b):
        """a is evaluated on every path from b to the normal exit (ignores exceptions)."""
        pa, pb = self.cfg_pos(a), self.cfg_pos(b)
        if pa is None or pb is None:
            return False
        if pa[0] == pb[0]:
            return pa[1] >= pb[1]
        return pa[0] in self.pdom.get(pb[0], ())

    # ------------------------------------------------------------ control dependence
    @property
    def cdeps(self):
        """block -> set of (branch block, successor index) it is directly control dependent on."""
        if self._cdeps is None:
            cd = defaultdict(set)
            pdom = self.pdom
            for a, blk in self.blocks.items():
                if a not in pdom:
                    continue
                succs = [s for s in blk.succs if s >= 0]
                if len(set(succs)) < 2:
                    continue
                strict_a = pdom[a] - {a}
                for ix, s in enumerate(blk.succs):
                    if s < 0 or s not in pdom:
                        continue
                    # b is control dependent on edge (a, s) iff b postdominates s and b does not
                    # strictly postdominate a
                    for b in pdom[s]:
                        if b not in strict_a:
                            cd[b].add((a, ix))
            self._cdeps = cd
        return self._cdeps

    def _strictly_pdom(self, b, a):
        return b != a and b in self.pdom.get(a, ())

    def region_of_block(self, b):
        """Transitive control-dependence set of a block: frozenset of (branch block, succ index)."""
        if b in self._region_cache:
            return self._region_cache[b]
        seen = set()
        stack = [b]
        visited_blocks = set()
        while stack:
            x = stack.pop()
            if x in visited_blocks:
                continue
            visited_blocks.add(x)
            for dep in self.cdeps.get(x, ()):
                if dep not in seen:
                    seen.add(dep)
                    stack.append(dep[0])
        r = frozenset(seen)
        self._region_cache[b] = r
        return r

    def region(self, nid):
        p = self.cfg_pos(nid)
        if p is None:
            return frozenset()
        return self.region_of_block(p[0])

    def dominating_edges(self, b):
        """Branch edges (block, succ index) whose condition is known at block b: the edge's target dominates b
        and is entered only through that edge."""
        out = []
        for d in self.dom.get(b, ()):
            preds = [p for p in self.blocks[d].preds if p in self.dom]
            if len(preds) != 1:
                continue
            p = preds[0]
            blk = self.blocks[p]
            succs = [s for s in blk.succs if s >= 0]
            if len(set(succs)) < 2:
                continue
            ixs = [ix for ix, s in enumerate(blk.succs) if s == d]
            if len(ixs) == 1:
                out.append((p, ixs[0]))
        return out

    def can_reach_forward(self, a, b):
        """element a may be followed by element b without taking a loop back edge"""
        pa, pb = self.cfg_pos(a), self.cfg_pos(b)
        if pa is None or pb is None:
            return False
        if pa[0] == pb[0]:
            return pa[1] < pb[1]
        seen = set()
        stack = [pa[0]]
        while stack:
            x = stack.pop()
            for s in self.blocks[x].succs:
                if s < 0 or s in seen:
                    continue
                if s in self.dom.get(x, ()):      # back edge
                    continue
                if s == pb[0]:
                    return True
                seen.add(s)
                stack.append(s)
        return False

    def branch_atom(self, bid):
        """The atomic condition expression whose value selects the successor of block bid."""
        blk = self.blocks[bid]
        c = blk.cond
        if c is None or c < 0:
            return None
        term = blk.term
        while True:
            c = self.strip(c)
            n = self.nodes[c]
            if n['k'] == 'BinaryOperator' and n['op'] in ('&&', '||'):
                if c == term:
                    c = n['c'][0]
                else:
                    # the right operand is the value tested here only if it is evaluated in this block;
                    # otherwise this is a join block that tests the value of the whole expression
                    rhs = n['c'][1]
                    p = self.cfg_pos(self.strip(rhs))
                    if p is not None and p[0] != bid:
                        return c
                    c = rhs
                continue
            return c

    def branch_desc(self, dep):
        bid, ix = dep
        a = self.branch_atom(bid)
        blk = self.blocks[bid]
        pol = 'T' if ix == 0 else 'F'
        return '%s[%s]@%s' % (self.expr_text(a) if a is not None else '?', pol, self.nloc(a) if a is not None else '?')

    # ------------------------------------------------------------ loops
    def back_edges(self):
        out = []
        for b, blk in self.blocks.items():
            if b not in self.dom:
                continue
            for s in blk.succs:
                if s >= 0 and s in self.dom[b]:
                    out.append((b, s))
        return out

    def natural_loop(self, tail, head):
        body = {head}
        stack = [tail]
        while stack:
            x = stack.pop()
            if x in body:
                continue
            body.add(x)
            stack.extend(self.blocks[x].preds)
        return body

    def loops(self):
        """list of (head block, set(body blocks))"""
        res = {}
        for t, h in self.back_edges():
            res.setdefault(h, set()).update(self.natural_loop(t, h))
        return sorted(res.items())

    # ------------------------------------------------------------ reachability between elements
    def reachable_from(self, pos, avoid=None):
        """Set of (block, idx-start) positions reachable after CFG position pos, as block ids plus
        partial info for the start block.  Returns set of block ids fully reachable (from their start)
        and whether the remainder of the start block is included."""
        bid, ix = pos
        seen = set()
        stack = [s for s in self.blocks[bid].succs if s >= 0]
        while stack:
            b = stack.pop()
            if b in seen:
                continue
            if avoid and b in avoid:
                continue
            seen.add(b)
            stack.extend(s for s in self.blocks[b].succs if s >= 0)
        return seen

    def can_reach(self, a, b):
        """element a may be followed by element b on some path"""
        pa, pb = self.cfg_pos(a), self.cfg_pos(b)
        if pa is None or pb is None:
            return False
        if pa[0] == pb[0] and pa[1] < pb[1]:
            return True
        return pb[0] in self.reachable_from(pa)

    # ------------------------------------------------------------ text rendering of expressions
    def expr_text(self, i, depth=0):
        if i is None or i < 0:
            return ''
        if depth > 12:
            return '...'
        i = self.strip(i)
        n = self.nodes[i]
        k = n['k']
        u = self.unit
        T = lambda x: self.expr_text(x, depth + 1)
        if k == 'DeclRefExpr':
            return u.decl(n['d'])['name']
        if k == 'MemberExpr':
            base = n['c'][0] if n['c'] else -1
            bn = self.nodes[self.strip(base)] if base >= 0 else None
            nm = u.decl(n['d'])['name']
            if bn is not None and bn['k'] == 'CXXThisExpr':
                return nm
            return '%s.%s' % (T(base), nm)
        if k == 'CXXThisExpr':
            return 'this'
        if k in ('IntegerLiteral', 'CXXBoolLiteralExpr', 'FloatingLiteral'):
            return str(n.get('v'))
        if k == 'StringLiteral':
            return json.dumps(n.get('v', ''))
        if k == 'CharacterLiteral':
            return repr(chr(n.get('v', 63)))
        if k == 'BinaryOperator' or k == 'CompoundAssignOperator':
            return '%s %s %s' % (T(n['c'][0]), n['op'], T(n['c'][1]))
        if k == 'UnaryOperator':
            return (T(n['c'][0]) + n['op']) if n.get('postfix') else (n['op'] + T(n['c'][0]))
        if k == 'CXXOperatorCallExpr':
            cal = u.decl(n.get('callee', -1))
            op = cal.get('op', '?') if cal else '?'
            a = n['args']
            if op == '[]':
                return '%s[%s]' % (T(a[0]), T(a[1]))
            if op == '()':
                return '%s(%s)' % (T(a[0]), ', '.join(T(x) for x in a[1:]))
            if len(a) == 1:
                return '%s%s' % (op, T(a[0]))
            if op in ('++', '--') and len(a) == 2:
                return '%s%s' % (T(a[0]), op)
            return '%s %s %s' % (T(a[0]), op, T(a[1]))
        if k == 'CXXMemberCallExpr':
            cal = u.decl(n.get('callee', -1))
            nm = cal['name'] if cal else '?'
            o = n.get('obj', -1)
            on = self.nodes[self.strip(o)] if o is not None and o >= 0 else None
            pre = '' if (on is None or on['k'] == 'CXXThisExpr') else T(o) + '.'
            return '%s%s(%s)' % (pre, nm, ', '.join(T(x) for x in n['args']))
        if k == 'CallExpr':
            cal = u.decl(n.get('callee', -1))
            nm = cal['name'] if cal else T(n.get('calleeexpr', -1))
            return '%s(%s)' % (nm, ', '.join(T(x) for x in n['args']))
        if k in ('CXXConstructExpr', 'CXXTemporaryObjectExpr'):
            return '%s{%s}' % (short_type(n.get('t', '')), ', '.join(T(x) for x in n.get('args', [])))
        if k == 'InitListExpr':
            return '{%s}' % ', '.join(T(x) for x in n['c'])
        if k == 'ConditionalOperator':
            return '%s ? %s : %s' % (T(n['cond']), T(n['then']), T(n['else']))
        if k in ('CStyleCastExpr', 'CXXStaticCastExpr', 'CXXFunctionalCastExpr', 'CXXReinterpretCastExpr',
                 'CXXConstCastExpr'):
            return '(%s)%s' % (n.get('towritten', '?'), T(n['c'][0]))
        if k == 'LambdaExpr':
            return '[lambda]'
        if k == 'CXXThrowExpr':
            return 'throw %s' % short_type(n.get('thrown', ''))
        if k == 'UnaryExprOrTypeTraitExpr':
            return 'sizeof(%s)' % n.get('argtype', '?')
        if k == 'DeclStmt':
            return 'decl ' + ','.join(u.decl(d)['name'] for d in n['decls'])
        return '<%s>' % k


def short_type(t):
    t = t.replace('std::__cxx11::', 'std::').replace('BaseGraph::', '')
    t = t.replace('std::pair<unsigned int, unsigned int>', 'Edge')
    t = t.replace('std::list<unsigned int>', 'Successors')
    return t
