"""Fact extraction driver: builds bgx if needed, renders the witness TUs, runs bgx on each
(in parallel), caches results keyed by the content of /repo/include + witness sources + bgx, and
loads them as a Program."""
import hashlib
import os
import re
import shutil
import subprocess
import sys
import time
from concurrent.futures import ThreadPoolExecutor

from . import witness
from .ir import Unit, AnalysisBroken

VERIF = os.path.dirname(os.path.dirname(os.path.abspath(__file__)))
BUILD = os.path.join(VERIF, 'build')
BGX = os.path.join(BUILD, 'bgx')
BGX_SRC = os.path.join(VERIF, 'bgx', 'bgx.cc')
CACHE = os.environ.get('BGCHECK_CACHE') or os.path.join(VERIF, '.cache')
FIXTURES = os.path.join(VERIF, 'fixtures')
REPO = os.environ.get('BGCHECK_REPO', '/repo')
INCLUDE = os.path.join(REPO, 'include')
ENGINE_VERSION = '1'


def sh(cmd, **kw):
    return subprocess.run(cmd, stdout=subprocess.PIPE, stderr=subprocess.PIPE, text=True, **kw)


def build_bgx(force=False):
    os.makedirs(BUILD, exist_ok=True)
    stamp = os.path.join(BUILD, 'bgx.sha')
    h = hashlib.sha256(open(BGX_SRC, 'rb').read()).hexdigest()
    if not force and os.path.exists(BGX) and os.path.exists(stamp) and open(stamp).read().strip() == h:
        return
    cxxflags = sh(['llvm-config-14', '--cxxflags']).stdout.split()
    cmd = ['clang++'] + cxxflags + ['-fno-rtti', '-O1', BGX_SRC, '-o', BGX + '.tmp',
                                    '/usr/lib/llvm-14/lib/libclang-cpp.so.14', '/usr/lib/llvm-14/lib/libLLVM-14.so']
    r = sh(cmd)
    if r.returncode != 0:
        raise AnalysisBroken('cannot build bgx: ' + r.stderr[-2000:])
    os.replace(BGX + '.tmp', BGX)
    with open(stamp, 'w') as fh:
        fh.write(h)


def tree_hash(root):
    h = hashlib.sha256()
    for dp, dn, fn in sorted(os.walk(root)):
        dn.sort()
        for f in sorted(fn):
            p = os.path.join(dp, f)
            h.update(p.encode())
            try:
                h.update(open(p, 'rb').read())
            except OSError:
                pass
    return h.hexdigest()


def include_hash():
    return tree_hash(INCLUDE)


def cache_key(stds):
    h = hashlib.sha256()
    h.update(include_hash().encode())
    h.update(open(BGX_SRC, 'rb').read())
    h.update(open(witness.__file__, 'rb').read())
    h.update(open(os.path.abspath(__file__), 'rb').read())
    if os.path.isdir(FIXTURES):
        h.update(tree_hash(FIXTURES).encode())
    h.update(ENGINE_VERSION.encode())
    h.update(INCLUDE.encode())
    h.update(','.join(stds).encode())
    return h.hexdigest()[:24]


def _run_bgx(src_path, out_path, std, roots):
    cmd = [BGX, '--out=' + out_path, '--roots=' + ','.join(roots), src_path, '--',
           '-std=' + std, '-I' + INCLUDE, '-UNDEBUG', '-ferror-limit=0', '-Wno-everything',
           '-resource-dir', _resource_dir()]
    return sh(cmd)


_RES = None


def _resource_dir():
    global _RES
    if _RES is None:
        _RES = sh(['clang++', '-print-resource-dir']).stdout.strip()
    return _RES


def extract_unit(workdir, name, kind, cells, std):
    """Returns (facts path or None, dropped cells [(cell, first error)], log)."""
    dropped = []
    src = os.path.join(workdir, '%s.cpp' % name)
    out = os.path.join(workdir, '%s.%s.json' % (name, std))
    cur = list(cells)
    for attempt in range(6):
        text, line_of = witness.render_tu(cur, kind)
        with open(src, 'w') as fh:
            fh.write(text)
        if os.path.exists(out):
            os.remove(out)
        r = _run_bgx(src, out, std, [INCLUDE])
        if r.returncode == 0 and os.path.exists(out):
            return out, dropped, ''
        # attribute errors to cells by the witness line they mention
        bad = {}
        cur_err = None
        base = os.path.basename(src)
        for ln in r.stderr.splitlines():
            m = re.match(r'^(.*?):(\d+):(\d+): (fatal error|error|note|warning): (.*)$', ln)
            if not m:
                continue
            f, line, _, sev, msg = m.groups()
            if sev in ('error', 'fatal error'):
                cur_err = '%s:%s: %s' % (f, line, msg)
            if os.path.basename(f) == base and cur_err:
                c = line_of.get(int(line))
                if c is not None and c.id not in bad:
                    bad[c.id] = cur_err
        if not bad:
            # the diagnostic chain never mentions the witness file (e.g. an error inside a default
            # argument): find the failing cells by compiling each cell alone
            bad = _isolate(workdir, name, kind, cur, std)
            if not bad:
                return None, dropped, r.stderr[-4000:]
        dropped.extend((c, bad[c.id]) for c in cur if c.id in bad)
        cur = [c for c in cur if c.id not in bad]
    return None, dropped, 'too many retries'


def _isolate(workdir, name, kind, cells, std):
    bad = {}

    def one(c):
        text, _ = witness.render_tu([c], kind)
        p = os.path.join(workdir, '%s_iso_%s.cpp' % (name, c.id))
        with open(p, 'w') as fh:
            fh.write(text)
        r = sh(['clang++', '-fsyntax-only', '-std=' + std, '-I' + INCLUDE, '-Wno-everything', p])
        os.remove(p)
        if r.returncode != 0:
            m = re.search(r'^(.*?:\d+):\d+: (?:fatal )?error: (.*)$', r.stderr, re.M)
            return c.id, (m.group(1) + ': ' + m.group(2)) if m else 'does not compile'
        return None
    with ThreadPoolExecutor(max_workers=16) as ex:
        for res in ex.map(one, cells):
            if res:
                bad[res[0]] = res[1]
    return bad


class Program:
    def __init__(self, units, dropped, key, stds):
        self.units = units
        self.dropped = dropped      # [(unit name, std, cell, error)]
        self.key = key
        self.stds = stds
        self._fn_index = None

    def functions(self, std=None, dedupe=True):
        seen = set()
        for u in self.units:
            if std is not None and u.std != std:
                continue
            for f in u.functions:
                k = (u.std, f.key) if dedupe else None
                if dedupe:
                    if k in seen:
                        continue
                    seen.add(k)
                yield f

    def primary_std(self):
        return self.stds[0]

    def find(self, tname, std=None):
        return [f for f in self.functions(std) if f.tname == tname]


def load_program(stds=('gnu++17',), verbose=False):
    build_bgx()
    key = cache_key(stds)
    cdir = os.path.join(CACHE, key)
    marker = os.path.join(cdir, 'DONE')
    us = witness.units()
    dropped_file = os.path.join(cdir, 'dropped.txt')
    if not os.path.exists(marker):
        # prune old cache entries (keep disk use bounded)
        if os.path.isdir(CACHE):
            olds = sorted((os.path.getmtime(os.path.join(CACHE, d)), d) for d in os.listdir(CACHE))
            for _, d in olds[:-3]:
                shutil.rmtree(os.path.join(CACHE, d), ignore_errors=True)
        os.makedirs(cdir, exist_ok=True)
        jobs = []
        with ThreadPoolExecutor(max_workers=16) as ex:
            for std in stds:
                for name, (kind, cells) in us.items():
                    wd = os.path.join(cdir, 'w_' + std.replace('+', 'p'))
                    os.makedirs(wd, exist_ok=True)
                    jobs.append((name, std, ex.submit(extract_unit, wd, name, kind, cells, std)))
        lines = []
        for name, std, fut in jobs:
            out, dropped, log = fut.result()
            if out is None:
                raise AnalysisBroken('bgx failed on witness unit %s (%s): %s' % (name, std, log))
            for c, err in dropped:
                lines.append('%s\t%s\t%s\t%s' % (name, std, c.id, err.replace('\t', ' ')))
        with open(dropped_file, 'w') as fh:
            fh.write('\n'.join(lines))
        open(marker, 'w').write('ok')
    units = []
    for std in stds:
        for name in us:
            p = os.path.join(cdir, 'w_' + std.replace('+', 'p'), '%s.%s.json' % (name, std))
            units.append(Unit(p, name, std))
    dropped = []
    cells_by_id = {}
    for name, (kind, cells) in us.items():
        for c in cells:
            cells_by_id[c.id] = c
    if os.path.exists(dropped_file):
        for ln in open(dropped_file).read().splitlines():
            if ln.strip():
                name, std, cid, err = ln.split('\t', 3)
                dropped.append((name, std, cells_by_id.get(cid), err))
    return Program(units, dropped, key, list(stds))


_FIXTURE = {}


def load_fixture(std='gnu++17'):
    """Unit with the tiny positive / negative examples of /verif/fixtures (analysed with the same extractor)."""
    if std in _FIXTURE:
        return _FIXTURE[std]
    src = os.path.join(FIXTURES, 'positive.cpp')
    if not os.path.exists(src):
        raise AnalysisBroken('fixtures/positive.cpp is missing')
    build_bgx()
    h = hashlib.sha256(open(src, 'rb').read() + open(BGX_SRC, 'rb').read() + std.encode()).hexdigest()[:16]
    d = os.path.join(CACHE, 'fixture_' + h)
    out = os.path.join(d, 'positive.%s.json' % std)
    if not os.path.exists(out):
        os.makedirs(d, exist_ok=True)
        r = _run_bgx(src, out, std, [FIXTURES])
        if r.returncode != 0 or not os.path.exists(out):
            raise AnalysisBroken('fixture unit does not compile: ' + r.stderr[-500:])
    u = Unit(out, 'fixture', std)
    _FIXTURE[std] = u
    return u
