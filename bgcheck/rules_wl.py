"""F-WL: conformance of the three searches to worklist schemas (S-BFS, S-BFS-ALL, S-LC), F-HEAP, and
the per-destination wrappers / path reconstruction (C11, C12, C19)."""
from .model import NS
from .report import Finding, RuleResult
from .rules_pair import eval_order, strip_cast
from .rules_pair import region_atoms
from .rules_val import var_defs, is_size_term, graph_like
from .terms import Terms, show, subterms

ALG = NS + 'algorithms::'
SENTINELS = {ALG + 'BASEGRAPH_VERTEX_MAX'}
INF = {ALG + 'BASEGRAPH_INFINITY'}


def strip_conv(t):
    while isinstance(t, tuple) and t and t[0] in ('conv', 'cast'):
        t = t[2]
    return t


class Search:
    """Dataflow facts of one search function."""

    def __init__(self, m, f):
        self.m = m
        self.f = f
        self.tt = Terms(f)
        self.u = f.unit
        self.problems = []     # (check, node, message) definite deviations
        self.unknown = []      # reasons the shape is not recognised
        self.facts = {}
        self._analyse()

    def T(self, nid):
        return self.tt.t(nid)

    def _local(self, t):
        return t[0] == 'var' and self.u.decl(t[1])['dk'] == 'Var'

    def _analyse(self):
        f = self.f
        # ---- main loop: while (!W.empty())
        loops = []
        self.extra_exit = []
        for n in f.nodes:
            if n['k'] == 'WhileStmt':
                cjs = _conj(strip_conv(self.T(n['cond'])))
                for c in cjs:
                    c = strip_conv(c)
                    if c[0] == 'un' and c[1] == '!' and c[3][0] == 'mcall' and c[3][1].endswith('::empty') and self._local(c[3][2]):
                        loops.append((n, c[3][2]))
                        self.extra_exit = [x for x in cjs if strip_conv(x) != c]
        if len(loops) != 1:
            self.unknown.append('expected exactly one `while (!worklist.empty())` loop, found %d' % len(loops))
            return
        self.loop, self.W = loops[0]
        W = self.W
        wtype = self.u.decl(W[1])['ctype']
        self.kind = 'queue' if wtype.startswith('std::queue<') else 'heapvector' if wtype.startswith('std::vector<unsigned int') \
            else 'other'
        if self.kind == 'other':
            self.unknown.append('worklist type %s is not a recognised shape (std::queue / vector used as heap)' % wtype)
            return
        body = set(f.descendants(self.loop['body']))
        self.body = body
        self.body_region = self._region_of_stmt_start(self.loop['body'])
        # ---- removal: u = W.front(); ... W.pop() | pop_heap + pop_back
        fronts = []
        pops = []
        pushes = []
        for n in f.nodes:
            if n['k'] == 'CXXMemberCallExpr' and 'callee' in n and self.T(n.get('obj', -1)) == W:
                nm = self.u.decl(n['callee'])['name']
                if nm in ('front', 'top'):
                    fronts.append(n)
                elif nm in ('pop', 'pop_back', 'pop_front'):
                    pops.append(n)
                elif nm in ('push', 'push_back', 'emplace', 'emplace_back'):
                    pushes.append(n)
                elif nm in ('empty', 'begin', 'end', 'size', 'reserve', 'capacity', 'cbegin', 'cend', 'back'):
                    pass
                else:
                    self.unknown.append('unmodelled worklist operation %s at %s' % (nm, f.nloc(n['i'])))
        self.fronts, self.pops, self.pushes = fronts, pops, pushes
        in_fronts = [n for n in fronts if n['i'] in body]
        in_pops = [n for n in pops if n['i'] in body]
        if len(in_fronts) != 1 or len(fronts) != 1:
            self.problems.append(('remove-one', self.loop['i'], 'each iteration must read exactly one element from the '
                                                                'worklist (found %d reads)' % len(in_fronts)))
            return
        if len(in_pops) != 1 or len(pops) != 1:
            self.problems.append(('remove-one', self.loop['i'], 'each iteration must remove exactly one element from the '
                                                                'worklist (found %d removals in the loop, %d in the function)'
                                  % (len(in_pops), len(pops))))
            return
        for n in (in_fronts[0], in_pops[0]):
            if f.region(n['i']) != self.body_region:
                self.problems.append(('remove-one', n['i'], 'the worklist read/removal is conditional or nested in an inner '
                                                            'loop: not exactly one element per iteration'))
        # the element read: which variable holds it
        fr = in_fronts[0]
        uvar = None
        for a in f.ancestors(fr['i']):
            an = f.nodes[a]
            if an['k'] == 'DeclStmt':
                uvar = ('var', an['decls'][0])
                break
            if an['k'] in ('BinaryOperator',) and an['op'] == '=':
                l = self.T(an['c'][0])
                if l[0] == 'var':
                    uvar = l
                break
        if uvar is None:
            self.unknown.append('cannot find the variable holding the removed element')
            return
        if self.u.decl(uvar[1]).get('isref'):
            self.problems.append(('remove-one', fr['i'], 'the removed element is held by reference into the worklist, which '
                                                         'is modified afterwards'))
        self.uvar = uvar
        # u must not be reassigned elsewhere in the loop
        for (dn, rhs) in var_defs(f, uvar[1]):
            if dn in body and rhs != fr['i'] and not (rhs >= 0 and fr['i'] in f.descendants(rhs)):
                self.problems.append(('remove-one', dn, 'the current vertex is reassigned inside the iteration'))
        # ---- scan: exactly one range-for over graph.getOutNeighbours(u)
        scans = []
        for n in f.nodes:
            if n['k'] == 'CXXForRangeStmt' and n['i'] in body:
                r = self.T(n['rangeinit'])
                if r[0] == 'mcall' and r[1].endswith(('::getOutNeighbours', '::getNeighbours')):
                    scans.append((n, r))
        for n in f.nodes:
            if n['k'] in ('CXXMemberCallExpr',) and 'callee' in n and n['i'] in body and \
                    self.u.decl(n['callee'])['name'] in ('getOutNeighbours', 'getNeighbours'):
                if not any(n['i'] in f.descendants(s[0]['rangeinit']) for s in scans):
                    scans.append((n, self.T(n['i'])))
        self.scans = scans
        if len(scans) != 1 or scans[0][0]['k'] != 'CXXForRangeStmt':
            self.problems.append(('scan-one', self.loop['i'], ('expected the neighbourhood to be scanned with a range-for (found a call of %s)' % self.u.decl(scans[0][0]['callee'])['name']) if len(scans) == 1 and 'callee' in scans[0][0] else
                                  'each iteration must scan exactly one neighbourhood (found %d '
                                  'neighbour enumerations in the loop body)' % len(scans)))
            return
        scan, r = scans[0]
        self.scan = scan
        if r[3] != (uvar,):
            self.problems.append(('scan-one', scan['i'], 'the neighbourhood scanned is not that of the removed element'))
        self.closed_guard = None
        if self._region_of_stmt_start(scan['i']) != self.body_region:
            # lazy deletion: the scan is skipped exactly when a local marker array says the removed vertex was scanned before
            # (`if (done[u]) continue; done[u] = true;`). Whether that is sound depends on the removal order - decided by the
            # caller together with F-HEAP for the label-correcting schema; every other conditional scan is a deviation.
            extra = self._region_of_stmt_start(scan['i']) - self.body_region
            atoms = []
            for dep in extra:
                a = f.branch_atom(dep[0])
                if a is None:
                    atoms = None
                    break
                atoms.extend(implied(self.T(a), dep[1] == 0))
            marker = None
            if atoms:
                for t, pol in atoms:
                    t0 = strip_conv(t)
                    if t0[0] == 'un' and t0[1] == '!':
                        t0, pol = strip_conv(t0[3]), not pol
                    if t0[0] == 'idx' and t0[1][0] == 'var' and strip_conv(t0[2]) == uvar and not pol and \
                            self.u.decl(t0[1][1]).get('ctype', '').startswith('std::vector<bool') and marker in (None, t0[1][1]):
                        marker = t0[1][1]
                    else:
                        marker = False
                        break
            def _set_member(t):
                t = strip_conv(t)
                if t[0] == 'un' and t[1] == '!':
                    t = strip_conv(t[3])
                if t[0] == 'bin' and t[1] in ('==', '!=', '>', '<'):
                    sides = [strip_conv(x) for x in (t[2], t[3])]
                    calls = [x for x in sides if x[0] == 'mcall']
                    t = calls[0] if len(calls) == 1 else t
                return t[0] == 'mcall' and t[1].split('::')[-1] in ('count', 'contains') and t[2][0] == 'var' and \
                    (self.u.decl(t[2][1]) or {}).get('ctype', '').startswith(('std::set<', 'std::unordered_set<')) and \
                    tuple(strip_conv(a) for a in t[3]) == (uvar,)
            if marker:
                self.closed_guard = (scan['i'], marker)
            elif atoms and all(_set_member(t) for t, _ in atoms):
                # a closed set kept in a std::set / unordered_set: the same conditional obligation, but the polarity and the
                # insertion into the set are not modelled - not decided (never a violation)
                self.unknown.append('the neighbourhood scan is skipped under a set-membership test of the removed vertex (a closed '
                                    'set kept in a std::set): the rule models the vector<bool> form only')
                return
            else:
                self.problems.append(('scan-one', scan['i'], 'the neighbourhood scan is conditional or nested: not exactly one '
                                                             'scan per removed element'))
        self.vvar = ('var', scan['loopvar'])
        self.scanbody = set(f.descendants(scan['body']))
        self.scan_region = self._region_of_stmt_start(scan['body'])
        # ---- arrays: local vectors indexed by u / v
        self.arrays = {}
        for n in f.nodes:
            if n['k'] == 'DeclStmt':
                for ix, d in enumerate(n['decls']):
                    dd = self.u.decl(d)
                    if dd['dk'] == 'Var' and dd.get('ctype', '').startswith('std::vector<') and ('var', d) != W:
                        init = self.T(n['c'][ix]) if ix < len(n['c']) and n['c'][ix] >= 0 else None
                        self.arrays[d] = dict(decl=d, name=dd['name'], ctype=dd['ctype'], init=init, node=n['i'])
        # assignments to array elements
        self.assigns = []   # (node, array decl, index term, rhs term)
        for n in f.nodes:
            t = None
            if n['k'] in ('BinaryOperator',) and n['op'] == '=':
                t = self.T(n['i'])
            elif n['k'] == 'CXXOperatorCallExpr' and 'callee' in n and self.u.decl(n['callee']).get('op') == '=':
                t = self.T(n['i'])
            if t and t[0] == 'bin' and t[1] == '=' and t[2][0] == 'idx' and t[2][1][0] == 'var' and t[2][1][1] in self.arrays:
                self.assigns.append((n['i'], t[2][1][1], t[2][2], t[3]))
        # appends to array-of-lists elements: preds[v].push_back(u)
        self.appends = []
        for n in f.nodes:
            if n['k'] == 'CXXMemberCallExpr' and 'callee' in n and self.u.decl(n['callee'])['name'] in ('push_back', 'emplace_back'):
                o = self.T(n.get('obj', -1))
                if o[0] == 'idx' and o[1][0] == 'var' and o[1][1] in self.arrays:
                    self.appends.append((n['i'], o[1][1], o[2], self.T(n['args'][0])))
        # ---- insertions
        self.inserts = [n for n in pushes if n['i'] in body]
        self.init_pushes = [n for n in pushes if n['i'] not in body]

    def _region_of_stmt_start(self, stmt):
        """control region of the first CFG element inside a statement"""
        f = self.f
        best = None
        for d in f.descendants(stmt):
            p = f.pos.get(d)
            if p is not None:
                if best is None or d < best[1]:
                    pass
        # choose the element with the smallest region (the statement's own level)
        live = f.reachable_blocks()
        regs = [f.region_of_block(f.pos[d][0]) for d in f.descendants(stmt) if d in f.pos and f.pos[d][0] in live]
        if not regs:
            return frozenset()
        return min(regs, key=len)

    def guard_atoms(self, nid, within):
        """[(term, polarity, dep)] of the branch conditions node nid depends on whose test lies in `within`"""
        f = self.f
        out = []
        for dep in f.region(nid):
            a = f.branch_atom(dep[0])
            if a is None or a not in within:
                continue
            for t, pol in implied(self.T(a), dep[1] == 0):
                out.append((t, pol, dep))
        return out


def _conj(t):
    t0 = strip_conv(t)
    if t0[0] == 'bin' and t0[1] == '&&':
        return _conj(t0[2]) + _conj(t0[3])
    return [t]


def implied(t, pol):
    """atoms implied by a branch outcome: (A && B) true => A true, B true; (A || B) false => both false"""
    t0 = t
    while t0[0] in ('conv', 'cast'):
        t0 = t0[2]
    if t0[0] == 'bin' and t0[1] == '&&' and pol:
        return implied(t0[2], True) + implied(t0[3], True)
    if t0[0] == 'bin' and t0[1] == '||' and not pol:
        return implied(t0[2], False) + implied(t0[3], False)
    if t0[0] == 'un' and t0[1] == '!' and t0[3][0] == 'bin' and t0[3][1] in ('&&', '||'):
        return implied(t0[3], not pol)
    return [(t, pol)]


def _sentinel(t):
    t = strip_cast(t)
    return t[0] == 'global' and t[1] in SENTINELS


def check_search(m, f, schema, res_wl, res_bound):
    """schema: 'S-BFS' | 'S-BFS-ALL' | 'S-LC'"""
    s = Search(m, f)
    disp = f.display()

    def fail(res, check, nid, msg):
        res.fail(Finding(res.rule, disp, '%s %s' % (schema, check), f.nloc(nid) if nid is not None else f.where(),
                         '%s conformance (%s): %s' % (schema, check, msg)))

    if not s.unknown and getattr(s, 'extra_exit', None):
        cond = ' && '.join(show(x, f.unit) for x in s.extra_exit)
        if schema == 'S-BFS':
            s.unknown.append('the main loop has the additional exit condition `%s`; early termination of the single-parent '
                             'search can be sound (all information is set at discovery) but the rule cannot decide it' % cond)
        else:
            s.problems.append(('exhaustive', s.loop['i'],
                               'the main loop stops when `%s` fails although the worklist may still hold vertices: %s'
                               % (cond, 'predecessor lists are completed only when every parent has been expanded, so queued '
                                  'vertices that are never scanned leave shortest-path predecessors unrecorded'
                                  if schema == 'S-BFS-ALL' else
                                  'queued vertices that are never expanded leave improvements unpropagated')))
    if s.unknown:
        for w in s.unknown:
            res_wl.broken('F-WL: %s is not in a recognised worklist shape: %s' % (disp, w))
            res_bound.broken('F-WL: %s is not in a recognised worklist shape: %s' % (disp, w))
        return s
    for check, nid, msg in s.problems:
        res_wl.sites += 1
        fail(res_wl, check, nid, msg)
        if check in ('remove-one', 'scan-one'):
            res_bound.sites += 1
            fail(res_bound, check, nid, msg)
    if s.problems:
        return s
    if getattr(s, 'closed_guard', None) and schema != 'S-LC':
        res_wl.sites += 1
        fail(res_wl, 'scan-one', s.closed_guard[0], 'the neighbourhood scan is conditional or nested: not exactly one scan per removed element')
        res_bound.sites += 1
        fail(res_bound, 'scan-one', s.closed_guard[0], 'the neighbourhood scan is conditional or nested: not exactly one scan per removed element')
        return s
    u, v, W = s.uvar, s.vvar, s.W
    res_wl.sites += 2
    res_wl.ok(dict(function=disp, schema=schema, check='remove-one', worklist=show(W, f.unit), current=show(u, f.unit)), fn=disp)
    res_wl.ok(dict(function=disp, schema=schema, check='scan-one', scan=f.expr_text(s.scan['rangeinit'])), fn=disp)
    res_bound.sites += 2
    res_bound.ok(dict(function=disp, check='one removal and one neighbourhood scan per iteration'), fn=disp)
    res_bound.ok(None)
    # ---- the scan visits every neighbour: nothing leaves the scan loop early
    res_wl.sites += 1
    early = []
    for n in f.nodes:
        if n['i'] in s.scanbody and n['k'] in ('BreakStmt', 'ReturnStmt', 'GotoStmt'):
            owner = None
            for a in f.ancestors(n['i']):
                if f.nodes[a]['k'] in ('ForStmt', 'WhileStmt', 'DoStmt', 'CXXForRangeStmt', 'SwitchStmt'):
                    owner = a
                    break
            if n['k'] != 'BreakStmt' or owner == s.scan['i']:
                early.append(n)
    # ... and no neighbour is skipped on a condition that depends on earlier iterations: a `continue` whose guard reads a local
    # that the scan itself (or the main loop) writes carries state from one neighbour / one vertex to the next
    skipped = None
    if not early:
        for n in f.nodes:
            if n['i'] in s.scanbody and n['k'] == 'ContinueStmt':
                owner = None
                for a in f.ancestors(n['i']):
                    if f.nodes[a]['k'] in ('ForStmt', 'WhileStmt', 'DoStmt', 'CXXForRangeStmt'):
                        owner = a
                        break
                if owner != s.scan['i']:
                    continue
                guards = [f.nodes[a]['cond'] for a in f.ancestors(n['i']) if a in s.scanbody and f.nodes[a]['k'] == 'IfStmt' and
                          f.nodes[a].get('cond', -1) >= 0]
                for a0 in guards:
                    gt0 = s.T(a0)
                    # ... or that reads one of the arrays the search itself fills (distance / predecessor / mark) together with
                    # a property of the edge: "this edge cannot matter because the neighbour is already in the tree"
                    arrs = [st for st in subterms(gt0) if st[0] == 'idx' and st[1][0] == 'var' and st[1][1] in getattr(s, 'arrays', {})]
                    others = [st for st in subterms(gt0) if st[0] == 'var' and s.u.decl(st[1])['dk'] == 'Var' and
                              st[1] != s.scan.get('loopvar') and st[1] not in getattr(s, 'arrays', {})]
                    if arrs and others and skipped is None:
                        skipped = (n, others[0], a0)
                    for st in subterms(gt0):
                        if st[0] == 'var' and s.u.decl(st[1])['dk'] == 'Var' and st[1] != s.scan.get('loopvar'):
                            writes = [d for d in var_defs(f, st[1]) if d[0] in s.body]
                            if writes and not (len(var_defs(f, st[1])) == 1 and var_defs(f, st[1])[0][0] in s.scanbody):
                                skipped = (n, st, a0)
    if early:
        fail(res_wl, 'scan-all', early[0]['i'], 'the scan of the neighbours of the current vertex is left early (%s): neighbours stored '
             'after that point are never relaxed / discovered' % early[0]['k'])
    elif skipped:
        fail(res_wl, 'scan-all', skipped[0]['i'], 'a neighbour is skipped when `%s` holds, and `%s` is written inside the search loop: the '
             'decision depends on what earlier neighbours / earlier vertices left behind, so an edge of the current vertex can go '
             'unexamined' % (f.expr_text(skipped[2])[:50], s.u.decl(skipped[1][1])['name']))
    else:
        res_wl.ok(None)
    # ---- insert-once
    if len(s.inserts) != 1:
        res_wl.sites += 1
        fail(res_wl, 'insert', s.loop['i'], 'expected one insertion site in the relaxation, found %d' % len(s.inserts))
        res_bound.sites += 1
        fail(res_bound, 'insert', s.loop['i'], 'expected one insertion site in the relaxation, found %d' % len(s.inserts))
        return s
    ins = s.inserts[0]
    ins_arg = s.T(ins['args'][0])
    res_wl.sites += 1
    if ins_arg != v or ins['i'] not in s.scanbody:
        fail(res_wl, 'insert', ins['i'], 'the vertex inserted into the worklist is not the scanned neighbour')
        return s
    res_wl.ok(None)
    atoms = s.guard_atoms(ins['i'], s.scanbody | set(f.descendants(s.scan['body'])))
    marker = None
    verdict = None
    extra_entry = None
    if schema == 'S-LC':
        # the relaxation is entered through the strict improvement test only: a disjunct beside it (`unreached || cand < dist[v]`)
        # lets a vertex in again without an improvement - the +infinity that marks "not reached" is also a legitimate distance
        for a_ in f.ancestors(ins['i']):
            an = f.nodes[a_]
            if a_ not in s.scanbody:
                break
            if an['k'] == 'IfStmt' and an.get('cond', -1) >= 0 and ins['i'] in f.descendants(an.get('then', -1)):
                ct = strip_conv(resolve(s, strip_conv(s.T(an['cond']))))
                if ct[0] == 'bin' and ct[1] == '||':
                    extra_entry = (an['cond'], ct)
    for t, pol, dep in atoms:
        tt_ = strip_conv(t)
        if tt_[0] == 'var' and s.u.decl(tt_[1]).get('ctype', '').replace('const ', '') == 'bool' and s.u.decl(tt_[1]).get('constq'):
            tt_ = strip_conv(resolve(s, tt_))       # a named const bool stands for the test it was initialised with
        form = None
        if tt_[0] == 'un' and tt_[1] == '!' and pol:
            x = strip_conv(tt_[3])
            if x[0] == 'idx' and x[1][0] == 'var' and x[2] == v:
                form = ('mark', x[1][1], None)
        elif tt_[0] == 'idx' and not pol and tt_[1][0] == 'var' and tt_[2] == v:
            form = ('mark', tt_[1][1], None)
        elif tt_[0] == 'bin' and tt_[1] == '==' and pol:
            for a, b in ((tt_[2], tt_[3]), (tt_[3], tt_[2])):
                a = strip_cast(a)
                if a[0] == 'idx' and a[1][0] == 'var' and a[2] == v and _sentinel(b):
                    form = ('sentinel', a[1][1], None)
        elif tt_[0] == 'bin' and tt_[1] in ('<', '>', '<=', '>='):
            op, a, b = tt_[1], strip_cast(tt_[2]), strip_cast(tt_[3])
            if not pol:
                op = {'<': '>=', '>': '<=', '<=': '>', '>=': '<'}[op]
            # dist[v] - cand > tol  /  tol < dist[v] - cand : a relaxation with a tolerance
            diff, tol, gt = (a, b, op in ('>', '>=')) if a[0] == 'bin' and a[1] == '-' else ((b, a, op in ('<', '<=')) if b[0] == 'bin' and b[1] == '-' else (None, None, None))
            if diff is not None and gt:
                dv, cand0 = strip_cast(diff[2]), strip_cast(diff[3])
                if dv[0] == 'idx' and dv[1][0] == 'var' and dv[2] == v:
                    if strip_cast(tol) in (('int', 0), ('float', 0.0)):
                        a, b, op = cand0, dv, '<'
                    else:
                        verdict = ('wl-only', ins['i'],
                                   'the relaxation guard `%s` accepts a candidate only when it improves the distance by more than a '
                                   'tolerance: smaller improvements are ignored, so the distances returned are not the minimum '
                                   '(exactly representable path sums included)' % show(tt_, f.unit)[:70])
                        marker = ('relax', dv[1][1], ('>', cand0))
                        break
            if b[0] == 'idx' and b[1][0] == 'var' and b[2] == v:
                form = ('relax', b[1][1], (op, a))
            elif a[0] == 'idx' and a[1][0] == 'var' and a[2] == v:
                form = ('relax', a[1][1], ({'<': '>', '>': '<', '<=': '>=', '>=': '<='}[op], b))
        if form is None:
            continue
        kind, arr, extra = form
        # the falsifying assignment, for the same vertex, executed whenever the insertion is
        fals = []
        for (an, ad, idx, rhs) in s.assigns:
            if ad != arr or an not in s.scanbody:
                continue
            if not (f.region(an) <= f.region(ins['i'])):
                continue
            if kind == 'mark' and idx == v and strip_cast(rhs) == ('bool', True):
                fals.append(an)
            elif kind == 'sentinel' and idx == v and not _sentinel(rhs):
                fals.append(an)
            elif kind == 'relax' and idx == v and strip_cast(rhs) == strip_cast(extra[1]):
                fals.append(an)
        wrong_vertex = [an for (an, ad, idx, rhs) in s.assigns if ad == arr and idx != v and an in s.body]
        if kind == 'relax':
            op = extra[0]
            if op != '<':
                verdict = ('violation', ins['i'], 'the relaxation guard is not the strict `candidate < dist[v]` (found `%s`): '
                                                  'equal-cost rediscoveries re-insert the vertex (no termination bound on '
                                                  'zero-weight cycles)' % op)
                marker = form
                break
        if fals and kind == 'relax':
            # the store falsifies `cand < dist[v]` only if the value stored is the value compared: a test evaluated in a
            # wider floating type than the stored distances can succeed again after the candidate has been rounded
            rank = {'float': 0, 'double': 1, 'long double': 2}
            elem = s.arrays[arr].get('ctype', '')
            elem = elem[elem.index('<') + 1:].split(',')[0].strip().rstrip('>') if '<' in elem else ''
            wide = None
            for n in f.nodes:
                if n['k'] == 'BinaryOperator' and n.get('op') in ('<', '>', '<=', '>=') and strip_conv(s.T(n['i'])) == tt_:
                    for c in n['c']:
                        ct = f.nodes[c].get('t', '')
                        if ct in rank and elem in rank and rank[ct] > rank[elem]:
                            wide = (n['i'], ct)
            if wide:
                marker = form
                verdict = ('bound-only', wide[0],
                           'the improvement test is evaluated in `%s` while the distances are stored as `%s`: after the candidate '
                           'has been rounded on storage the stored distance can still compare greater than an equally long route, '
                           'so equal-cost rediscoveries re-insert the vertex; the number of scans is then bounded by the number '
                           'of tied routes, not by the size of the graph' % (wide[1], elem), fals[0], kind)
                break
        if fals:
            marker = form
            verdict = ('holds', fals[0], kind)
            break
        else:
            marker = form
            verdict = ('violation', ins['i'],
                       'the worklist insertion is guarded by a test on `%s[%s]`, but no assignment in the guarded region '
                       'falsifies it for that vertex%s: a vertex is inserted once per discovering parent, so the number of '
                       'neighbourhood scans is bounded by the number of paths, not by the graph size'
                       % (s.arrays[arr]['name'], show(v, f.unit),
                          ' (the only assignment marks `%s`, after the scan)' % show(s.assigns[[a[0] for a in s.assigns].index(wrong_vertex[0])][2], f.unit)
                          if wrong_vertex else ''))
    for res in (res_wl, res_bound):
        res.sites += 1
        if res is res_wl and schema == 'S-BFS-ALL' and verdict is not None and verdict[0] == 'violation':
            # distances and predecessor lists of the all-parent search do not depend on single insertion (its updates are
            # guarded by first discovery / `<=`): the deviation costs work (C19), not correctness
            res.ok(dict(function=disp, schema=schema, check='insert-once', note='not required for the results; see F-WL.bound'))
            continue
        if verdict is not None and verdict[0] == 'wl-only':
            if res is res_wl:
                fail(res, 'insert-once', verdict[1], verdict[2])
            else:
                res.ok(dict(function=disp, schema=schema, check='insert-once', note='a tolerance only removes insertions; see F-WL'))
            continue
        if verdict is not None and verdict[0] == 'bound-only':
            if res is res_wl:
                res.ok(dict(function=disp, schema=schema, check='insert-once', note='mixed precision costs work, not results; see F-WL.bound'))
            else:
                fail(res, 'insert-once', verdict[1], verdict[2])
            continue
        if verdict is None:
            res.broken('F-WL: the insertion guard of %s at %s is not one of the recognised marker tests (!mark[v], '
                       'dist[v]==sentinel, cand<dist[v])' % (disp, f.nloc(ins['i'])))
        elif verdict[0] == 'holds':
            res.ok(dict(function=disp, schema=schema, check='insert-once', guard=marker[0],
                        marker=s.arrays[marker[1]]['name'], falsified_at=f.nloc(verdict[1])), fn=disp)
        else:
            fail(res, 'insert-once', verdict[1], verdict[2])
    if verdict is not None and verdict[0] == 'bound-only':
        verdict = ('holds', verdict[3], verdict[4])
    if verdict is not None and verdict[0] == 'wl-only':
        return s
    if verdict is None or (verdict[0] != 'holds' and schema != 'S-BFS-ALL'):
        return s
    if extra_entry is not None and verdict is not None and verdict[0] == 'holds':
        for res in (res_wl, res_bound):
            res.sites += 1
            fail(res, 'insert-once', extra_entry[0], 'the relaxation is entered when `%s`, i.e. also without a strict improvement of the '
                 'distance: a vertex whose distance legitimately equals the value tested (a total of +infinity) is re-inserted on '
                 'every scan, so the search need not terminate' % f.expr_text(extra_entry[0])[:70])
        return s
    s.marker = marker
    ins_region = f.region(ins['i'])
    # ---- distance / predecessor updates in the insertion region
    dist_arr = None
    pred_arr = None
    for d, a in s.arrays.items():
        init = a['init']
        if init and init[0] == 'ctor' and len(init[2]) >= 2:
            fill = strip_cast(init[2][1])
            if a['ctype'].startswith(('std::vector<unsigned long', 'std::vector<double')) and \
                    (fill[0] == 'global' and (fill[1] in SENTINELS or fill[1] in INF)):
                dist_arr = d
            elif a['ctype'].startswith('std::vector<unsigned int') and fill[0] == 'global' and fill[1] in SENTINELS:
                pred_arr = d
            elif a['ctype'].startswith('std::vector<std::list<unsigned int'):
                pred_arr = d
    res_wl.sites += 1
    if dist_arr is None and pred_arr is not None and schema in ('S-BFS', 'S-BFS-ALL'):
        # the one integer array of the search that is filled with another constant than the documented sentinel
        odd = []
        for d, a in s.arrays.items():
            init = a['init']
            if d != pred_arr and init and init[0] == 'ctor' and len(init[2]) >= 2 and a['ctype'].startswith('std::vector<unsigned long'):
                fill = strip_cast(init[2][1])
                while fill[0] in ('ctor', 'cast') and fill[2]:
                    fill = strip_cast(fill[2][0] if fill[0] == 'ctor' else fill[2])
                if fill[0] == 'var' and s.u.decl(fill[1]).get('constq'):
                    sdn = s.tt._single_def(fill[1]) if hasattr(s, 'tt') else None
                    if sdn is not None:
                        fill = strip_cast(s.T(sdn))
                        while fill[0] in ('ctor', 'cast', 'conv') and len(fill) > 2 and fill[2]:
                            fill = strip_cast(fill[2][0] if fill[0] == 'ctor' else fill[2])
                if fill[0] == 'int' or (fill[0] in ('call', 'scall', 'mcall') and 'numeric_limits' in str(fill[1])):
                    odd.append((d, fill))
        if len(odd) == 1:
            res_wl.fail(Finding(res_wl.rule, disp, '%s init-dist' % schema, f.where(),
                                '%s conformance (init-dist): the distances `%s` start at `%s`, not at the documented sentinel '
                                'BASEGRAPH_VERTEX_MAX: a vertex that is never reached reports that value, and every caller that '
                                'tests the sentinel (the geodesic wrappers, client code) takes it for reachable'
                                % (schema, s.arrays[odd[0][0]]['name'], show(odd[0][1], f.unit)[:60])))
            return s
    if dist_arr is None or pred_arr is None:
        res_wl.broken('F-WL: cannot identify the distance / predecessor arrays of %s by their initialisation '
                      '(sentinel / +infinity fill)' % disp)
        return s
    res_wl.ok(dict(function=disp, check='init', dist=s.arrays[dist_arr]['name'], pred=s.arrays[pred_arr]['name'],
                   fill='sentinel'), fn=disp)
    # sizes from getSize()
    for d in (dist_arr, pred_arr) + ((marker[1],) if marker[0] == 'mark' else ()):
        res_wl.sites += 1
        init = s.arrays[d]['init']
        if init and init[0] == 'ctor' and init[2] and is_size_term(m, f, strip_cast(init[2][0]), s.tt):
            res_wl.ok(None)
        else:
            fail(res_wl, 'init', s.arrays[d]['node'], 'array %s is not sized by getSize()' % s.arrays[d]['name'])
    if marker[0] == 'mark':
        res_wl.sites += 1
        init = s.arrays[marker[1]]['init']
        # vector<bool>(n, false) or vector<bool>(n): value-initialised elements are false
        only_size = init and init[0] == 'ctor' and len([x for x in init[2] if not (x[0] == 'ctor' and 'allocator' in x[1])]) == 1
        if init and init[0] == 'ctor' and ((len(init[2]) >= 2 and strip_cast(init[2][1]) == ('bool', False)) or only_size):
            res_wl.ok(None)
        else:
            fail(res_wl, 'init', s.arrays[marker[1]]['node'], 'the mark array is not initialised to false')
        # the mark is never reset
        for (an, ad, idx, rhs) in s.assigns:
            if ad == marker[1] and strip_cast(rhs) != ('bool', True):
                res_wl.sites += 1
                fail(res_wl, 'frame', an, 'the mark array is reset inside the search')
    # distance update
    res_wl.sites += 1
    dupd = [(an, idx, rhs) for (an, ad, idx, rhs) in s.assigns if ad == dist_arr and an in s.scanbody]
    good = False
    why = 'no distance update for the inserted vertex in the insertion region'
    for an, idx, rhs in dupd:
        if idx != v or not (f.region(an) <= ins_region):
            continue
        r = resolve(s, strip_cast(rhs))
        if schema in ('S-BFS', 'S-BFS-ALL'):
            if r[0] == 'bin' and r[1] == '+' and {strip_cast(r[2]), strip_cast(r[3])} == {('idx', ('var', dist_arr), u), ('int', 1)}:
                good = True
            else:
                why = 'the distance assigned to the discovered vertex is not dist[current] + 1'
        else:
            if r[0] == 'bin' and r[1] == '+':
                ops = [strip_cast(r[2]), strip_cast(r[3])]
                du = ('idx', ('var', dist_arr), u)
                if du in ops:
                    w = ops[1 - ops.index(du)]
                    if w[0] == 'mcall' and w[1].endswith(('::getEdgeWeight',)) and w[3][:2] == (u, v):
                        good = True
                    else:
                        why = 'the candidate distance does not add the weight of exactly the edge (current, neighbour)'
                else:
                    why = 'the candidate distance is not dist[current] + weight'
    if good:
        res_wl.ok(dict(function=disp, schema=schema, check='dist-update',
                       value='dist[u]+1' if schema != 'S-LC' else 'dist[u]+w(u,v)'), fn=disp)
    else:
        fail(res_wl, 'dist-update', ins['i'], why)
    # other distance writes inside the loop must be for the scanned neighbour under a non-increasing guard
    for an, idx, rhs in [(a, i, r) for (a, ad, i, r) in s.assigns if ad == dist_arr and a in s.body]:
        if idx != v:
            res_wl.sites += 1
            fail(res_wl, 'frame', an, 'a distance other than that of the scanned neighbour is written inside the loop')
    # predecessor update
    res_wl.sites += 1
    if schema == 'S-BFS-ALL':
        ap = [(an, idx, val) for (an, ad, idx, val) in s.appends if ad == pred_arr and an in s.scanbody]
        ok = False
        why = 'no append of the current vertex to the predecessor list of the neighbour'
        for an, idx, val in ap:
            if idx == v and val == u:
                atoms2 = s.guard_atoms(an, s.scanbody)
                has_len = False
                has_dup = False
                has_unexp = False
                for t, pol, dep in atoms2:
                    t2 = strip_conv(t)
                    if t2[0] == 'bin' and not pol and t2[1] in ('>', '<', '>=', '<=', '==', '!='):
                        t2 = ('bin', {'>': '<=', '<': '>=', '>=': '<', '<=': '>', '==': '!=', '!=': '=='}[t2[1]], t2[2], t2[3])
                        pol = True
                    if t2[0] == 'bin' and t2[1] in ('>=',) and pol:
                        t2 = ('bin', '<=', t2[3], t2[2])
                    if t2[0] == 'bin' and t2[1] in ('<=', '==') and pol:
                        l, r = resolve(s, strip_cast(t2[2])), strip_cast(t2[3])
                        if r == ('idx', ('var', dist_arr), v) and l[0] == 'bin' and l[1] == '+' and \
                                {strip_cast(l[2]), strip_cast(l[3])} == {('idx', ('var', dist_arr), u), ('int', 1)}:
                            has_len = True
                    if t2[0] == 'bin' and t2[1] == '==' and pol:
                        l = t2[2]
                        if l[0] == 'call' and l[1] == 'std::find' and len(l[2]) == 3 and l[2][2] == u:
                            has_dup = True
                    if t2[0] == 'un' and t2[1] == '!' and pol:
                        x = strip_conv(t2[3])
                        if x[0] == 'idx' and x[2] == v:
                            has_unexp = True
                if has_len and has_dup:
                    ok = True
                else:
                    why = 'the append to the predecessor list is not guarded by `dist[current]+1 <= dist[neighbour]` and ' \
                          'absence of the current vertex in the list'
        if ok:
            res_wl.ok(dict(function=disp, schema=schema, check='pred-update', form='append iff dist[u]+1 <= dist[v] and not present'),
                      fn=disp)
        else:
            fail(res_wl, 'pred-update', ins['i'], why)
    else:
        pupd = [(an, idx, rhs) for (an, ad, idx, rhs) in s.assigns if ad == pred_arr and an in s.body]
        if any(idx == v and rhs == u and f.region(an) <= ins_region for an, idx, rhs in pupd) and \
                all(idx == v and rhs == u and f.region(an) <= ins_region for an, idx, rhs in pupd):
            res_wl.ok(dict(function=disp, schema=schema, check='pred-update', form='pred[v] = u in the insertion region'), fn=disp)
        else:
            fail(res_wl, 'pred-update', ins['i'], 'pred[neighbour] = current is not set in the insertion region, or a predecessor is '
                                                  'also written outside the region of the (strict) improvement: ties or other '
                                                  'conditions then rewrite the tree, and dist[v] = dist[pred[v]] + w(pred[v],v) / '
                                                  '"the source is its own predecessor" no longer follow')
    # ---- initialisation of the source
    res_wl.sites += 1
    src = None
    if s.init_pushes:
        src = s.T(s.init_pushes[0]['args'][0])
    else:
        init = s.u.decl(W[1])
        for (dn, rhs) in var_defs(f, W[1]):
            if rhs >= 0:
                for st in subterms(s.T(rhs)):
                    if st[0] == 'var' and st != W and s.u.decl(st[1]).get('ctype') in ('unsigned int', 'const unsigned int'):
                        src = st
    ok = src is not None
    why = 'the worklist is not initialised with the source'
    if ok and not s.init_pushes:
        # list-initialisation of the worklist: every element of the list must be the source ({n, source} is the two-element
        # list, not `n copies of source`)
        for (dn, rhs) in var_defs(f, W[1]):
            if rhs >= 0:
                for st in subterms(s.T(rhs)):
                    if st[0] == 'ctor' and st[1].endswith(']') and any(strip_cast(x) != src for x in st[2]):
                        extra = [x for x in st[2] if strip_cast(x) != src][0]
                        ok = False
                        why = 'the worklist is list-initialised with `%s` besides the source: that vertex is queued (and scanned) although ' \
                              'it was never reached, and need not exist in the graph' % show(extra, f.unit)
    if ok:
        pre = [(an, ad, idx, rhs) for (an, ad, idx, rhs) in s.assigns if an not in s.body]
        d0 = [x for x in pre if x[1] == dist_arr and x[2] == src and strip_cast(x[3]) in (('int', 0), ('float', '0.000000'))]
        if not d0:
            ok = False
            why = 'dist[source] is not set to 0 before the loop'
        else:
            # ... on every path that returns a result: no return before the source has its distance
            for r_ in f.nodes:
                if r_['k'] == 'ReturnStmt' and f.cfg_pos(r_['i']) is not None and not f.node_dominates(d0[0][0], r_['i']):
                    ok = False
                    why = 'the function returns at %s before dist[source] is set to 0: on that path the source itself is reported ' \
                          'unreachable' % f.nloc(r_['i'])
        if marker[0] == 'mark' and not [x for x in pre if x[1] == marker[1] and x[2] == src and strip_cast(x[3]) == ('bool', True)]:
            ok = False
            why = 'the source is not marked before the loop'
        if schema == 'S-LC' and not [x for x in pre if x[1] == pred_arr and x[2] == src and x[3] == src]:
            ok = False
            why = 'the source is not its own predecessor'
        others = [x for x in pre if x[2] != src]
        if others:
            ok = False
            why = 'an array element other than the source is written before the loop'
    if not ok:
        # the initialisation may have been handed to a helper that receives the arrays by (non-const) reference
        arrs = {('var', d) for d in (dist_arr, pred_arr) if d is not None} | ({('var', marker[1])} if marker and marker[0] == 'mark' else set())
        for n in f.nodes:
            if n['k'] == 'CallExpr' and 'callee' in n and f.unit.decl(n['callee'])['tname'].startswith(NS) and \
                    f.can_reach_forward(n['i'], s.loop['cond'] if s.loop.get('cond', -1) >= 0 else s.loop['i']):
                cps = f.unit.decl(n['callee']).get('cptypes', [])
                for ax, a in enumerate(n.get('args', [])):
                    if s.T(a) in arrs and ax < len(cps) and cps[ax].endswith('&') and not cps[ax].startswith('const '):
                        why = 'expected the source to be initialised in the search itself (the arrays are handed to %s before the loop)' \
                              % f.unit.decl(n['callee'])['name']
    if ok:
        res_wl.ok(dict(function=disp, schema=schema, check='init-source', source=show(src, f.unit)), fn=disp)
    else:
        fail(res_wl, 'init-source', f.body, why)
    if marker[0] == 'mark' and schema in ('S-BFS', 'S-BFS-ALL'):
        # insert-once counts on the source too: unmarked while it is scanned, a self-loop (or any cycle back) queues it again
        res_bound.sites += 1
        if why == 'the source is not marked before the loop' and not ok:
            fail(res_bound, 'init-source', f.body, 'the source is not marked before the loop: an edge back to it (a self-loop) inserts it '
                                                   'a second time, so it is scanned twice - more than once per vertex')
        else:
            res_bound.ok(dict(function=disp, schema=schema, check='source marked before the loop'), fn=disp)
    # ---- worklist discipline: FIFO for the BFS schemas
    if schema in ('S-BFS', 'S-BFS-ALL'):
        res_wl.sites += 1
        if s.kind == 'queue':
            res_wl.ok(dict(function=disp, check='fifo', worklist='std::queue (push back, pop front)'), fn=disp)
        else:
            fail(res_wl, 'fifo', s.loop['i'], 'breadth-first order needs a FIFO worklist')
    return s


def resolve(s, t, depth=0):
    """replace single-definition locals (newPathLength) by their defining term"""
    if depth > 4 or not isinstance(t, tuple):
        return t
    if t[0] == 'var' and s.u.decl(t[1])['dk'] == 'Var':
        defs = var_defs(s.f, t[1])
        if len(defs) == 1 and defs[0][1] >= 0:
            return resolve(s, strip_cast(s.T(defs[0][1])), depth + 1)
    return t


# ------------------------------------------------------------------------------------------------
def check_heap(m, f, res):
    """F-HEAP on one function (the Dijkstra search)."""
    tt = Terms(f)
    u = f.unit
    disp = f.display()
    calls = []
    for n in f.nodes:
        if n['k'] == 'CallExpr' and 'callee' in n:
            cd = u.decl(n['callee'])
            if cd['tname'] in ('std::make_heap', 'std::push_heap', 'std::pop_heap', 'std::sort_heap', 'std::is_heap'):
                a = [tt.t(x) for x in n['args']]
                calls.append((n, cd['name'], a))
    if not calls:
        return
    res.sites += 1
    cmps = {(a[2] if len(a) > 2 else None) for _, _, a in calls}
    if len(cmps) != 1:
        odd = [c for c in calls if (c[2][2] if len(c[2]) > 2 else None) is None] or calls
        res.fail(Finding('F-HEAP', disp, 'comparator of %s' % odd[0][1], f.nloc(odd[0][0]['i']),
                         'the heap algorithms on one range do not all use the same comparator (%s): %s is called on a range '
                         'that is not a heap with respect to its ordering - a violated precondition of the standard '
                         'library, and the minimum-first removal order is lost'
                         % (', '.join('%s(%s)' % (c[1], 'cmp' if len(c[2]) > 2 else 'operator<') for c in calls), odd[0][1])))
        return
    res.ok(dict(function=disp, check='same comparator', calls=[c[1] for c in calls]), fn=disp)
    cmp_t = cmps.pop()
    # heap range = begin()/end() of one local vector
    H = None
    for n, nm, a in calls:
        if a[0][0] == 'mcall' and a[0][1].endswith('::begin') and a[1][0] == 'mcall' and a[1][1].endswith('::end') and a[0][2] == a[1][2]:
            H = a[0][2] if H in (None, a[0][2]) else 'mixed'
        else:
            H = 'mixed'
    res.sites += 1
    if H == 'mixed' or H is None:
        res.broken('F-HEAP: heap ranges in %s are not begin()/end() of a single vector' % disp)
        return
    res.ok(None)
    # comparator orders by the distance array so that the top is a minimum
    key_arr = None
    if cmp_t is not None:
        res.sites += 1
        lam = None
        if cmp_t[0] == 'var':
            defs = var_defs(f, cmp_t[1])
            if len(defs) == 1 and defs[0][1] >= 0:
                lt = tt.t(defs[0][1])
                if lt[0] == 'lambda':
                    lam = u.function_for_decl(lt[1])
        functor = None
        if lam is None and cmp_t[0] == 'var':
            # a named function object of the library: the call operator compares, the constructor binds the key array
            defs = var_defs(f, cmp_t[1])
            lt = tt.t(defs[0][1]) if len(defs) == 1 and defs[0][1] >= 0 else ('none',)
            while lt[0] in ('ctor', 'cast') and lt[2] and not (lt[0] == 'ctor' and lt[1].startswith(NS)):
                lt = lt[2][0] if lt[0] == 'ctor' else lt[2]
            if lt[0] == 'ctor' and lt[1].startswith(NS):
                ops = [g for g in m.fns if g.record == lt[1] and g.name == 'operator()' and not g.is_lambda]
                ops = [g for g in ops if g.unit is u] or ops
                ctors = [g for g in m.fns if g.record == lt[1] and g.is_ctor and len(g.params) == len(lt[2])]
                ctors = [g for g in ctors if g.unit is u] or ctors
                if len({g.key for g in ops}) == 1 and len({g.key for g in ctors}) == 1:
                    lam = ops[0]
                    functor = {}
                    ctt = Terms(ctors[0])
                    for i in ctors[0].d.get('inits', []):
                        if 'field' in i and i.get('init', -1) >= 0:
                            it = strip_cast(ctt.t(i['init']))
                            while it[0] in ('ctor', 'cast') and it[2]:
                                it = strip_cast(it[2][0] if it[0] == 'ctor' else it[2])
                            fd = ctors[0].unit.decl(i['field'])
                            if it[0] == 'var' and it[1] in ctors[0].params:
                                functor[fd['tname']] = (fd, lt[2][ctors[0].params.index(it[1])],
                                                        ctors[0].cptypes[ctors[0].params.index(it[1])])
        if lam is None:
            res.broken('F-HEAP: comparator of %s is not a local lambda' % disp)
            return
        # the keys the comparator reads must be the live tentative distances: captured by reference, not copied
        lam_expr = [n for n in f.nodes if n['k'] == 'LambdaExpr' and u.function_for_decl(n['callop']) is lam]
        by_value = []
        if functor is not None:
            for fn_, (fd, arg, pty) in functor.items():
                ty = fd.get('ctype', fd.get('type', ''))
                if ty.replace('const ', '').startswith('std::vector<') and not ty.rstrip().endswith(('&', '*')):
                    by_value.append(fd['name'])
                elif pty.replace('const ', '').startswith('std::vector<') and not pty.rstrip().endswith(('&', '*')):
                    by_value.append(fd['name'])      # (a reference to the constructor's own by-value parameter)
        for le in lam_expr:
            for c in le.get('captures', []):
                if not c.get('byref') and not c.get('this') and 'd' in c and \
                        u.decl(c['d']).get('ctype', '').startswith('std::vector<'):
                    by_value.append(u.decl(c['d'])['name'])
        res.sites += 1
        if by_value:
            res.fail(Finding('F-HEAP', disp, 'comparator capture', lam.where(),
                             'the heap comparator captures `%s` by value: it orders the queue by a snapshot taken when the lambda was '
                             'created, not by the current tentative distances, so vertices are extracted in arbitrary order and '
                             're-scanned after every later improvement' % by_value[0]))
            return
        res.ok(dict(function=disp, check='comparator reads the live distance array (captured by reference)'), fn=disp)
        ltt = Terms(lam)
        rets = [n for n in lam.nodes if n['k'] == 'ReturnStmt']
        t = ltt.t(lam.children(rets[0]['i'])[0]) if len(rets) == 1 else ('none',)
        p0, p1 = ('var', lam.params[0]), ('var', lam.params[1])
        ok = False
        if t[0] == 'bin' and t[1] in ('>', '<'):
            l, r = t[2], t[3]
            if l[0] == 'idx' and r[0] == 'idx' and l[1] == r[1]:
                if (t[1] == '>' and (l[2], r[2]) == (p0, p1)) or (t[1] == '<' and (l[2], r[2]) == (p1, p0)):
                    ok = True
                    # captured array: identify in the enclosing function by name
                    an = l[1]
                    nm = lam.unit.decl(an[1])['name'] if an[0] == 'var' else an[-1].split('::')[-1]
                    if functor is not None:
                        nm = None
                        bound = functor.get(an[1]) if an[0] == 'field' else None
                        if bound is not None and bound[1][0] == 'var':
                            key_arr = bound[1][1]
                        else:
                            ok = False
                    for n in f.nodes:
                        if n['k'] == 'DeclStmt':
                            for d in n['decls']:
                                if u.decl(d)['name'] == nm:
                                    key_arr = d
        if ok:
            res.ok(dict(function=disp, check='comparator is dist[a] > dist[b]: the heap top has the minimum distance'), fn=disp)
        else:
            res.fail(Finding('F-HEAP', disp, 'comparator order', lam.where(),
                             'the heap comparator does not order the vertices so that the top has the minimum tentative '
                             'distance (expected dist[a] > dist[b])'))
            return
    # typestate HEAP / DIRTY over the CFG (may-analysis: DIRTY if dirty on any path)
    events = {}   # node -> kind
    for n, nm, a in calls:
        events[n['i']] = nm
    for n in f.nodes:
        if n['k'] == 'CXXMemberCallExpr' and 'callee' in n and tt.t(n.get('obj', -1)) == H:
            nm = u.decl(n['callee'])['name']
            if nm in ('push_back', 'emplace_back', 'front', 'pop_back', 'insert', 'erase', 'clear', 'resize'):
                events[n['i']] = 'H.' + nm
        t = None
        if n['k'] == 'BinaryOperator' and n['op'] == '=':
            t = tt.t(n['i'])
            if t[2][0] == 'idx' and t[2][1][0] == 'var' and t[2][1][1] == key_arr:
                events[n['i']] = 'key.write'
    # declaration of the vector: empty, or a braced list of one element (at most one element is a heap for any ordering)
    for n in f.nodes:
        if n['k'] == 'DeclStmt' and H[0] == 'var' and H[1] in n['decls']:
            ix = n['decls'].index(H[1])
            it0 = tt.t(n['c'][ix]) if ix < len(n['c']) and n['c'][ix] >= 0 else ('ctor', '', ())
            a0 = [x for x in it0[2] if not (x[0] == 'ctor' and 'allocator' in x[1])] if it0[0] == 'ctor' else None
            if a0 == []:
                events[n['i']] = 'H.init0'
            elif a0 is not None and len(a0) == 1 and a0[0][0] == 'ctor' and a0[0][1].endswith('[1]'):
                events[n['i']] = 'H.init1'
            else:
                events[n['i']] = 'H.initN'
    RANK = {'EMPTY': 0, 'ONE': 1, 'HEAP': 2}
    IN = {b: None for b in f.blocks}
    IN[f.entry] = 'EMPTY'
    work = [f.entry]
    viol = []
    seen_after_pop_heap = []

    def step(state, nid):
        k = events.get(nid)
        if k is None:
            return state
        if k == 'H.init0':
            return 'EMPTY'
        if k == 'H.init1':
            return 'ONE'
        if k == 'H.initN':
            return 'DIRTY'
        if k in ('H.push_back', 'H.emplace_back') and state == 'EMPTY':
            return 'ONE'
        if k == 'key.write' and state in ('EMPTY', 'ONE'):
            return state
        if k in ('H.push_back', 'H.emplace_back') and state == 'HEAP':
            return 'PUSHED'
        if k in ('H.push_back', 'H.emplace_back', 'H.insert', 'key.write', 'H.erase', 'H.resize'):
            return 'DIRTY'
        if k == 'make_heap':
            return 'HEAP'
        if k == 'push_heap':
            return 'HEAP' if state in ('PUSHED', 'ONE') else 'DIRTY'
        if k in ('pop_heap', 'H.front'):
            if state not in RANK:
                viol.append((nid, k))
            return 'POPPED' if k == 'pop_heap' else state
        if k == 'H.pop_back':
            if state == 'POPPED':
                return 'HEAP'
            viol.append((nid, 'pop_back without pop_heap'))
            return 'DIRTY'
        if k == 'H.clear':
            return 'EMPTY'
        return state
    it = 0
    while work and it < 5000:
        it += 1
        b = work.pop()
        st = IN[b]
        if st is None:
            continue
        for e in f.blocks[b].elems:
            st = step(st, e)
        for sx in f.blocks[b].succs:
            if sx < 0:
                continue
            old = IN[sx]
            if old is None or old == st:
                new = st
            elif old in RANK and st in RANK:
                new = old if RANK[old] >= RANK[st] else st
            else:
                new = 'DIRTY'
            if new != old:
                IN[sx] = new
                work.append(sx)
    viol = []
    for b, st in IN.items():
        if st is None:
            continue
        for e in f.blocks[b].elems:
            st = step(st, e)
    # the element read with front() is the one pop_heap removes only if the heap is not reorganised in between
    # (may-analysis: a top read is pending on some path)
    PEND = {b: None for b in f.blocks}
    PEND[f.entry] = False
    work = [f.entry]
    stale = []
    REORG = ('H.push_back', 'H.emplace_back', 'H.insert', 'make_heap', 'push_heap', 'sort_heap', 'key.write')

    def pstep(p, nid, record):
        k = events.get(nid)
        if k == 'H.front':
            return True
        if k == 'pop_heap':
            return False
        if p and k in REORG and record:
            stale.append((nid, k))
        return p
    it = 0
    while work and it < 5000:
        it += 1
        b = work.pop()
        p0 = PEND[b]
        if p0 is None:
            continue
        for e in f.blocks[b].elems:
            p0 = pstep(p0, e, False)
        for sx in f.blocks[b].succs:
            if sx < 0:
                continue
            old = PEND[sx]
            new = p0 if old is None else (old or p0)
            if new != old:
                PEND[sx] = new
                work.append(sx)
    for b, p0 in PEND.items():
        if p0 is None:
            continue
        for e in f.blocks[b].elems:
            p0 = pstep(p0, e, True)
    top = getattr(res, 'top', None)
    for r_ in [res] + ([top] if top is not None else []):
        r_.sites += 1
        if stale and any(k == 'pop_heap' for k in events.values()):
            nid, k = stale[0]
            r_.fail(Finding(r_.rule, disp, 'top read / removal', f.nloc(nid),
                            '`%s` reorganises the heap (%s) after the top was read with front() and before pop_heap removes it: the '
                            'entry that is removed need not be the vertex that was processed (on a tie another entry can be lifted '
                            'to the front), so a queued vertex is dropped without having been scanned'
                            % (f.expr_text(nid)[:50], k)))
        else:
            r_.ok(dict(function=disp, check='no heap reorganisation between front() and the pop_heap that removes it'), fn=disp)
    res.sites += 1
    if viol:
        nid, k = viol[0]
        res.fail(Finding('F-HEAP', disp, 'heap state at %s' % k, f.nloc(nid),
                         '%s is reached on a path where the vector is not (known to be) a heap for the comparator: an '
                         'element was appended or a key changed without re-establishing the heap' % k))
    else:
        res.ok(dict(function=disp, check='typestate HEAP/DIRTY: front() and pop_heap only on a heap, pop_back right after '
                    'pop_heap, make_heap after every append / key write'), fn=disp)


def check_priority_queue(m, f, res):
    """a std::priority_queue worklist: its ordering must put the smallest key on top (std::priority_queue with the default
    std::less is a MAX-heap).  Only the one definite deviation is reported; other adaptor forms stay undecided."""
    u = f.unit
    for n in f.nodes:
        if n['k'] != 'DeclStmt':
            continue
        for d in n['decls']:
            ct = u.decl(d).get('ctype', '')
            if ct.startswith(('std::map<double,', 'std::map<float,', 'std::map<long double,', 'std::set<double', 'std::unordered_map<double,')):
                # an associative container with unique keys used as the queue of (distance -> vertex): a second vertex with
                # the same tentative distance is not stored
                tt = Terms(f)
                used = any(x['k'] == 'WhileStmt' and any(st[0] == 'mcall' and st[1].endswith('::empty') and st[2] == ('var', d)
                                                         for st in subterms(tt.t(x['cond']))) for x in f.nodes if x.get('cond', -1) >= 0)
                if used:
                    for r_ in [res] + ([res.top] if getattr(res, 'top', None) is not None else []):
                        r_.sites += 1
                        r_.fail(Finding(r_.rule, f.display(), 'worklist with unique keys', f.nloc(n['i']),
                                        '`%s` (%s) is the worklist of the search, keyed by tentative distance: keys are unique, so a '
                                        'vertex whose distance equals that of an entry still queued is not inserted (emplace / insert do '
                                        'not overwrite) and is never expanded - vertices behind it keep +infinity'
                                        % (u.decl(d)['name'], ct.split('<')[0] + '<' + ct.split('<')[1].split(',')[0] + ', ...>')))
                continue
            if not ct.startswith('std::priority_queue<'):
                continue
            res.sites += 1
            inner = ct[len('std::priority_queue<'):]
            elem = inner.split(', std::vector<')[0]
            cmp_ = inner.rsplit(', std::', 1)[-1] if ', std::' in inner else ''
            keyed = elem.startswith(('std::pair<double', 'std::pair<float', 'std::pair<long double', 'std::tuple<double', 'double'))
            if cmp_.startswith('less<') and keyed:
                res.fail(Finding('F-HEAP', f.display(), 'priority_queue ordering', f.nloc(n['i']),
                                 '`%s` is a std::priority_queue with the default std::less: top() is the entry with the LARGEST '
                                 'tentative distance, so the search expands the farthest queued vertex first and re-queues vertices '
                                 'on every later improvement - the number of scans is no longer bounded by the size of the graph '
                                 '(expected the minimum on top: std::greater, or the vector + heap algorithms with dist[a] > dist[b])'
                                 % u.decl(d)['name']))
            else:
                res.broken('F-HEAP: expected the priority queue of %s to be a vector used with the heap algorithms; the adaptor %s is '
                           'not decided' % (f.display(), ct[:80]))


# ------------------------------------------------------------------------------------------------
SEARCHES = [(ALG + 'findVertexPredecessors', 'S-BFS'), (ALG + 'findAllVertexPredecessors', 'S-BFS-ALL'),
            (ALG + 'findGeodesicsDijkstra', 'S-LC')]


def run_searches(m, which):
    res_wl = RuleResult('F-WL', 'the search loops conform to worklist schemas whose correctness is a textbook theorem: '
                                'S-BFS / S-BFS-ALL (FIFO, insert at first discovery with dist[u]+1, predecessor updates) and '
                                'S-LC (strict relaxation with the weight of exactly (u,v), dist/pred/insert in one region)')
    res_bound = RuleResult('F-WL.bound', 'counting corollaries: one removal and one neighbourhood scan per iteration and '
                                         'each vertex inserted at most once (BFS variants) / only on strict improvement '
                                         '(Dijkstra) bound the number of scans by the size of the graph')
    res_heap = RuleResult('F-HEAP', 'heap algorithms on one range use one comparator ordering by tentative distance with '
                                    'the minimum on top; front()/pop_heap only in state HEAP; pop_back right after pop_heap')
    res_heap.top = RuleResult('F-HEAP.top', 'the entry removed from the priority queue is the vertex that is scanned: the heap is not '
                                            'reorganised between front() and the pop_heap / pop_back that removes the top (every queued '
                                            'vertex is scanned - the premise of the label-correcting theorem)')
    for tn, schema in SEARCHES:
        if schema not in which:
            continue
        fs = m.by_tname.get(tn, [])
        if not fs:
            res_wl.broken('F-WL: anchor vanished: no analysed instantiation of ' + tn)
            res_bound.broken('F-WL: anchor vanished: no analysed instantiation of ' + tn)
            continue
        for f in fs:
            s = check_search(m, f, schema, res_wl, res_bound)
            if schema == 'S-LC':
                before = len(res_heap.findings) + len(res_heap.top.findings)
                before_inc = len(res_heap.inconclusive)
                check_heap(m, f, res_heap)
                check_priority_queue(m, f, res_heap)
                cg = getattr(s, 'closed_guard', None)
                if cg:
                    # lazy deletion (a closed set): a vertex is scanned at its first removal only, so the distances are
                    # right only if every vertex is final at its first removal = minimum-first removal (Dijkstra's theorem
                    # instead of the label-correcting one). That is exactly what F-HEAP decides for this function.
                    res_wl.sites += 1
                    marker = f.unit.decl(cg[1])['name'] if hasattr(f, 'unit') else 'marker'
                    hf = (res_heap.findings + res_heap.top.findings)[before:]
                    if hf:
                        res_wl.fail(Finding(res_wl.rule, f.display(), 'S-LC closed-set', f.nloc(cg[0]),
                                            'S-LC conformance (closed-set): a removed vertex is scanned only while `%s[u]` is unset, so '
                                            'improvements found after its first removal are never propagated; that is sound only '
                                            'if removal is minimum-first, and the heap discipline of this function does not '
                                            'establish it (%s at %s: %s)' % (marker, hf[0].rule, hf[0].loc, hf[0].message[:160])))
                    elif len(res_heap.inconclusive) > before_inc:
                        res_wl.broken('F-WL: %s skips vertices in a closed set and its heap discipline could not be decided' % f.display())
                    else:
                        res_wl.ok(dict(function=f.display(), schema=schema, check='closed set with minimum-first removal (F-HEAP clean)'), fn=f.display())
    return res_wl, res_bound, res_heap


def rule_wrappers(m):
    """Per-destination wrappers and reconstruction (C11)."""
    res = RuleResult('F-WRAP', 'geodesic wrappers run the matching search from the source, reconstruct only when '
                               'dist[destination] != sentinel (empty path otherwise), return {source} for source == '
                               'destination; the reconstruction walks pred[] from the destination, stops at the source and '
                               'throws on the sentinel')
    table = [(ALG + 'findGeodesics', ALG + 'findVertexPredecessors', ALG + 'findPathToVertexFromPredecessors', True),
             (ALG + 'findAllGeodesics', ALG + 'findAllVertexPredecessors', ALG + 'findMultiplePathsToVertexFromPredecessors', True),
             (ALG + 'findGeodesicsFromVertex', ALG + 'findVertexPredecessors', ALG + 'findPathToVertexFromPredecessors', False),
             (ALG + 'findAllGeodesicsFromVertex', ALG + 'findAllVertexPredecessors', ALG + 'findMultiplePathsToVertexFromPredecessors', False)]
    for tn, search, recon, single in table:
        for f in m.by_tname.get(tn, []):
            res.sites += 1
            tt = Terms(f)
            u = f.unit
            disp = f.display()
            graph = ('var', f.params[0])
            src = ('var', f.params[1])
            scalls = [n for n in f.nodes if n['k'] == 'CallExpr' and 'callee' in n and u.decl(n['callee'])['tname'] == search]
            rcalls = [n for n in f.nodes if n['k'] == 'CallExpr' and 'callee' in n and u.decl(n['callee'])['tname'] == recon]
            why = None
            if len(scalls) != 1 or len(rcalls) != 1:
                why = 'expected one call of the search and one of the reconstruction'
            else:
                sa = [tt.t(a) for a in scalls[0]['args']]
                if sa != [graph, src]:
                    why = 'the search is not run on (graph, source)'
                # result variable
                pv = None
                for a in f.ancestors(scalls[0]['i']):
                    if f.nodes[a]['k'] == 'DeclStmt':
                        pv = ('var', f.nodes[a]['decls'][0])
                        break
                ra = [tt.t(a) for a in rcalls[0]['args']]
                if single:
                    dest = ('var', f.params[2])
                else:
                    # loop over all vertices of the graph
                    dest = None
                    for n in f.nodes:
                        if n['k'] == 'CXXForRangeStmt' and tt.t(n['rangeinit']) == graph:
                            dest = ('var', n['loopvar'])
                    if dest is None:
                        why = 'no full-range loop over the destinations'
                if why is None and (pv is None or ra != [graph, src, dest, pv]):
                    why = 'the reconstruction is not called with (graph, source, destination, predecessors of the search)'
                if why is None:
                    # guard: pv.first[dest] != sentinel (true edge)
                    okg = False
                    for t in region_atoms(f, tt, rcalls[0]['i']):
                        if t and t[0] == 'bin' and t[1] == '!=':
                            l, r = strip_cast(t[2]), strip_cast(t[3])
                            if l == ('idx', ('member', pv, 'std::pair::first'), dest) and _sentinel(r):
                                okg = True
                    if not okg:
                        why = 'the reconstruction is not guarded by dist[destination] != BASEGRAPH_VERTEX_MAX'
                if why is None and single:
                    # source == destination -> {source}
                    okr = False
                    for n in f.nodes:
                        if n['k'] == 'ReturnStmt':
                            for t in region_atoms(f, tt, n['i']):
                                if t and t[0] == 'bin' and t[1] == '==' and {t[2], t[3]} == {src, dest}:
                                    rt = tt.t(f.children(n['i'])[0])
                                    # the literal one-vertex path: built from the source alone, no search / reconstruction call
                                    if src in list(subterms(rt)) and not any(st[0] in ('call', 'mcall', 'icall') for st in subterms(rt)):
                                        okr = True
                    if not okr:
                        why = 'source == destination does not return the one-vertex path {source}'
            if why is None and not single:
                # one entry per vertex: the reconstruction where reached, an empty entry otherwise (indices = vertices)
                pushes = [n for n in f.nodes if n['k'] == 'CXXMemberCallExpr' and 'callee' in n and
                          u.decl(n['callee'])['name'] in ('push_back', 'emplace_back') and
                          u.decl(n['callee']).get('record') == 'std::vector']
                rp = [n for n in pushes if rcalls[0]['i'] in f.descendants(n['i'])]
                ep = [n for n in pushes if n not in rp and tt.t(n['obj']) == (tt.t(rp[0]['obj']) if rp else None)]
                if len(rp) != 1:
                    why = 'expected the reconstruction of a reached vertex to be appended to the result'
                else:
                    extra_r = f.region(rp[0]['i'])
                    comp = [n for n in ep if any((d[0], 1 - d[1]) in f.region(n['i']) for d in extra_r)]
                    if not comp:
                        why = 'no (empty) entry is appended for a vertex that was not reached: the entries after it no longer ' \
                              'sit at the index of their vertex'
            if why:
                res.fail(Finding('F-WRAP', disp, 'wrapper structure', f.where(), why))
            else:
                res.ok(dict(function=disp, search=search.split('::')[-1], reconstruction=recon.split('::')[-1],
                            guard='dist[dest] != sentinel') if len(res.samples) < 6 else None, fn=disp)
    # reconstruction walk
    for f in m.by_tname.get(ALG + 'findPathToVertexFromPredecessors', []):
        if len(f.params) != 4:
            continue
        res.sites += 1
        tt = Terms(f)
        src, dest, preds = ('var', f.params[1]), ('var', f.params[2]), ('var', f.params[3])
        cur = None
        why = None
        for n in f.nodes:
            if n['k'] == 'DeclStmt' and len(n['decls']) == 1 and n['c'] and n['c'][0] >= 0 and tt.t(n['c'][0]) == dest:
                cur = ('var', n['decls'][0])
        if cur is None:
            why = 'the walk does not start at the destination'
        else:
            steps = [n for n in f.nodes if n['k'] == 'BinaryOperator' and n['op'] == '=' and tt.t(n['c'][0]) == cur]
            if len(steps) != 1 or strip_cast(tt.t(steps[0]['c'][1])) != ('idx', ('member', preds, 'std::pair::second'), cur):
                why = 'the walk does not follow pred[current]'
            throws = [n for n in f.nodes if n['k'] == 'CXXThrowExpr']
            okt = False
            for t in throws:
                for tm in region_atoms(f, tt, t['i']):
                    if tm and tm[0] == 'bin' and tm[1] == '==' and strip_cast(tm[2]) == cur and _sentinel(tm[3]):
                        okt = True
            if not okt:
                why = why or 'the sentinel predecessor is not rejected with an exception'
            pf = [n for n in f.nodes if n['k'] == 'CXXMemberCallExpr' and 'callee' in n and
                  f.unit.decl(n['callee'])['name'] == 'push_front']
            if not any(tt.t(n['args'][0]) == cur for n in pf) or not any(tt.t(n['args'][0]) == src for n in pf):
                why = why or 'the path is not built by prepending the visited vertices and finally the source'
        if why is None:
            for t in throws:
                okt2 = False
                for tm in region_atoms(f, tt, t['i']):
                    if tm and tm[0] == 'bin' and tm[1] == '==' and strip_cast(tm[2]) == cur and _sentinel(tm[3]):
                        okt2 = True
                    if tm and tm[0] == 'bin' and tm[1] in ('>=', '>') and is_size_term(m, f, strip_cast(tm[3]), tt) and \
                            strip_cast(tm[2])[0] == 'var' and f.unit.decl(strip_cast(tm[2])[1])['dk'] == 'ParmVar':
                        okt2 = True     # range validation of an argument
                if not okt2:
                    # a bound on the length of the partial path: a shortest path has at most V vertices and the partial
                    # path (without the source, which is prepended after the loop) at most V - 1
                    for tm in region_atoms(f, tt, t['i']):
                        if tm and tm[0] == 'bin' and tm[1] in ('>=', '>'):
                            l, r = strip_cast(tm[2]), strip_cast(tm[3])
                            if l[0] == 'mcall' and l[1].endswith('::size') and l[2][0] == 'var':
                                c = None
                                if is_size_term(m, f, r, tt):
                                    c = 0
                                elif r[0] == 'bin' and r[1] == '-' and is_size_term(m, f, strip_cast(r[2]), tt) and strip_cast(r[3])[0] == 'int':
                                    c = strip_cast(r[3])[1]
                                elif r[0] == 'bin' and r[1] == '+' and is_size_term(m, f, strip_cast(r[2]), tt) and strip_cast(r[3])[0] == 'int':
                                    c = -strip_cast(r[3])[1]
                                if c is not None:
                                    threshold_minus_v = -c + (1 if tm[1] == '>' else 0)    # throw fires when size >= V + this
                                    if threshold_minus_v >= 0:
                                        okt2 = True
                                    else:
                                        why = 'the walk is aborted when the partial path reaches %d fewer than V vertices (`%s`): a ' \
                                              'geodesic that visits every vertex (hop distance V-1) is rejected with an exception' % (
                                                  -threshold_minus_v, f.expr_text(a)[:70])
                                        okt2 = True
                if not okt2:
                    res.broken('F-WRAP: %s rejects inputs under the additional condition at %s; the rule cannot show that it never '
                               'fires on the output of the matching search' % (f.display(), f.nloc(t['i'])))
        if why:
            res.fail(Finding('F-WRAP', f.display(), 'reconstruction walk', f.where(), why))
        else:
            res.ok(dict(function=f.display(), walk='current = pred[current] from destination until source; throws on sentinel')
                   if len(res.samples) < 8 else None, fn=f.display())
    res.require_sites(10, 'wrappers / reconstruction functions')
    return res


def rule_enumpaths(m):
    """S-ENUMPATHS: stack enumeration of all parent chains (findMultiplePathsToVertexFromPredecessors)."""
    res = RuleResult('F-ENUMPATHS', 'the enumeration of all shortest paths keeps two stacks in lockstep (vertex, partial path), '
                                    'seeds them with every predecessor of the destination, extends the popped partial path with the '
                                    'popped vertex before pushing each of its predecessors with a copy of it, records a path exactly '
                                    'when the popped vertex is the source (with the destination appended) and throws on a dead end')
    for f in m.by_tname.get(ALG + 'findMultiplePathsToVertexFromPredecessors', []):
        if len(f.params) != 4:
            continue
        res.sites += 1
        tt = Terms(f)
        u = f.unit
        src, dest, preds = ('var', f.params[1]), ('var', f.params[2]), ('var', f.params[3])
        stacks = [d for n in f.nodes if n['k'] == 'DeclStmt' for d in n['decls'] if u.decl(d).get('ctype', '').startswith('std::stack<')]
        why = None
        if len(stacks) != 2:
            why = 'expected a vertex stack and a path stack'
        else:
            vs = [d for d in stacks if 'std::stack<unsigned int' in u.decl(d)['ctype']]
            ps = [d for d in stacks if d not in vs]
            if len(vs) != 1 or len(ps) != 1:
                why = 'expected a stack of vertices and a stack of paths'
            else:
                VS, PS = ('var', vs[0]), ('var', ps[0])

                def unmove(t):
                    while t[0] == 'call' and t[1] in ('std::move', 'std::forward') and len(t[2]) == 1:
                        t = t[2][0]
                    return strip_cast(t)

                def calls_in(g, gtt, obj, name):
                    return [n for n in g.nodes if n['k'] == 'CXXMemberCallExpr' and 'callee' in n and
                            g.unit.decl(n['callee'])['name'] in ((name, 'emplace') if name == 'push' else (name,)) and
                            gtt.t(n['obj']) == obj]

                def calls(obj, name):
                    return calls_in(f, tt, obj, name)

                def refills(g, gtt):
                    """[(X, P, loop node)] loops over preds.second[X] whose body pushes (loop variable, P) on the two stacks and
                    nothing else; None when a push on either stack is outside such a loop"""
                    out = []
                    claimed = set()
                    for lp in g.nodes:
                        if lp['k'] != 'CXXForRangeStmt':
                            continue
                        r = strip_cast(gtt.t(lp['rangeinit']))
                        if not (r[0] == 'idx' and r[1] == ('member', preds, 'std::pair::second')):
                            continue
                        lv = ('var', lp['loopvar'])
                        body = set(g.descendants(lp['body']))
                        a = [n for n in calls_in(g, gtt, VS, 'push') if n['i'] in body]
                        b = [n for n in calls_in(g, gtt, PS, 'push') if n['i'] in body]
                        if len(a) == 1 and len(b) == 1 and a[0].get('args') and unmove(gtt.t(a[0]['args'][0])) == lv and \
                                g.region(a[0]['i']) == g.region(b[0]['i']) and \
                                not (g.region(a[0]['i']) - g.region(lp['loopvarstmt'])):
                            pushed = strip_cast(gtt.t(b[0]['args'][0])) if b[0].get('args') else ('ctor', 'std::list<unsigned int>', ())
                            out.append((r[2], pushed, lp))
                            claimed |= {a[0]['i'], b[0]['i']}
                    loose = [n for n in calls_in(g, gtt, VS, 'push') + calls_in(g, gtt, PS, 'push') if n['i'] not in claimed]
                    return None if loose else out
                # refill steps written in the function itself, and those in a local lambda (one instance per call)
                inst = []       # (X, P, anchor node in f: where the step happens)
                direct = refills(f, tt)
                bad_push = direct is None
                for (X, P, lp) in direct or []:
                    inst.append((X, P, lp['rangeinit']))
                for n in f.nodes:
                    if n['k'] != 'LambdaExpr':
                        continue
                    L = u.function_for_decl(n['callop'])
                    if L is None:
                        continue
                    ltt = Terms(L)
                    lr = refills(L, ltt)
                    if lr is None:
                        bad_push = True
                        continue
                    if not lr:
                        continue
                    holder = None
                    for dn in f.nodes:
                        if dn['k'] == 'DeclStmt':
                            for ix, d in enumerate(dn['decls']):
                                if ix < len(dn['c']) and dn['c'][ix] >= 0 and tt.t(dn['c'][ix]) == ('lambda', n['callop']):
                                    holder = ('var', d)
                    # the loop must be all the lambda does with the graph walk: no other statement at its top level
                    top = L.nodes[L.body]
                    if holder is None or len(lr) != 1 or len(top.get('c', [])) != 1 or top['c'][0] != lr[0][2]['i']:
                        bad_push = True
                        continue
                    for cn in f.nodes:
                        if cn['k'] == 'CXXOperatorCallExpr' and 'callee' in cn and u.decl(cn['callee']).get('op') == '()':
                            ct = tt.t(cn['i'])
                            if ct[0] == 'mcall' and ct[2] == holder and len(ct[3]) == len(L.params):
                                sub = {('var', p): a for p, a in zip(L.params, ct[3])}
                                from .rules_pair import subst
                                inst.append((strip_cast(subst(lr[0][0], sub)), strip_cast(subst(lr[0][1], sub)), cn['i']))
                ov, op = calls(VS, 'pop'), calls(PS, 'pop')
                tv, tp = calls(VS, 'top'), calls(PS, 'top')
                if bad_push:
                    why = 'a vertex is pushed without its partial path (or vice versa), or outside a loop over the predecessors of a vertex'
                elif len(inst) != 2 or len(ov) != 1 or len(op) != 1 or len(tv) != 1 or len(tp) != 1:
                    why = 'expected two refill steps (destination, popped vertex) and one pop / top per stack (steps %d, pops %d/%d)' % (
                        len(inst), len(ov), len(op))
                else:
                    if f.region(ov[0]['i']) != f.region(op[0]['i']):
                        why = why or 'the two stacks are not popped together'
                    # current vertex / current path variables
                    cur = cl = None
                    for n in f.nodes:
                        if n['k'] in ('BinaryOperator', 'CXXOperatorCallExpr'):
                            t = tt.t(n['i'])
                            if t[0] == 'bin' and t[1] == '=' and t[2][0] == 'var':
                                if unmove(t[3]) == ('mcall', 'std::stack::top', VS, ()):
                                    cur = t[2]
                                if unmove(t[3]) == ('mcall', 'std::stack::top', PS, ()):
                                    cl = t[2]
                        if n['k'] == 'DeclStmt':
                            for ix, d in enumerate(n['decls']):
                                if ix < len(n['c']) and n['c'][ix] >= 0 and not u.decl(d).get('isref'):
                                    t = unmove(tt.t(n['c'][ix]))
                                    while t[0] == 'ctor' and len(t[2]) == 1:
                                        t = unmove(t[2][0])
                                    if t == ('mcall', 'std::stack::top', VS, ()):
                                        cur = ('var', d)
                                    if t == ('mcall', 'std::stack::top', PS, ()):
                                        cl = ('var', d)
                    if cur is None or cl is None:
                        why = why or 'the popped vertex / path are not taken from the tops of the two stacks'
                    else:
                        seeds = [i for i in inst if i[0] == dest]
                        kids = [i for i in inst if i[0] == cur]
                        if len(seeds) != 1 or len(kids) != 1:
                            why = why or 'the stacks are not seeded with the predecessors of the destination / refilled with the ' \
                                         'predecessors of the popped vertex'
                        else:
                            sp = seeds[0][1]
                            empty_list = sp[0] == 'ctor' and sp[1].startswith('std::list<') and sp[2] == ()
                            if kids[0][1] != cl or not (sp == cl or empty_list):
                                why = why or 'inside a predecessor loop the predecessor and the current partial path are not pushed'
                            pf = [n for n in f.nodes if n['k'] == 'CXXMemberCallExpr' and 'callee' in n and
                                  u.decl(n['callee'])['name'] == 'push_front' and tt.t(n['obj']) == cl and tt.t(n['args'][0]) == cur]
                            if len(pf) != 1 or not f.can_reach_forward(pf[0]['i'], kids[0][2]):
                                why = why or 'the popped vertex is not prepended to the partial path before its predecessors are pushed'
                            # the path popped from the stack must not be read back after it has been moved from
                            # record when cur == source
                            rec = [n for n in f.nodes if n['k'] == 'CXXMemberCallExpr' and 'callee' in n and
                                   u.decl(n['callee'])['name'] in ('push_back', 'emplace_back') and unmove(tt.t(n['args'][0])) == cl]
                            okr = False
                            for n in rec:
                                for t in region_atoms(f, tt, n['i']):
                                    if t[0] == 'bin' and t[1] == '==' and {t[2], t[3]} == {cur, src}:
                                        pb = [x for x in f.nodes if x['k'] == 'CXXMemberCallExpr' and 'callee' in x and
                                              u.decl(x['callee'])['name'] in ('push_back', 'emplace_back') and tt.t(x['obj']) == cl and
                                              tt.t(x['args'][0]) == dest and f.region(x['i']) == f.region(n['i']) and
                                              f.can_reach_forward(x['i'], n['i'])]
                                        if pb and (tt.t(n['args'][0]) == cl or f.can_reach_forward(kids[0][2], n['i'])):
                                            okr = True
                            if not okr:
                                why = why or 'a path is not recorded exactly when the popped vertex is the source, with the destination appended'
                            throws = [n for n in f.nodes if n['k'] == 'CXXThrowExpr']
                            if not throws:
                                why = why or 'a vertex without predecessors that is not the source is not rejected'
        if why:
            res.fail(Finding('F-ENUMPATHS', f.display(), 'path enumeration schema', f.where(), why))
        else:
            res.ok(dict(function=f.display(), schema='two stacks in lockstep; seed preds(dest); pop; prepend; push preds(cur); record at source')
                   if len(res.samples) < 4 else None, fn=f.display())
    res.require_sites(5, 'enumeration functions')
    return res


def rule_pred_orientation(m, which=('S-BFS', 'S-BFS-ALL', 'S-LC')):
    """F-WL.orient: shape-independent necessary condition of "the predecessor p of v is joined to v by an edge p -> v":
    a store pred[A] = B (or pred[A].push_back(B)) that sits inside a range-for over getOutNeighbours(X) relates A and B
    through that enumeration; with loop variable n it must be pred[n] = X (n is a successor of X), never pred[X] = n, which
    records a *successor* as the parent - right on an undirected graph only. Decided per instantiation; reported for the
    instantiations on a directed class."""
    res = RuleResult('F-WL.orient', 'a predecessor stored inside an enumeration of getOutNeighbours(X) is X for the enumerated '
                                    'neighbour, not the neighbour for X (the edge runs from the predecessor to the vertex) - '
                                    'in any loop shape, for every instantiation on a directed class')
    for tn, schema in SEARCHES:
        if schema not in which:
            continue
        fs = m.by_tname.get(tn, [])
        if not fs:
            res.broken('F-WL.orient: anchor vanished: no analysed instantiation of ' + tn)
            continue
        for f in fs:
            tt = Terms(f)
            disp = f.display()
            directed = 'Directed' in disp and 'Undirected' not in disp.split('<', 1)[-1].split(',')[0]
            loops = []
            for n in f.nodes:
                if n['k'] == 'CXXForRangeStmt':
                    r = tt.t(n['rangeinit'])
                    if r[0] == 'mcall' and r[1].endswith(('::getOutNeighbours', '::getNeighbours')) and len(r[3]) == 1:
                        loops.append((n, strip_conv(r[3][0]), ('var', n['loopvar']), set(f.descendants(n['body']))))
            stores = []
            for n in f.nodes:
                t = None
                if n['k'] == 'BinaryOperator' and n.get('op') == '=':
                    t = tt.t(n['i'])
                    if t[0] == 'bin' and t[2][0] == 'idx' and t[2][1][0] == 'var':
                        stores.append((n['i'], t[2][1][1], strip_conv(t[2][2]), strip_conv(t[3])))
                elif n['k'] == 'CXXMemberCallExpr' and 'callee' in n and f.unit.decl(n['callee'])['name'] in ('push_back', 'emplace_back') \
                        and n.get('args'):
                    o = tt.t(n.get('obj', -1))
                    if o[0] == 'idx' and o[1][0] == 'var':
                        stores.append((n['i'], o[1][1], strip_conv(o[2]), strip_conv(tt.t(n['args'][0]))))
            for nid, arr, a, b in stores:
                ct = (f.unit.decl(arr) or {}).get('ctype', '')
                if not (ct.startswith('std::vector<unsigned int') or ct.startswith('std::vector<std::list<unsigned int')
                        or ct.startswith('std::vector<std::vector<unsigned int')):
                    continue
                if a[0] != 'var' or b[0] != 'var' or a == b:
                    continue
                for ln, x, lv, body in loops:
                    if nid not in body:
                        continue
                    if a == lv and b == x:
                        res.sites += 1
                        res.ok(dict(function=disp, store=f.expr_text(nid)[:70], scan=f.expr_text(ln['rangeinit'])[:60])
                               if len(res.samples) < 4 else None, fn=disp)
                    elif a == x and b == lv:
                        res.sites += 1
                        if directed:
                            res.fail(Finding('F-WL.orient', disp, 'successor stored as predecessor', f.nloc(nid),
                                             '`%s` inside the enumeration of `%s`: the enumerated vertex is a successor of `%s` '
                                             '(the edge runs %s -> %s) and is recorded as its predecessor; on a directed graph '
                                             'the recorded parent need not be an in-neighbour, so distances and paths follow '
                                             'edges that do not exist' % (f.expr_text(nid)[:60], f.expr_text(ln['rangeinit'])[:60],
                                                                          show(x, f.unit), show(x, f.unit), show(lv, f.unit))))
                        else:
                            res.ok(None, fn=disp)
    return res
