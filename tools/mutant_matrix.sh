#!/bin/bash
# usage: mutant_matrix.sh <patch dir with survivors.txt>  : runs all 20 checks on every surviving mutant, prints one line each
P=$(realpath $1)
D=$P/survivor_diffs; rm -rf $D; mkdir -p $D
for n in $(cat $P/survivors.txt); do cp $P/$n.diff $D/$n.diff; done
cd /verif
BGCHECK_FULL=1 python3 -m bgcheck selftest --neutral-dir $D --jobs 8 > $P/matrix_raw.txt 2>&1
python3 - $P <<'PY'
import re,json,sys,os
P=sys.argv[1]
cur=None; rows=[]
for ln in open(P+'/matrix_raw.txt'):
    m=re.match(r'neutral\s+(\S+)\s+(\S+)',ln)
    if m:
        cur=m.group(1)
        if m.group(2)=='OK': rows.append((cur,[],[]))
    elif ln.strip().startswith('{') and cur:
        d=json.loads(ln.strip())
        rows.append((cur,['%s:%s'%(p,'/'.join(v['rules'])) for p,v in d.items() if v['rc']==1],[p for p,v in d.items() if v['rc']==2]))
out=open(P+'/matrix.txt','w')
for n,r1,r2 in rows:
    desc=open(P+'/%s.txt'%n).read().split('\n')
    line='%s | %s | %s | viol=%s | inc=%s'%(n, desc[0], desc[2][:70], ' '.join(r1) or '-', ','.join(r2) or '-')
    print(line); out.write(line+'\n')
c=sum(1 for r in rows if r[1]); i=sum(1 for r in rows if not r[1] and r[2]); s=sum(1 for r in rows if not r[1] and not r[2])
print('survivors %d: reported %d, inconclusive only %d, silent %d'%(len(rows),c,i,s))
PY
