#!/bin/bash
# runs all 20 checks on the behaviour-preserving refactorings written by sub-agents and prints one line per patch:
#   <patch> rc1=<properties that raised a VIOLATION> rc2=<properties that were inconclusive>
cd /verif
BGCHECK_FULL=1 python3 -m bgcheck selftest --neutral-dir selftest/neutral_agents --jobs 8 > /tmp/neutral_result.txt 2>&1
python3 - <<'PY'
import re,json
cur=None; ok=0; tot=0
for ln in open('/tmp/neutral_result.txt'):
    m=re.match(r'neutral\s+(\S+)\s+(\S+)',ln)
    if m:
        cur=m.group(1); tot+=1
        if m.group(2)=='OK': ok+=1; print('%-8s ok'%cur)
    elif ln.strip().startswith('{') and cur:
        try: d=json.loads(ln.strip())
        except Exception: print('%-8s (unparsed) %s'%(cur, ln.strip()[:200])); continue
        r1=['%s:%s'%(p,'/'.join(v['rules'])) for p,v in d.items() if v['rc']==1]
        r2=[p for p,v in d.items() if v['rc']==2]
        print('%-8s rc1=%s rc2=%s'%(cur, ' '.join(r1) or '-', ','.join(r2) or '-'))
print('%d/%d clean'%(ok,tot))
PY
