#!/bin/bash
# usage: verify_seed.sh <seed dir containing patch.diff demo.cpp run_demo.sh> 
# confirms in a fresh scratch worktree of /repo: patch applies, test suite passes with it, demo fails with it and passes without.
set -u
S="$(realpath "$1")"
W=$(mktemp -d /tmp/seedverify.XXXXXX)
rmdir "$W"
git -C /repo worktree add "$W" HEAD -q || exit 3
cd "$W"
mkdir -p SEED && cp "$S"/demo* "$S"/run_demo.sh SEED/ 2>/dev/null; cp -r "$S"/* SEED/ 2>/dev/null
chmod +x SEED/run_demo.sh
echo "== demo on original headers"; bash SEED/run_demo.sh "$W" >/tmp/seedverify_orig.log 2>&1; ORIG=$?; echo "exit $ORIG"
git apply "$S/patch.diff" || { echo "PATCH DOES NOT APPLY"; cd /; git -C /repo worktree remove --force "$W"; exit 3; }
echo "== tests with patch"
cmake -G Ninja -B _build -DBUILD_TESTS=ON -DCMAKE_BUILD_TYPE=RelWithDebInfo -DCMAKE_CXX_FLAGS=-Wno-error >/dev/null 2>&1
cmake --build _build 2>&1 | tail -1
ctest --test-dir _build -j8 2>&1 | grep -E "tests passed|tests failed"; 
ctest --test-dir _build -j8 >/dev/null 2>&1; TESTS=$?
echo "== demo with patch"; bash SEED/run_demo.sh "$W" >/tmp/seedverify_patched.log 2>&1; PATCHED=$?; echo "exit $PATCHED"; tail -3 /tmp/seedverify_patched.log
cd /; git -C /repo worktree remove --force "$W"; git -C /repo worktree prune
echo "RESULT orig_demo=$ORIG tests=$TESTS patched_demo=$PATCHED"
if [ $ORIG -eq 0 ] && [ $TESTS -eq 0 ] && [ $PATCHED -ne 0 ]; then echo CONFIRMED; exit 0; else echo NOT-CONFIRMED; exit 1; fi
