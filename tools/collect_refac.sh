#!/bin/bash
# usage: collect_refac.sh R25 : copies REFAC/r*.diff + notes into selftest/neutral_agents, removes the worktree
R=$1
for f in /tmp/refac/$R/REFAC/r*.diff; do k=$(basename $f .diff); cp $f /verif/selftest/neutral_agents/${R}_$k.diff; done
cp /tmp/refac/$R/REFAC/notes.md /verif/selftest/neutral_agents/${R}_notes.md 2>/dev/null
git -C /repo worktree remove --force /tmp/refac/$R
ls /verif/selftest/neutral_agents/${R}_r*.diff | wc -l
