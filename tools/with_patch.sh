#!/bin/bash
# usage: with_patch.sh [-R] <patch-file> -- <command...>
# applies the patch to /repo's working tree, runs the command from /verif, and always restores /repo.
set -u
REV=""
if [ "$1" = "-R" ]; then REV="-R"; shift; fi
PATCH="$1"; shift; shift
if ! git -C /repo diff --quiet; then echo "with_patch: /repo working tree is dirty" >&2; exit 3; fi
git -C /repo apply $REV "$(realpath "$PATCH")" || { echo "with_patch: patch does not apply" >&2; exit 3; }
cd /verif
"$@"
rc=$?
git -C /repo checkout -- . >/dev/null 2>&1
exit $rc
