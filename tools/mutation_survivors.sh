#!/bin/bash
# usage: mutation_survivors.sh <patch dir> <workers>
# For every M*.diff: apply to a persistent scratch worktree of /repo, build and run the repo's test suite.
# Writes <patch dir>/survivors.txt (mutants that compile and pass all tests) and killed.txt.
P=$(realpath $1); W=${2:-4}
: > $P/survivors.txt; : > $P/killed.txt
ls $P/M*.diff | sort > $P/all.txt
worker() {
  k=$1
  wt=/tmp/mut2/wt$k
  if [ ! -d $wt ]; then git -C /repo worktree add -q --detach $wt HEAD; (cd $wt && cmake -G Ninja -B _build -DBUILD_TESTS=ON -DCMAKE_BUILD_TYPE=RelWithDebInfo -DCMAKE_CXX_FLAGS=-Wno-error >/dev/null 2>&1 && cmake --build _build -j4 >/dev/null 2>&1); fi
  awk -v k=$k -v w=$W 'NR % w == k' $P/all.txt | while read d; do
    n=$(basename $d .diff)
    (cd $wt && git checkout -q -- include && git apply $d 2>/dev/null) || { echo "$n noapply" >> $P/killed.txt; continue; }
    if ! (cd $wt && timeout 300 cmake --build _build -j4 >/dev/null 2>&1); then echo "$n build" >> $P/killed.txt; continue; fi
    if (cd $wt && timeout 120 ctest --test-dir _build -j4 >/dev/null 2>&1); then echo "$n" >> $P/survivors.txt; else echo "$n tests" >> $P/killed.txt; fi
  done
  (cd $wt && git checkout -q -- include)
}
for k in $(seq 0 $((W-1))); do worker $k & done
wait
echo "survivors: $(wc -l < $P/survivors.txt)  killed: $(wc -l < $P/killed.txt)"
