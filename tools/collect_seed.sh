#!/bin/bash
# usage: collect_seed.sh <worktree under /tmp/seed, e.g. C07c> : copies SEED/ into /verif/seeded/<Cnn_x>, confirms it, writes meta.json
set -u
W=$1
P=${W:0:3}; S=${W:3:1}
D=/verif/seeded/${P}_${S}
mkdir -p $D
cp /tmp/seed/$W/SEED/patch.diff /tmp/seed/$W/SEED/run_demo.sh /tmp/seed/$W/SEED/notes.md $D/ 2>/dev/null
cp /tmp/seed/$W/SEED/demo* $D/ 2>/dev/null
/verif/tools/verify_seed.sh $D > /tmp/seed/verify_${P}_${S}.log 2>&1
tail -2 /tmp/seed/verify_${P}_${S}.log | tr '\n' ' '; echo " [$W]"
