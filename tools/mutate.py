#!/usr/bin/env python3
"""Classic first-order mutants of include/BaseGraph (operator replacement, constant replacement, statement deletion,
argument swap), written as unified diffs.  usage: mutate.py <outdir> [max] [seed]
A measuring instrument for the checker (DESIGN 13.2), not part of any registered check."""
import os, random, re, subprocess, sys, tempfile, shutil

REPO = os.environ.get('BGCHECK_REPO', '/repo')
FILES = ['directed_graph.hpp', 'undirected_graph.hpp', 'directed_multigraph.hpp', 'undirected_multigraph.hpp',
         'directed_weighted_graph.hpp', 'undirected_weighted_graph.hpp', 'fileio.hpp', 'algorithms/paths.hpp',
         'algorithms/topology.hpp', 'types.h']
REL = {' <= ': [' < '], ' < ': [' <= '], ' >= ': [' > '], ' > ': [' >= '], ' == ': [' != '], ' != ': [' == '],
       ' && ': [' || '], ' || ': [' && '], ' += ': [' -= '], ' -= ': [' += '], ' + 1': [' + 0', ' + 2'], ' - 1': [' - 0'],
       'true': ['false'], 'false': ['true'], '++': ['--'], '--': ['++']}


def candidates(path):
    lines = open(path).read().split('\n')
    out = []
    in_block_comment = False
    for ln, line in enumerate(lines):
        s = line.strip()
        if '/*' in s:
            in_block_comment = True
        if in_block_comment:
            if '*/' in s:
                in_block_comment = False
            continue
        if not s or s.startswith(('//', '#', '*', 'template', 'typename', 'using ', 'namespace', 'class ', 'struct ', 'friend')):
            continue
        if len(line) - len(line.lstrip()) < 8 and not path.endswith(('paths.hpp', 'topology.hpp', 'fileio.hpp')):
            continue
        if len(line) - len(line.lstrip()) < 4:
            continue
        code = line.split('//')[0]
        if 'template' in code or 'typename' in code or 'std::enable_if' in code or 'static_assert' in code:
            continue
        for pat, reps in REL.items():
            start = 0
            while True:
                i = code.find(pat, start)
                if i < 0:
                    break
                start = i + len(pat)
                if pat in (' < ', ' > ') and re.search(r'(std::|vector|list|map|set|pair|tuple|function|array)\s*$', code[:i]):
                    continue
                if pat in ('true', 'false') and (code[i - 1:i].isalnum() or code[i + len(pat):i + len(pat) + 1].isalnum() or code[i - 1:i] == '_'):
                    continue
                if pat in ('++', '--') and code[i:i + 3] in ('+++', '---'):
                    continue
                for r in reps:
                    out.append((ln, 'op %s->%s' % (pat.strip(), r.strip()), line[:i] + r + line[i + len(pat):]))
        # statement deletion: a complete call / assignment / increment statement on one line
        if s.endswith(';') and not s.startswith(('return', 'throw', 'break', 'continue', 'auto ', 'const ', 'size_t ', 'VertexIndex ', 'std::', 'Edge',
                                                 'bool ', 'typedef', 'static ', 'inline ', 'explicit ', 'long ', 'int ', 'unsigned ', 'double ',
                                                 'Successors', 'AdjacencyMatrix', 'WeightMatrix', 'Graph', 'Label', 'T ', 'U ')) \
                and '(' in s or re.match(r'^[\w:\.\[\]\->\*]+(\+\+|--);$', s) or re.match(r'^(\+\+|--)[\w:\.\[\]\->\*]+;$', s) \
                or re.match(r'^[\w:\.\[\]\->\*]+ [\+\-]?= .*;$', s):
            if s.count('(') == s.count(')') and not s.startswith(('for ', 'for(', 'while', 'if ', 'if(', 'else', '}', '{')):
                out.append((ln, 'delete statement', line[:len(line) - len(line.lstrip())] + ';'))
        # swap two simple arguments
        for mm in re.finditer(r'(\w+)\((\*?[A-Za-z_][\w\.]*), (\*?[A-Za-z_][\w\.]*)\)', code):
            a, b = mm.group(2), mm.group(3)
            if a != b and mm.group(1) not in ('if', 'for', 'while', 'pair', 'max', 'min'):
                out.append((ln, 'swap args of %s' % mm.group(1), line[:mm.start(2)] + b + ', ' + a + line[mm.end(3):]))
    return lines, out


def main():
    outdir = sys.argv[1]
    mx = int(sys.argv[2]) if len(sys.argv) > 2 else 300
    seed = int(sys.argv[3]) if len(sys.argv) > 3 else 1
    os.makedirs(outdir, exist_ok=True)
    allm = []
    for rel in FILES:
        p = os.path.join(REPO, 'include', 'BaseGraph', rel)
        lines, cands = candidates(p)
        for (ln, what, new) in cands:
            allm.append((rel, ln, what, new))
    random.Random(seed).shuffle(allm)
    n = 0
    for (rel, ln, what, new) in allm[:mx]:
        p = os.path.join(REPO, 'include', 'BaseGraph', rel)
        lines = open(p).read().split('\n')
        if lines[ln] == new:
            continue
        tmp = tempfile.mkdtemp()
        a = os.path.join(tmp, 'a', 'include', 'BaseGraph', rel)
        b = os.path.join(tmp, 'b', 'include', 'BaseGraph', rel)
        os.makedirs(os.path.dirname(a)); os.makedirs(os.path.dirname(b))
        open(a, 'w').write('\n'.join(lines))
        lines2 = list(lines); lines2[ln] = new
        open(b, 'w').write('\n'.join(lines2))
        d = subprocess.run(['diff', '-u', 'a/include/BaseGraph/' + rel, 'b/include/BaseGraph/' + rel], cwd=tmp, stdout=subprocess.PIPE, text=True).stdout
        shutil.rmtree(tmp)
        name = 'M%04d' % n
        open(os.path.join(outdir, name + '.diff'), 'w').write(d)
        open(os.path.join(outdir, name + '.txt'), 'w').write('%s:%d %s\n- %s\n+ %s\n' % (rel, ln + 1, what, lines[ln].strip(), new.strip()))
        n += 1
    print('%d mutants of %d candidates' % (n, len(allm)))


main()
